"""C13 -- SDML: the matrix handed to the graphical-lasso solver is the documented one,
   S = M0^-1 + balance_param * sum_i y_i v_i v_i^T = prior_inv + balance_param * (D^T * y) D,  D = pairs[:,0] - pairs[:,1],
it is called with alpha = sparsity_param, and a matrix is only returned when the solver did not raise and its result has no
negative eigenvalue and is finite (otherwise RuntimeError).  Optimality itself rests on scikit-learn's solver (bounded stand-in)."""
import z3

from npvc.contracts import *
from npvc.values import *
from npvc import theory as TH
import contracts as C
from .supervised_calls import calls

T_ = 'sdml:_BaseSDML._fit'
con = REGISTRY[T_]


def _solver_input(a, ev, r):
  gl = [e for e in ev if e[0] == 'graphical_lasso']
  imm = calls(ev, '_util:_initialize_metric_mahalanobis')
  prep = calls(ev, 'base_metric:BaseMetricLearner._prepare_inputs')
  if len(gl) != 1 or len(imm) != 1 or not prep:
    return z3.BoolVal(False)
  P, y = prep[0][3].items
  p = a.path
  Pt, yt = p.store[P.loc].term, p.store[y.loc].term
  res = imm[0][3]
  if not isinstance(res, VTuple):
    return z3.BoolVal(False)               # return_inverse=True must have been requested
  minv = p.store[res.items[1].loc].term     # (M, M_inv): the INVERSE of the prior is the second element
  D = TH.sub(TH.take1(Pt, 0), TH.take1(Pt, 1))
  spec = TH.add(minv, TH.smul(a.self.balance_param, TH.mm(TH.colscale(TH.tr(D), yt), D)))
  got = gl[0][1]
  alpha_ok = isinstance(got['alpha'], VReal) and got['alpha'].t.eq(a.self.raw('sparsity_param').t)
  if not alpha_ok:
    return z3.BoolVal(False)
  got_t = p.store[got['emp_cov'].loc].term
  if got_t is not None and z3.simplify(got_t).eq(z3.simplify(spec)):
    return z3.BoolVal(True)
  # another spelling of the matrix: whether it denotes the documented one is an algebraic question about matrix terms the solver cannot be
  # trusted to settle either way (e.g. "scatter of the similar pairs minus scatter of the dissimilar pairs" is the same matrix only for
  # labels in {-1,+1}) -- term recognition, decided by the stand-in's failing input if there is one
  return PatternMismatch('matrix handed to graphical_lasso vs prior_inv + balance_param * (D^T * y) D')


def _vetted(a, ev, r):
  gl = [e for e in ev if e[0] == 'graphical_lasso']
  cf = calls(ev, '_util:components_from_metric')
  if len(gl) != 1 or len(cf) != 1:
    return z3.BoolVal(False)
  M = gl[0][1]['precision']
  Mt = a.path.store[M.loc].term
  used = cf[0][2]['metric']
  return z3.And(z3.BoolVal(used.loc == M.loc),                                             # the learned matrix IS the solver's precision matrix
                z3.Not(TH.anyT(TH.cmps('lt')(TH.eigvals(Mt), z3.RealVal(0)))),             # no negative eigenvalue
                TH.allT(TH.isfiniteT(Mt)))                                                  # finite


con.events['solver-input-is-the-documented-matrix'] = _solver_input
con.events['returned-matrix-passed-the-vetting'] = _vetted
if 'C13' not in con.prop:
  con.prop.append('C13')
