"""C10 (deductive part): what NCA / MLKR hand to the optimiser.  NCA.fit minimises ITS OWN _loss_grad_lbfgs with sign = -1 (the
documented objective is maximised), the same-class mask built from the prepared labels, jac=True, starting at the documented
initialisation, and stores the optimiser's result reshaped to (k, d); MLKR likewise with _loss on (X, y).  LMNN's accept rule and
zero-iteration clause are in fits.py.  Value and derivative of the losses are decided by the bounded stand-in (finite differences
against an independent evaluation of the documented objectives)."""
import z3

from npvc.contracts import *
from npvc.values import *
from npvc import theory as TH
import contracts as C
from .supervised_calls import calls
from .supervised import derives_from


def _min_event(ev):
  ms = [e for e in ev if e[0] == 'minimize']
  return ms[0][1] if len(ms) == 1 else None


def _starts_at_init(a, m):
  ini = calls(a.path.events, '_util:_initialize_components')
  return bool(ini) and isinstance(m['x0'], VArr) and derives_from(a.path, m['x0'], ini[0][3])


def nca_clause(a, ev, r):
  m = _min_event(ev)
  if m is None:
    return z3.BoolVal(False)
  own = isinstance(m['fun'], VFunc) and m['fun'].bound is not None and m['fun'].bound.oid == a.self._obj.oid
  if own and getattr(m['fun'].node, '_qual', '') != 'NCA._loss_grad_lbfgs':
    # a bound method of the estimator under another name: that it computes the documented objective is then only observable at run time
    return PatternMismatch('the function handed to the optimiser is self.%s, not the known NCA._loss_grad_lbfgs' % getattr(m['fun'].node, 'name', '?'))
  ok = own
  args = m['args'].items if isinstance(m['args'], (VTuple, VList)) else []
  prep = calls(ev, 'base_metric:BaseMetricLearner._prepare_inputs')
  ok &= len(args) == 3 and bool(prep)
  cond = z3.BoolVal(False)
  if ok:
    Xp, yp = prep[0][3].items
    ok &= isinstance(args[0], VArr) and args[0].loc == Xp.loc
    # mask = (labels[:, None] == labels[None, :]) of the prepared labels
    mt = a.path.store[args[1].loc].term if isinstance(args[1], VArr) else None
    yt = a.path.store[yp.loc].term
    ok &= mt is not None and z3.is_app(mt) and mt.decl().name() == 'cmp_eq_a' and TH.addaxis1(yt).eq(mt.arg(0)) and TH.addaxis0(yt).eq(mt.arg(1))
    cond = args[2].t == -1 if isinstance(args[2], VReal) else z3.BoolVal(False)     # sign: the optimiser MINIMISES the negated objective
  ok &= isinstance(m['jac'], VBool) and m['jac'].conc() is True
  ok &= _starts_at_init(a, m)
  return z3.And(z3.BoolVal(bool(ok)), cond)


def mlkr_clause(a, ev, r):
  m = _min_event(ev)
  if m is None:
    return z3.BoolVal(False)
  own = isinstance(m['fun'], VFunc) and m['fun'].bound is not None and m['fun'].bound.oid == a.self._obj.oid
  if own and getattr(m['fun'].node, '_qual', '') != 'MLKR._loss':
    return PatternMismatch('the function handed to the optimiser is self.%s, not the known MLKR._loss' % getattr(m['fun'].node, 'name', '?'))
  ok = own
  args = m['args'].items if isinstance(m['args'], (VTuple, VList)) else []
  prep = calls(ev, 'base_metric:BaseMetricLearner._prepare_inputs')
  ok &= len(args) == 2 and bool(prep)
  if ok:
    Xp, yp = prep[0][3].items
    ok &= isinstance(args[0], VArr) and args[0].loc == Xp.loc and isinstance(args[1], VArr) and args[1].loc == yp.loc
  ok &= isinstance(m['jac'], VBool) and m['jac'].conc() is True
  ok &= _starts_at_init(a, m)
  return z3.BoolVal(bool(ok))


REGISTRY['nca:NCA.fit'].events['optimiser-minimises-the-negated-documented-objective-from-the-initialisation'] = nca_clause
REGISTRY['mlkr:MLKR.fit'].events['optimiser-minimises-the-documented-cost-from-the-initialisation'] = mlkr_clause
for t in ('nca:NCA.fit', 'mlkr:MLKR.fit'):
  if 'C10' not in REGISTRY[t].prop:
    REGISTRY[t].prop.append('C10')
