"""C18 -- constructor parameters round-trip.

For each of the 17 public estimators the constructor reached through its MRO is executed symbolically with
every argument an opaque object (sort Ref).  Contract (taken from the property statement):
  * every non-deprecated parameter p is stored untouched:  self.p is p  (unless its deprecated alias is used,
    in which case the attribute holds the alias value);
  * a deprecated alias different from 'deprecated' issues a FutureWarning;
  * nothing but constructor parameters is assigned (no fitted state in __init__);
  * the only exception is LFDA's documented ValueError for an invalid embedding_type.
The parameter list is read from the CURRENT signature, so a new parameter is covered automatically.
"""
import z3

from npvc.contracts import *
from npvc.values import strconst, NONE_REF
from npvc.source import Program, PUBLIC_ESTIMATORS
import contracts as C

ALIASES = {'num_constraints': 'n_constraints', 'convergence_threshold': 'tol', 'num_chunks': 'n_chunks', 'k': 'n_neighbors'}
# LFDA has a genuine parameter called k: aliases are per class
ALIAS_CLASSES = {'k': {'LMNN'}}


def is_alias(cls, param, params):
  if param not in ALIASES or ALIASES[param] not in params:
    return False
  if param in ALIAS_CLASSES and cls not in ALIAS_CLASSES[param]:
    return False
  return True


def build():
  prog = Program()
  for cls in PUBLIC_ESTIMATORS:
    owner, fn = prog.resolve_method(cls, '__init__')
    if fn is None:
      continue
    target = '%s:%s.__init__' % (prog.classes[owner].module, owner)
    params = [a.arg for a in fn.args.args][1:]
    aliases = {p: ALIASES[p] for p in params if is_alias(cls, p, params)}
    replaced = {v: k for k, v in aliases.items()}
    spec = {'self': Obj(cls, {}, closed=True)}
    for p in params:
      spec[p] = AnyRef()
    ensures = {}
    for p in params:
      if p in aliases:
        continue
      def cl(a, r, p=p, replaced=replaced):
        cur = a.self.raw(p)
        if cur is None:
          return z3.BoolVal(False)            # attribute never assigned
        cur = unwrap(cur, a.path)
        val = getattr(a, p)
        if isinstance(cur, str):
          cur = strconst(cur)
        if cur is None:
          cur = NONE_REF
        if not z3.is_expr(cur) or cur.sort() != val.sort():
          return z3.BoolVal(False)            # stored something that is not an object reference (a transformed value)
        if p in replaced:
          al = getattr(a, replaced[p])
          return z3.If(al == strconst('deprecated'), cur == val, cur == al)
        return cur == val
      ensures['roundtrip.' + p] = cl
    for al in aliases:
      def consumed(a, r, al=al):
        # "deprecated aliases MAP ONTO their replacement": the alias itself is consumed -- its attribute goes back to the 'deprecated'
        # sentinel, so that get_params / clone / a later set_params of the replacement never replay the alias value
        cur = a.self.raw(al)
        if cur is None:
          return z3.BoolVal(False)
        cur = unwrap(cur, a.path)
        return z3.BoolVal(cur == 'deprecated') if isinstance(cur, str) else (cur == strconst('deprecated') if z3.is_expr(cur) else z3.BoolVal(False))
      ensures['alias-consumed.' + al] = consumed
    events = {}
    for al in aliases:
      def ev(a, events_, r, al=al):
        warned = any(e[0] == 'warn' and e[1] == 'FutureWarning' for e in events_)
        used = getattr(a, al) != strconst('deprecated')
        # with several aliases a warning may stem from another one: warned must hold whenever this alias is used
        return z3.Implies(used, z3.BoolVal(warned))
      events['futurewarning.' + al] = ev
    def nowarn(a, events_, r, aliases=tuple(aliases)):
      warned = any(e[0] == 'warn' for e in events_)
      if not aliases:
        return z3.BoolVal(not warned)
      none_used = z3.And(*[getattr(a, al) == strconst('deprecated') for al in aliases])
      return z3.Implies(none_used, z3.BoolVal(not warned))
    events['no-warning-without-alias'] = nowarn
    raises = {}
    if cls == 'LFDA':
      raises['ValueError'] = lambda a: z3.And(*[a.embedding_type != strconst(s) for s in ('weighted', 'orthonormalized', 'plain')])
    con = Contract(target + '@' + cls if False else target, [Case(cls, spec)], ensures=ensures, raises=raises, events=events,
                   modifies=set(params), prop=['C18'])
    # several public classes can share an owner (none do today); key by public class to keep units distinct
    key = '%s#%s' % (target, cls)
    con.key = key
    con.public_class = cls
    REGISTRY_C18[key] = con


REGISTRY_C18 = {}
build()
for key, con in REGISTRY_C18.items():
  # constructors are never used modularly by other units, so they live under a C18-specific key
  REGISTRY[key] = con
  C.unit('C18', key)
