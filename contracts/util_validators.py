"""Contracts of the input validators of metric_learn/_util.py (properties C05, C06).

Input abstraction: an array *descriptor* (symbolic rank `ndim`, symbolic dims, dtype kind, value term).  The
contracts are TOTAL: every path of the real body must end in `return` of a formed array, ValueError, or
PreprocessorError (only when a preprocessor was consulted); any other exit (IndexError, KeyError, TypeError
from an ill-formed call, ...) fails the `no-undeclared-exit` obligation.
"""
import inspect
import z3

from npvc.contracts import *
from npvc.values import *
from npvc import theory as TH
import contracts as C


def finite_kw():
  from sklearn.utils import check_array
  return 'ensure_all_finite' if 'ensure_all_finite' in inspect.signature(check_array).parameters else 'force_all_finite'


FKW = finite_kw()


def sk_args():
  """the dict of validator options forwarded to the final check_array (keys as the installed sklearn wants them)"""
  return DictOf({'accept_sparse': Opaque('accept_sparse'), 'dtype': Opaque('dtype'), 'order': Opaque('order'),
                 'copy': Bool(), FKW: Bool(), 'ensure_min_samples': Int(0), 'ensure_min_features': Int(0),
                 'estimator': Opaque('estimator')})


def callable_ref():
  return AnyRef(types={'callable'})


def arr_result(rank, term_fn=None):
  """Returns-builder: a formed array of the given rank whose dims / value are constrained by `ensures`"""
  def build(a, p, ex):
    dims = [fresh('rd%d' % k, z3.IntSort()) for k in range(rank)]
    for d in dims:
      p.assume(d >= 0)
    term = term_fn(a, p) if term_fn else fresh('formed', T)
    return p.new_loc(ArrState(term, Shape(rank, dims), 'f', FRESH_OWNER))
  return Returns(build)


FRESH_OWNER = frozenset()

# ---------------------------------------------------------------------------------------- make_error_input
def used_error_codes():
  import ast
  from npvc.source import Program
  tree = Program().modules['_util'].tree
  return sorted({c.args[0].value for c in ast.walk(tree)
                 if isinstance(c, ast.Call) and getattr(c.func, 'id', '') == 'make_error_input'
                 and c.args and isinstance(c.args[0], ast.Constant)})


register(Contract(
    '_util:make_error_input',
    cases=[Case('code%d' % c, dict(code=Const(VInt(c)), input_data=ArrSym(), context=Opaque('context')))
           for c in used_error_codes()],
    raises={'ValueError': Iff(lambda a: z3.BoolVal(True))},
    prop=['C06'],
    match=lambda env, p: 'code%s' % env['code'].conc() if isinstance(env['code'], VInt) else None,
    notes='every error code used in _util.py makes the function raise ValueError (no KeyError from the message tables)'))
C.unit('C06', '_util:make_error_input')

# -------------------------------------------------------------------------------------------- check_tuple_size
register(Contract(
    '_util:check_tuple_size',
    cases=[Case('none', dict(tuples=Arr(3, positive_dims=False), tuple_size=NoneT(), context=Opaque('context'))),
           Case('int', dict(tuples=Arr(3, positive_dims=False), tuple_size=Int(), context=Opaque('context')))],
    raises={'ValueError': Iff(lambda a: z3.BoolVal(False) if a.tuple_size is None else a.tuples.dim(1) != a.tuple_size)},
    prop=['C06']))
C.unit('C06', '_util:check_tuple_size')

# ------------------------------------------------------------------------------ check_y_valid_values_for_pairs
register(Contract(
    '_util:check_y_valid_values_for_pairs',
    cases=[Case('y', dict(y=Arr(1, positive_dims=False)))],
    raises={'ValueError': Iff(lambda a: z3.Not(TH.array_equal(TH.absT(a.y.term), TH.ones_like(a.y.term))))},
    prop=['C06'],
    notes='raises iff |y| != 1 somewhere (the array_equal/abs/ones_like meaning is numpy\'s, assumed)'))
C.unit('C06', '_util:check_y_valid_values_for_pairs')


# ------------------------------------------------------------------------------------------ preprocess_tuples
def prep_tuples_term(a, p):
  return TH.ptuples(a.preprocessor, a.tuples.term)


register(Contract(
    '_util:preprocess_tuples',
    cases=[Case('callable', dict(tuples=Arr(2, 'i', positive_dims=False), preprocessor=callable_ref()))],
    ensures={
        'rank>=2': lambda a, r: r.ndim >= 2,
        'tuple-axis-kept': lambda a, r: r.dim(1) == a.tuples.dim(1),
        # C05: column i of the result is the preprocessor applied to column i of the indicators, in order
        'column-i-is-prep-of-column-i': lambda a, r: column_clause(a, r),
    },
    raises={'PreprocessorError': May()},
    returns=Returns(lambda a, p, ex: sym_rank_result(a, p, lo=2, term=TH.ptuples(a.preprocessor, a.tuples.term))),
    prop=['C05', 'C06'],
    notes='body explored for preprocessor results of rank 0..3'))
C.unit('C05', '_util:preprocess_tuples')


def column_clause(a, r):
  i = z3.Int('i!col')
  t = a.tuples.dim(1)
  return z3.ForAll([i], z3.Implies(z3.And(i >= 0, i < t),
                                   TH.take1(r.term, i) == TH.papply(a.preprocessor, TH.take1(a.tuples.term, i))),
                   patterns=[TH.take1(r.term, i)])


def sym_rank_result(a, p, lo, term):
  nd = fresh('r.ndim', z3.IntSort())
  dims = z3.Function(fresh_name('r.dim'), z3.IntSort(), z3.IntSort())
  p.assume(nd >= lo)
  p.assume(nd <= 6)
  k = z3.Int('k!r')
  p.assume(z3.ForAll([k], dims(k) >= 0))
  return p.new_loc(ArrState(term, Shape(nd, dims), 'f', FRESH_OWNER))


register(Contract(
    '_util:preprocess_points',
    cases=[Case('callable', dict(points=Arr(1, 'i', positive_dims=False), preprocessor=callable_ref()))],
    ensures={'is-prep-of-points': lambda a, r: r.term == TH.papply(a.preprocessor, a.points.term)},
    raises={'PreprocessorError': May()},
    returns=Returns(lambda a, p, ex: sym_rank_result(a, p, lo=0, term=TH.papply(a.preprocessor, a.points.term))),
    prop=['C05', 'C06']))
C.unit('C05', '_util:preprocess_points')


# ------------------------------------------------------------------------------------------ check_input_tuples
def cit_cases():
  out = []
  for pn, ps in (('noprep', NoneT()), ('prep', callable_ref())):
    for tn, ts in (('anysize', NoneT()), ('size', Int(1))):
      out.append(Case('%s-%s' % (pn, tn), dict(input_data=ArrSym(), context=Opaque('context'), preprocessor=ps,
                                                args_for_sk_checks=sk_args(), tuple_size=ts)))
    for k in INT_KINDS:
      out.append(Case('%s-size-%s' % (pn, KIND_NAMES[k]), dict(input_data=ArrSym(kind=k), context=Opaque('context'), preprocessor=ps,
                                                              args_for_sk_checks=sk_args(), tuple_size=Int(1))))
  return out


# C06 "integer arrays ... holding the same numbers as a float64 C array give the same results": the formed data handed to the learners and to
# transform / pair_distance is floating point whatever the dtype of the argument (differences of unsigned / narrow integers wrap around; F24)
INT_KINDS = ('i', 'u', 'b')
KIND_NAMES = {'i': 'signed-integers', 'u': 'unsigned-integers', 'b': 'booleans'}


def formed_is_floating(a, r):
  return z3.BoolVal(r.kind == 'f')


def not_consulted(a, events, r):
  """C05: formed data (3-D input) => the preprocessor is not consulted"""
  called = any(e[0] == 'opaque-call' or (e[0] == 'call' and e[1] in ('_util:preprocess_tuples', '_util:preprocess_points'))
               for e in events)
  formed_rank = 3 if 'tuple_size' in a._env else 2
  return z3.Implies(a.input_data.ndim == formed_rank, z3.BoolVal(not called))


def final_validator_options(a, events, r):
  """C06: the validator options reach scikit-learn's check_array unchanged at the last validation"""
  cas = [e for e in events if e[0] == 'check_array']
  if not cas:
    return z3.BoolVal(False)
  last = cas[-1][2]
  want_s = str(z3.simplify(a.args_for_sk_checks['ensure_min_samples']))
  want_f = str(z3.simplify(a.args_for_sk_checks['ensure_min_features']))
  ok = (last['allow_nd'] is True and last['ensure_2d'] is False and last['min_samples'] == want_s and last['min_features'] == want_f)
  return z3.BoolVal(bool(ok))


register(Contract(
    '_util:check_input_tuples',
    cases=cit_cases(),
    ensures={
        'rank3': lambda a, r: r.ndim == 3,
        'tuple-size': lambda a, r: None if a.tuple_size is None else r.dim(1) == a.tuple_size,
        'min-samples': lambda a, r: r.dim(0) >= a.args_for_sk_checks['ensure_min_samples'],
        'min-features': lambda a, r: z3.Implies(a.args_for_sk_checks['ensure_min_features'] > 0,
                                                r.dim(2) >= a.args_for_sk_checks['ensure_min_features']),
        'formed-input-returned-as-is': lambda a, r: z3.Implies(a.input_data.ndim == 3, z3.And(
            r.term == a.input_data.term, *[r.dim(k) == a.input_data.dim(k) for k in range(3)])),
        'indices-are-formed-by-preprocessor': lambda a, r: None if a.preprocessor is None else
            z3.Implies(a.input_data.ndim == 2, r.term == TH.ptuples(a.preprocessor, a.input_data.term)),
        'formed-data-is-floating-point': formed_is_floating,
    },
    raises={'ValueError': May(),
            'PreprocessorError': OnlyIf(lambda a: z3.BoolVal(False) if a.preprocessor is None else a.input_data.ndim == 2)},
    events={'formed-data-does-not-consult-preprocessor': not_consulted,
            'validator-options-forwarded': final_validator_options},
    returns=arr_result(3, lambda a, p: fresh('formed', T)),
    prop=['C05', 'C06']))
C.unit('C06', '_util:check_input_tuples')


def cic_cases():
  return [Case(pn + sfx, dict(input_data=ArrSym(kind=k), context=Opaque('context'), preprocessor=ps, args_for_sk_checks=sk_args()))
          for pn, ps in (('noprep', NoneT()), ('prep', callable_ref()))
          for k, sfx in [('f', '')] + [(k_, '-' + KIND_NAMES[k_]) for k_ in INT_KINDS]]


register(Contract(
    '_util:check_input_classic',
    cases=cic_cases(),
    ensures={
        'rank2': lambda a, r: r.ndim == 2,
        'min-samples': lambda a, r: r.dim(0) >= a.args_for_sk_checks['ensure_min_samples'],
        'min-features': lambda a, r: r.dim(1) >= a.args_for_sk_checks['ensure_min_features'],
        'formed-input-returned-as-is': lambda a, r: z3.Implies(a.input_data.ndim == 2, z3.And(
            r.term == a.input_data.term, *[r.dim(k) == a.input_data.dim(k) for k in range(2)])),
        'indices-are-formed-by-preprocessor': lambda a, r: None if a.preprocessor is None else
            z3.Implies(a.input_data.ndim == 1, r.term == TH.papply(a.preprocessor, a.input_data.term)),
        'formed-data-is-floating-point': formed_is_floating,
    },
    raises={'ValueError': May(),
            'PreprocessorError': OnlyIf(lambda a: z3.BoolVal(False) if a.preprocessor is None else a.input_data.ndim == 1)},
    events={'formed-data-does-not-consult-preprocessor': not_consulted,
            'validator-options-forwarded': final_validator_options},
    returns=arr_result(2),
    prop=['C05', 'C06']))
C.unit('C06', '_util:check_input_classic')


# ------------------------------------------------------------------------------------------------- check_input
def ci_params(y, toi, prep, ts):
  return dict(input_data=ArrSym(), y=y, preprocessor=prep, type_of_inputs=toi, tuple_size=ts,
              accept_sparse=Opaque('accept_sparse'), dtype=Opaque('dtype'), order=Opaque('order'), copy=Bool(),
              force_all_finite=Bool(), multi_output=Bool(), ensure_min_samples=Int(0), ensure_min_features=Int(0),
              y_numeric=Bool(), estimator=Opaque('estimator'))


def ci_cases():
  out = []
  for yn, ys in (('X', NoneT()), ('Xy', Arr(1, positive_dims=False))):
    for pn, ps in (('noprep', NoneT()), ('prep', callable_ref())):
      out.append(Case('classic-%s-%s' % (yn, pn), ci_params(ys, Str('classic'), ps, NoneT())))
      for tn, ts in (('anysize', NoneT()), ('size', Int(1))):
        out.append(Case('tuples-%s-%s-%s' % (yn, pn, tn), ci_params(ys, Str('tuples'), ps, ts)))
    out.append(Case('unknown-type-%s' % yn, ci_params(ys, Str('something else'), NoneT(), NoneT()), never_returns=True))
  return out


def ci_data(a, r):
  return r if a.y is None else r[0]


def ci_match(env, p):
  toi = env['type_of_inputs']
  yn = 'X' if isinstance(env['y'], VNone) else 'Xy'
  if not isinstance(toi, VStr) or toi.s not in ('classic', 'tuples'):
    return 'unknown-type-' + yn
  pn = 'noprep' if isinstance(env['preprocessor'], VNone) else 'prep'
  if toi.s == 'classic':
    return 'classic-%s-%s' % (yn, pn)
  return 'tuples-%s-%s-%s' % (yn, pn, 'anysize' if isinstance(env['tuple_size'], VNone) else 'size')


def ci_formed_rank(a):
  return 3 if a.type_of_inputs == 'tuples' else 2


def ci_returns(a, p, ex):
  rank = ci_formed_rank(a)
  dims = [fresh('rd%d' % k, z3.IntSort()) for k in range(rank)]
  for d in dims:
    p.assume(d >= 0)
  # check_array(copy=False) hands a well-formed float ndarray back AS IS: the validated data may be the caller's own array (C17: it must
  # then never be written to in place).  Its owner set is therefore the argument's, not "fresh".
  src = None
  for nm in ('input_data', 'X'):
    try:
      src = a.raw(nm)
      break
    except (KeyError, AttributeError):
      continue
  owner = p.store[src.loc].owner if isinstance(src, VArr) else FRESH_OWNER
  data = p.new_loc(ArrState(fresh('formed', T), Shape(rank, dims), 'f', owner))
  if a.y is None:
    return data
  yv = a.raw('y')
  yst = p.store[yv.loc]
  yres = p.new_loc(ArrState(yst.term, Shape(1, [dims[0]]), yst.kind, yst.owner, (yv.loc, yst.version)))
  return VTuple([data, yres])


def ci_term_clause(a, r):
  d = ci_data(a, r)
  fr = ci_formed_rank(a)
  out = [z3.Implies(a.input_data.ndim == fr, z3.And(d.term == a.input_data.term,
                                                    *[d.dim(k) == a.input_data.dim(k) for k in range(fr)]))]
  if a.preprocessor is not None:
    formed = TH.ptuples(a.preprocessor, a.input_data.term) if fr == 3 else TH.papply(a.preprocessor, a.input_data.term)
    out.append(z3.Implies(a.input_data.ndim == fr - 1, d.term == formed))
  return z3.And(*out)


def ci_unknown(a):
  return a.type_of_inputs not in ('classic', 'tuples')


register(Contract(
    '_util:check_input',
    cases=ci_cases(),
    match=ci_match,
    ensures={
        'known-type-of-inputs': lambda a, r: z3.BoolVal(not ci_unknown(a)),
        'formed-rank': lambda a, r: None if ci_unknown(a) else ci_data(a, r).ndim == ci_formed_rank(a),
        'tuple-size': lambda a, r: None if (ci_unknown(a) or a.tuple_size is None or a.type_of_inputs != 'tuples')
            else ci_data(a, r).dim(1) == a.tuple_size,
        'min-samples': lambda a, r: None if ci_unknown(a) else ci_data(a, r).dim(0) >= a.ensure_min_samples,
        'min-features': lambda a, r: None if ci_unknown(a) else
            z3.Implies(a.ensure_min_features > 0, ci_data(a, r).dim(ci_formed_rank(a) - 1) >= a.ensure_min_features),
        'value': lambda a, r: None if ci_unknown(a) else ci_term_clause(a, r),
        'labels-same-length': lambda a, r: None if (ci_unknown(a) or a.y is None) else
            z3.Implies(a.input_data.ndim == ci_formed_rank(a), r[1].dim(0) == r[0].dim(0)),
        'labels-kept': lambda a, r: None if (ci_unknown(a) or a.y is None) else r[1].term == a.y.term,
        'pair-labels-are-plus-minus-one': lambda a, r: None if (ci_unknown(a) or a.y is None or a.type_of_inputs != 'tuples') else
            z3.Implies(r[0].dim(1) == 2, TH.array_equal(TH.absT(r[1].term), TH.ones_like(r[1].term))),
    },
    raises={'ValueError': May(),
            'PreprocessorError': OnlyIf(lambda a: z3.BoolVal(False) if (a.preprocessor is None or ci_unknown(a))
                                        else a.input_data.ndim == ci_formed_rank(a) - 1)},
    returns=Returns(ci_returns),
    prop=['C05', 'C06']))
C.unit('C06', '_util:check_input')


from npvc import ttype as _TT


def _ci_tt(env, p, res):
  t = _TT.tt_of(p, env['input_data'])
  if isinstance(res, VTuple):
    _TT.set_tt(p, res.items[0], t)
    _TT.set_tt(p, res.items[1], _TT.tt_of(p, env['y']))
  else:
    _TT.set_tt(p, res, t)


for _t in ('_util:check_input', '_util:check_input_tuples', '_util:check_input_classic'):
  REGISTRY[_t].tt_rule = _ci_tt
