"""Contracts of fit / _fit of the 17 estimators at the shape / dtype / ownership / exception-flow level
(C03: valid model of the right shape; C17: frames, freshness, seeding, history independence; C08: refinement)."""
import z3

from npvc.contracts import *
from npvc.values import *
from npvc import theory as TH
import contracts as C
from .base_fit import prep_param

FITTED = ['components_', 'preprocessor_', 'n_features_in_', 'threshold_', 'bounds_', 'n_iter_', 'w_', 'A_', 'converged_', 'labels_']


def est(cls, hyper, hist='fresh', prep='none'):
  attrs = dict(hyper)
  attrs['preprocessor'] = prep_param(prep)
  if hist == 'refit':
    # arbitrary earlier fitted state (possibly of another dimensionality)
    attrs['components_'] = Arr(2, owner=frozenset({('attr', 'components_')}), dims=['old_k', 'old_d'])
    attrs['preprocessor_'] = AnyRef()
    attrs['n_features_in_'] = Int(1)
  return Obj(cls, attrs, closed=True)


def comp(a):
  return a.self.components_


def returns_self(a, r):
  return z3.BoolVal(isinstance(r, ObjView) and r._obj.oid == a.self._obj.oid)


def symbols_of(t, acc):
  seen = set()

  def walk(x):
    if x.get_id() in seen:
      return
    seen.add(x.get_id())
    if z3.is_const(x) and x.decl().kind() == z3.Z3_OP_UNINTERPRETED:
      acc.add(x.decl().name())
    for ch in x.children():
      walk(ch)
  walk(t)


def history_free(a, r):
  """C17 non-interference: the fitted model does not mention the pre-state of the fitted attributes"""
  if not a.old or not a.self.has('components_'):
    return None
  acc = set()
  c = comp(a)
  if c.term is not None:
    symbols_of(c.term, acc)
  for dmn in c.shape:
    symbols_of(dmn, acc)
  nf = a.self.raw('n_features_in_')
  if isinstance(nf, VInt):
    symbols_of(nf.t, acc)
  bad = sorted(s for s in acc if s.startswith('self.components_') or s.startswith('self.n_features_in_') or s.startswith('self.preprocessor_')
               or s.startswith('old_'))
  return z3.BoolVal(not bad)


def seeded(a, events, r):
  """C17 determinism: every random draw comes from check_random_state(self.random_state) / an int seed"""
  bad = []
  has_seed = a.self.has('random_state') and a.self.raw('random_state') is not None and isinstance(a.self.raw('random_state'), VInt)
  for e in events:
    if e[0] == 'random-draw':
      src = e[2]
      ok = src == 'int-seed' or (src == 'global-unseeded' and not has_seed) or (src.startswith('given:') )
      if not ok:
        bad.append(e)
    if e[0] == 'random-source' and e[2] == 'UNSEEDED':
      bad.append(e)
    if e[0] == 'random-source' and e[2] == 'global-unseeded' and has_seed:
      bad.append(e)
  return z3.BoolVal(not bad)


def model_clauses(k_fn, d_fn):
  """the C03 clauses shared by all fits; k_fn(a) -> expected number of rows or None (only k <= d), d_fn(a) -> feature count"""
  def shape(a, r):
    c = comp(a)
    k = k_fn(a)
    base = z3.And(c.ndim == 2, c.dim(1) == d_fn(a), c.dim(0) <= c.dim(1), c.dim(0) >= 1)
    return z3.And(base, c.dim(0) == k) if k is not None else base
  return {
      'returns-self': returns_self,
      'components_-shape-(k,n_features)': shape,
      'components_-real-float-dtype': lambda a, r: z3.BoolVal(comp(a).kind == 'f'),
      'components_-fresh': lambda a, r: z3.BoolVal(len(comp(a).owner) == 0),
      'n_features_in_': lambda a, r: a.self.n_features_in_ == d_fn(a),
      'model-independent-of-history': history_free,
  }


def assigns(*attrs):
  """C17 (bookkeeping): every attribute a fit of this estimator ever sets is assigned by EVERY successful fit, so that none
  keeps the value of an earlier fit"""
  def cl(a, events, r):
    oid = a.self._obj.oid
    written = {e[2] for e in events if e[0] == 'setattr' and e[1] == oid}
    return z3.BoolVal(set(attrs) <= written)
  return cl


def fit_returns(d_fn, k_fn=None, extra=()):
  """modular use of a fit contract: assigns the fitted attributes on self's heap and returns self"""
  def build(a, p, ex):
    obj = a.raw('self')
    d = d_fn(a)
    k = k_fn(a) if k_fn else None
    if k is None:
      k = fresh('k', z3.IntSort())
      p.assume(k >= 0)
      p.assume(k <= d)
    p.heap[obj.oid]['components_'] = p.new_loc(ArrState(fresh('L', T), Shape(2, [k, d]), 'f', frozenset()))
    p.heap[obj.oid]['n_features_in_'] = VInt(d)
    raw = p.heap[obj.oid].get('preprocessor')
    p.heap[obj.oid]['preprocessor_'] = VNone() if isinstance(raw, VNone) else raw
    for nm in ('components_', 'n_features_in_', 'preprocessor_') + tuple(extra):
      p.events.append(('setattr', obj.oid, nm))
    for nm in extra:
      if nm == 'bounds_':
        p.heap[obj.oid][nm] = p.new_loc(ArrState(fresh('bounds', T), Shape(1, [z3.IntVal(2)]), 'f', frozenset()))
      elif nm == 'w_':
        p.heap[obj.oid][nm] = p.new_loc(ArrState(fresh('w', T), Shape(1, [fresh('nw', z3.IntSort())]), 'f', frozenset()))
      elif nm == 'A_':
        p.heap[obj.oid][nm] = p.new_loc(ArrState(fresh('A', T), Shape(2, [d, d]), 'f', frozenset()))
      elif nm == 'n_iter_':
        p.heap[obj.oid][nm] = VInt(fresh('n_iter', z3.IntSort()))
      elif nm == 'converged_':
        p.heap[obj.oid][nm] = VBool(fresh('converged', z3.BoolSort()))
      else:
        p.heap[obj.oid].setdefault(nm, VOpaque(nm))
    return obj
  return Returns(build)


FIT_RAISES = {'ValueError': May(), 'LinAlgError': May(), 'NonPSDError': May()}

# ------------------------------------------------------------------------------------------------ Covariance
def cov_cases():
  return [Case('%s' % h, {'self': est('Covariance', {}, h), 'X': Arr(2, dims=['n', 'd'], tt='pos'), 'y': NoneT()}) for h in ('fresh', 'refit')]


register(Contract(
    'covariance:Covariance.fit',
    cases=cov_cases(),
    ensures=model_clauses(lambda a: a.X.dim(1), lambda a: a.X.dim(1)),
    events={'randomness-seeded': seeded},
    raises=dict(FIT_RAISES),
    modifies={'components_', 'preprocessor_', 'n_features_in_'},
    prop=['C03', 'C09', 'C17']))
C.unit('C03', 'covariance:Covariance.fit')


# ---------------------------------------------------------------------------------------------------- ITML
def pairs_arr(name='pairs'):
  return Arr(3, dims=['n', 2, 'd'], tt='pos')      # training points: move with a translation of the data (C19)


PRIORS = [('identity', Str('identity')), ('covariance', Str('covariance')), ('random', Str('random')),
          ('array', Arr(2, owner=frozenset({('attr', 'prior')}), dims=['pd0', 'pd1']))]


def itml_hyper(prior, gamma='real', seed='seed'):
  return {'gamma': Real() if gamma == 'real' else Inf(), 'max_iter': Int(1), 'tol': Real(), 'prior': prior, 'verbose': Const(VBool(False)),
          'random_state': Int() if seed == 'seed' else NoneT(), 'convergence_threshold': Str('deprecated')}


def itml_fit_cases():
  out = []
  for pn, ps in PRIORS:
    for bn, bs in (('defaultbounds', NoneT()), ('bounds', Arr(1, owner=frozenset({('param', 'bounds')}), dims=['nb']))):
      for h in ('fresh', 'refit'):
        pre = None
        if bn == 'bounds':
          # documented: bounds on the distances -- positive or zero numbers
          pre = lambda a: z3.ForAll([z3.Int('j!b')], TH.at1(a.bounds.term, z3.Int('j!b')) >= 0, patterns=[TH.at1(a.bounds.term, z3.Int('j!b'))])
        out.append(Case('%s-%s-%s' % (pn, bn, h), {'self': est('ITML', itml_hyper(ps), h), 'pairs': pairs_arr(), 'y': Arr(1, 'i', dims=['n']), 'bounds': bs}, pre=pre))
  out.append(Case('identity-defaultbounds-fresh-gamma-inf-noseed',
                  {'self': est('ITML', itml_hyper(Str('identity'), 'inf', 'noseed'), 'fresh'), 'pairs': pairs_arr(), 'y': Arr(1, 'i', dims=['n']), 'bounds': NoneT()}))
  return out


def fit_match_by(names):
  def m(env, p):
    return None
  return m


ITML_MOD = {'components_', 'preprocessor_', 'n_features_in_', 'bounds_', 'n_iter_'}
register(Contract(
    'itml:_BaseITML._fit',
    cases=itml_fit_cases(),
    ensures=dict(model_clauses(lambda a: a.pairs.dim(2), lambda a: a.pairs.dim(2)),
                 **{'bounds_-has-two-entries': lambda a, r: z3.And(a.self.bounds_.ndim == 1, a.self.bounds_.dim(0) == 2)}),
    events={'randomness-seeded': seeded, 'bookkeeping-attributes-assigned-by-every-fit': assigns('components_', 'bounds_', 'n_iter_')},
    raises=dict(FIT_RAISES),
    modifies=ITML_MOD,
    returns=fit_returns(lambda a: a.pairs.dim(2), lambda a: a.pairs.dim(2), ('bounds_', 'n_iter_')),
    prop=['C03', 'C11', 'C17']))
C.unit('C03', 'itml:_BaseITML._fit')


# ---------------------------------------------------------------------------------------------------- LSML
def lsml_hyper(prior, seed='seed'):
  return {'tol': Real(), 'max_iter': Int(1), 'prior': prior, 'verbose': Const(VBool(False)),
          'random_state': Int() if seed == 'seed' else NoneT()}


def lsml_fit_cases():
  out = []
  for pn, ps in PRIORS:
    for wn, ws in (('noweights', NoneT()), ('weights-array', Arr(1, owner=frozenset({('param', 'weights')}), dims=['n'])),
                   ('weights-list', AnyRef(types={'list'}))):
      for h in ('fresh', 'refit'):
        if wn == 'weights-list' and (pn != 'identity' or h == 'refit'):
          continue
        out.append(Case('%s-%s-%s' % (pn, wn, h), {'self': est('LSML', lsml_hyper(ps), h), 'quadruplets': Arr(3, dims=['n', 4, 'd'], tt='pos'), 'weights': ws}))
  return out


register(Contract(
    'lsml:_BaseLSML._fit',
    cases=lsml_fit_cases(),
    ensures=dict(model_clauses(lambda a: a.quadruplets.dim(2), lambda a: a.quadruplets.dim(2)),
                 **{'w_-one-weight-per-constraint': lambda a, r: z3.And(a.self.w_.ndim == 1)}),
    events={'randomness-seeded': seeded, 'bookkeeping-attributes-assigned-by-every-fit': assigns('components_', 'w_', 'n_iter_')},
    raises=dict(FIT_RAISES),
    modifies={'components_', 'preprocessor_', 'n_features_in_', 'w_', 'n_iter_'},
    returns=fit_returns(lambda a: a.quadruplets.dim(2), lambda a: a.quadruplets.dim(2), ('w_', 'n_iter_')),
    prop=['C03', 'C12', 'C17']))
C.unit('C03', 'lsml:_BaseLSML._fit')


# ----------------------------------------------------------------------------------------------------- MMC
INITS_M = [('identity', Str('identity')), ('covariance', Str('covariance')), ('random', Str('random')),
           ('array', Arr(2, owner=frozenset({('attr', 'init')}), dims=['pd0', 'pd1']))]


def mmc_hyper(init, diagonal, seed='seed'):
  return {'max_iter': Int(1), 'max_proj': Int(1), 'tol': Real(), 'init': init, 'diagonal': Const(VBool(diagonal)), 'diagonal_c': Real(),
          'verbose': Const(VBool(False)), 'random_state': Int() if seed == 'seed' else NoneT(), 'convergence_threshold': Str('deprecated')}


def mmc_fit_cases():
  out = []
  for iname, ispec in INITS_M:
    for diag in (False, True):
      for h in ('fresh', 'refit'):
        if diag and (iname not in ('identity', 'array')):
          continue
        out.append(Case('%s-%s-%s' % (iname, 'diag' if diag else 'full', h),
                        {'self': est('MMC', mmc_hyper(ispec, diag), h), 'pairs': pairs_arr(), 'y': Arr(1, 'i', dims=['n'])}))
  return out


register(Contract(
    'mmc:_BaseMMC._fit',
    cases=mmc_fit_cases(),
    ensures=model_clauses(lambda a: a.pairs.dim(2), lambda a: a.pairs.dim(2)),
    events={'randomness-seeded': seeded, 'bookkeeping-attributes-assigned-by-every-fit': assigns('components_', 'A_', 'n_iter_', 'converged_')},
    raises=dict(FIT_RAISES),
    modifies={'components_', 'preprocessor_', 'n_features_in_', 'A_', 'n_iter_', 'converged_'},
    returns=fit_returns(lambda a: a.pairs.dim(2), lambda a: a.pairs.dim(2), ('A_', 'n_iter_', 'converged_')),
    prop=['C03', 'C14', 'C17']))
C.unit('C03', 'mmc:_BaseMMC._fit')


# ---------------------------------------------------------------------------------------------------- SDML
def sdml_hyper(prior, seed='seed'):
  return {'balance_param': Real(), 'sparsity_param': Real(), 'prior': prior, 'verbose': Const(VBool(False)),
          'random_state': Int() if seed == 'seed' else NoneT()}


def sdml_fit_cases():
  return [Case('%s-%s' % (pn, h), {'self': est('SDML', sdml_hyper(ps), h), 'pairs': pairs_arr(), 'y': Arr(1, 'i', dims=['n'])})
          for pn, ps in PRIORS for h in ('fresh', 'refit')]


register(Contract(
    'sdml:_BaseSDML._fit',
    cases=sdml_fit_cases(),
    ensures=model_clauses(lambda a: a.pairs.dim(2), lambda a: a.pairs.dim(2)),
    events={'randomness-seeded': seeded, 'bookkeeping-attributes-assigned-by-every-fit': assigns('components_')},
    raises=dict(FIT_RAISES, RuntimeError=May()),
    modifies={'components_', 'preprocessor_', 'n_features_in_'},
    returns=fit_returns(lambda a: a.pairs.dim(2), lambda a: a.pairs.dim(2)),
    prop=['C03', 'C13', 'C17']))
C.unit('C03', 'sdml:_BaseSDML._fit')


# ------------------------------------------------------------------------------------------- NCA / MLKR / LMNN
INITS_L = [('auto', Str('auto')), ('pca', Str('pca')), ('lda', Str('lda')), ('identity', Str('identity')), ('random', Str('random')),
           ('array', Arr(2, owner=frozenset({('attr', 'init')}), dims=['id0', 'id1']))]


def ncomp_specs():
  return [('allfeatures', NoneT()), ('k', Int())]


def nca_hyper(init, nc, seed='seed'):
  return {'init': init, 'n_components': nc, 'max_iter': Int(0), 'tol': NoneT(), 'verbose': Const(VBool(False)),
          'random_state': Int() if seed == 'seed' else NoneT()}


def k_of(a, dname='X'):
  nc = a.self.n_components
  return getattr(a, dname).dim(1) if nc is None else nc


def point_cases(cls, hyper_fn, inits, ykind='i', with_lda=True):
  out = []
  for iname, ispec in inits:
    if iname == 'lda' and not with_lda:
      continue
    for nn, ns in ncomp_specs():
      for h in ('fresh', 'refit'):
        if h == 'refit' and (iname not in ('auto', 'array')):
          continue
        out.append(Case('%s-%s-%s' % (iname, nn, h), {'self': est(cls, hyper_fn(ispec, ns), h), 'X': Arr(2, dims=['n', 'd']), 'y': Arr(1, ykind, dims=['n'])}))
  return out


register(Contract(
    'nca:NCA.fit',
    cases=point_cases('NCA', nca_hyper, INITS_L),
    ensures=model_clauses(lambda a: k_of(a), lambda a: a.X.dim(1)),
    events={'randomness-seeded': seeded, 'bookkeeping-attributes-assigned-by-every-fit': assigns('components_', 'n_iter_')},
    raises=dict(FIT_RAISES),
    modifies={'components_', 'preprocessor_', 'n_features_in_', 'n_iter_'},
    prop=['C03', 'C10', 'C17']))
C.unit('C03', 'nca:NCA.fit')


def mlkr_hyper(init, nc, seed='seed'):
  return {'n_components': nc, 'init': init, 'tol': NoneT(), 'max_iter': Int(0), 'verbose': Const(VBool(False)),
          'random_state': Int() if seed == 'seed' else NoneT()}


register(Contract(
    'mlkr:MLKR.fit',
    cases=point_cases('MLKR', mlkr_hyper, INITS_L, ykind='f', with_lda=False),
    ensures=model_clauses(lambda a: k_of(a), lambda a: a.X.dim(1)),
    events={'randomness-seeded': seeded, 'bookkeeping-attributes-assigned-by-every-fit': assigns('components_', 'n_iter_')},
    raises=dict(FIT_RAISES),
    modifies={'components_', 'preprocessor_', 'n_features_in_', 'n_iter_'},
    prop=['C03', 'C10', 'C17']))
C.unit('C03', 'mlkr:MLKR.fit')


def lmnn_hyper(init, nc, seed='seed'):
  return {'init': init, 'k': Str('deprecated'), 'n_neighbors': Int(1), 'min_iter': Int(0), 'max_iter': Int(0), 'learn_rate': Real(),
          'regularization': Real(), 'convergence_tol': Real(), 'verbose': Const(VBool(False)), 'n_components': nc,
          'random_state': Int() if seed == 'seed' else NoneT()}


register(Contract(
    'lmnn:LMNN.fit',
    cases=point_cases('LMNN', lmnn_hyper, INITS_L),
    ensures=model_clauses(lambda a: k_of(a), lambda a: a.X.dim(1)),
    events={'randomness-seeded': seeded, 'bookkeeping-attributes-assigned-by-every-fit': assigns('components_', 'n_iter_', 'labels_')},
    # TypeError: `_inplace_paired_L2(*Lx[impostors])` with an empty impostor LIST, reachable only for single-class y (outside the
    # property's quantifier); the executor does not relate the length of that list to the number of classes
    raises=dict(FIT_RAISES, AssertionError=May(), TypeError=May()),
    modifies={'components_', 'preprocessor_', 'n_features_in_', 'n_iter_', 'labels_'},
    prop=['C03', 'C10', 'C17']))
C.unit('C03', 'lmnn:LMNN.fit')


# ------------------------------------------------------------------------------------------------ LFDA / RCA
def lfda_cases():
  out = []
  for en in ('weighted', 'orthonormalized', 'plain'):
    for kn, ks in (('kdefault', NoneT()), ('k', Int(1))):
      for nn, ns in ncomp_specs():
        for h in ('fresh', 'refit'):
          if h == 'refit' and (en != 'weighted' or kn != 'kdefault'):
            continue
          out.append(Case('%s-%s-%s-%s' % (en, kn, nn, h),
                          {'self': est('LFDA', {'n_components': ns, 'embedding_type': Str(en), 'k': ks}, h), 'X': Arr(2, dims=['n', 'd']),
                           'y': Arr(1, 'i', dims=['n'])}, pre=lambda a: a.X.dim(1) >= 2))
  return out


register(Contract(
    'lfda:LFDA.fit',
    cases=lfda_cases(),
    ensures=model_clauses(lambda a: k_of(a), lambda a: a.X.dim(1)),
    events={'randomness-seeded': seeded, 'bookkeeping-attributes-assigned-by-every-fit': assigns('components_')},
    raises=dict(FIT_RAISES),
    modifies={'components_', 'preprocessor_', 'n_features_in_'},
    prop=['C03', 'C09', 'C17']))
C.unit('C03', 'lfda:LFDA.fit')


def rca_cases():
  return [Case('%s-%s' % (nn, h), {'self': est('RCA', {'n_components': ns}, h), 'X': Arr(2, dims=['n', 'd']), 'chunks': Arr(1, 'i', dims=['n'])})
          for nn, ns in ncomp_specs() for h in ('fresh', 'refit')]


register(Contract(
    'rca:RCA.fit',
    cases=rca_cases(),
    ensures=model_clauses(lambda a: k_of(a), lambda a: a.X.dim(1)),
    events={'randomness-seeded': seeded, 'bookkeeping-attributes-assigned-by-every-fit': assigns('components_')},
    raises=dict(FIT_RAISES),
    modifies={'components_', 'preprocessor_', 'n_features_in_'},
    returns=fit_returns(lambda a: a.X.dim(1), lambda a: k_of(a)),
    prop=['C03', 'C09', 'C17']))
C.unit('C03', 'rca:RCA.fit')


from .loops import invariant


@invariant('lfda:LFDA.fit', 0, 'range(num_classes)')
def _lfda_k_nonneg(v, head):
  """the neighbour index stays a valid non-negative index (every class has at least one member)"""
  return v.k >= 0


# ---------------------------------------------------------------------------------------------------- SCML
def scml_hyper(basis, n_basis, seed='seed'):
  return {'beta': Real(), 'basis': basis, 'n_basis': n_basis, 'gamma': Real(), 'max_iter': Int(1), 'output_iter': Int(1), 'batch_size': Int(1),
          'verbose': Const(VBool(False)), 'random_state': Int() if seed == 'seed' else NoneT()}


def scml_fit_cases():
  out = []
  for bn, bs in (('triplet_diffs', Str('triplet_diffs')), ('array', Arr(2, owner=frozenset({('attr', 'basis')}), dims=['nb', 'bd']))):
    for nn, ns in (('nbasis-default', NoneT()), ('nbasis', Int(1))):
      for h in ('fresh', 'refit'):
        if h == 'refit' and bn == 'array':
          continue
        out.append(Case('%s-%s-%s' % (bn, nn, h), {'self': est('SCML', scml_hyper(bs, ns), h), 'triplets': Arr(3, dims=['n', 3, 'd'], tt='pos'),
                                                   'basis': NoneT(), 'n_basis': NoneT()},
                        pre=lambda a: a.self.output_iter <= a.self.max_iter))
  # the supervised variant hands in a ready basis (lda): (n_basis, d) with its row count
  out.append(Case('given-basis', {'self': est('SCML', scml_hyper(Str('lda'), Int(1)), 'fresh'), 'triplets': Arr(3, dims=['n', 3, 'd']),
                                  'basis': Arr(2, dims=['nb', 'd'], owner=frozenset()), 'n_basis': Int(1)},
                  pre=lambda a: z3.And(a.self.output_iter <= a.self.max_iter, a.n_basis == a.basis.dim(0))))
  return out


def scml_shape(a, r):
  c = comp(a)
  d = a.triplets.dim(2)
  return z3.And(c.ndim == 2, c.dim(1) == d, c.dim(0) <= d, c.dim(0) >= 0)


scml_clauses = model_clauses(lambda a: None, lambda a: a.triplets.dim(2))
scml_clauses['components_-shape-(k,n_features)'] = scml_shape
register(Contract(
    'scml:_BaseSCML._fit',
    cases=scml_fit_cases(),
    ensures=scml_clauses,
    events={'randomness-seeded': seeded, 'bookkeeping-attributes-assigned-by-every-fit': assigns('components_', 'n_iter_'),
            # documented low-rank case: fewer rows than features only together with a warning
            # (the warning itself is issued and verified inside _components_from_basis_weights, see its contract)
            'lowrank-only-with-warning': lambda a, ev, r: z3.Implies(comp(a).dim(0) < comp(a).dim(1), z3.BoolVal(
                any(e[0] == 'warn' for e in ev) or any(e[0] == 'call' and e[1] == 'scml:_BaseSCML._components_from_basis_weights' for e in ev)))},
    raises=dict(FIT_RAISES),
    modifies={'components_', 'preprocessor_', 'n_features_in_', 'n_iter_'},
    returns=fit_returns(lambda a: a.triplets.dim(2), None, ('n_iter_',)),
    prop=['C03', 'C15', 'C17']))
C.unit('C03', 'scml:_BaseSCML._fit')


# LFDA: the neighbour index used for the local scale of class c is a function of the configured k and of that class's size only
def _lfda_k_not_carried(a, ev, r):
  ws = [e for e in ev if e[0] == 'loop-writes' and e[1] == 'lfda:LFDA.fit' and e[2] == 0]
  return z3.BoolVal(bool(ws) and all('k' not in e[3] for e in ws))


REGISTRY['lfda:LFDA.fit'].events['local-scale-index-not-carried-across-classes'] = _lfda_k_not_carried


# LSML: shape-level contracts of the loss and gradient, with the dataflow clause "the weights reach the search direction"
def lsml_state(extra=None):
  attrs = {'w_': Arr(1, owner=frozenset(), dims=['n']), 'prior': Str('identity'), 'tol': Real(), 'max_iter': Int(1), 'verbose': Const(VBool(False)),
           'random_state': NoneT(), 'preprocessor': NoneT()}
  return Obj('LSML', attrs, closed=True)


def reads_weights(a, ev, r):
  return z3.BoolVal(any(e[0] == 'getattr' and e[2] == 'w_' for e in ev))


_mats = dict(metric=Arr(2, dims=['d', 'd']), vab=Arr(2, dims=['n', 'd']), vcd=Arr(2, dims=['n', 'd']), prior_inv=Arr(2, dims=['d', 'd']))
register(Contract(
    'lsml:_BaseLSML._gradient',
    cases=[Case('g', dict(_mats, self=lsml_state()))],
    ensures={'shape-(d,d)': lambda a, r: z3.And(r.ndim == 2, r.dim(0) == a.metric.dim(0), r.dim(1) == a.metric.dim(1)),
             'fresh': lambda a, r: z3.BoolVal(len(r.owner) == 0)},
    # C12: "constraint weights scale each constraint's influence in both the objective and the search direction"
    events={'constraint-weights-reach-the-search-direction': reads_weights},
    raises={'LinAlgError': May(), 'ValueError': May()}, modifies=set(),
    returns=Returns(lambda a, p, ex: p.new_loc(ArrState(fresh('grad', T), Shape(2, [a.metric.dim(0), a.metric.dim(1)]), 'f', frozenset()))),
    prop=['C12']))
C.unit('C12', 'lsml:_BaseLSML._gradient')

register(Contract(
    'lsml:_BaseLSML._comparison_loss',
    cases=[Case('l', dict(metric=_mats['metric'], vab=_mats['vab'], vcd=_mats['vcd'], self=lsml_state()))],
    ensures={},
    events={'constraint-weights-reach-the-objective': reads_weights},
    raises={'ValueError': May()}, modifies=set(),
    returns=Returns(lambda a, p, ex: VReal(fresh('closs', z3.RealSort()))),
    prop=['C12']))
REGISTRY['lsml:_BaseLSML._comparison_loss#body'] = REGISTRY.pop('lsml:_BaseLSML._comparison_loss')
C.unit('C12', 'lsml:_BaseLSML._comparison_loss#body')


# thin public wrappers: LSML.fit / SCML.fit delegate to _fit
register(Contract(
    'lsml:LSML.fit',
    cases=[Case('noweights', {'self': est('LSML', lsml_hyper(Str('identity')), 'fresh'), 'quadruplets': Arr(3, dims=['n', 4, 'd']), 'weights': NoneT()})],
    ensures={'returns-self': returns_self, 'components_-shape': lambda a, r: z3.And(comp(a).dim(0) == a.quadruplets.dim(2), comp(a).dim(1) == a.quadruplets.dim(2))},
    raises=dict(FIT_RAISES), modifies={'components_', 'preprocessor_', 'n_features_in_', 'w_', 'n_iter_'}, prop=['C03', 'C17']))
register(Contract(
    'scml:SCML.fit',
    cases=[Case('triplets', {'self': est('SCML', scml_hyper(Str('triplet_diffs'), NoneT()), 'fresh'), 'triplets': Arr(3, dims=['n', 3, 'd'])},
                pre=lambda a: a.self.output_iter <= a.self.max_iter)],
    ensures={'returns-self': returns_self, 'components_-shape': lambda a, r: z3.And(comp(a).dim(1) == a.triplets.dim(2), comp(a).dim(0) <= a.triplets.dim(2))},
    raises=dict(FIT_RAISES), modifies={'components_', 'preprocessor_', 'n_features_in_', 'n_iter_'}, prop=['C03', 'C17']))


# ------------------------------------------------------------------------------------------- C10: LMNN clauses
from .loops import at_break, zero_exit
from .supervised_calls import calls as _calls

zero_exit('lmnn:LMNN.fit', 0)


@at_break('lmnn:LMNN.fit', 1, 'True')
def _lmnn_accept_only_descent(v, head):
  """the backtracking loop is left only with a candidate whose objective does not exceed the current one:
  every ACCEPTED iterate has a non-increasing objective"""
  return v.objective_next <= v.objective


def _lmnn_zero_iterations_give_init(a, r):
  """max_iter <= 2 means zero optimiser iterations (the loop is range(2, max_iter)): the result is the documented initialisation"""
  ev = a.path.events
  ini = _calls(ev, '_util:_initialize_components')
  cur = a.self.raw('components_')
  if not ini or not isinstance(cur, VArr):
    return z3.BoolVal(False)
  same = isinstance(ini[0][3], VArr) and ini[0][3].loc == cur.loc
  return z3.Implies(a.self.max_iter <= 2, z3.BoolVal(same))


REGISTRY['lmnn:LMNN.fit'].ensures['zero-optimiser-iterations-return-the-initialisation'] = _lmnn_zero_iterations_give_init
REGISTRY['lmnn:LMNN.fit'].prop.append('C10') if 'C10' not in REGISTRY['lmnn:LMNN.fit'].prop else None



# ------------------------------------------------------------------------------------------- C19: translation typing
def translation_invariant(a, r):
  """the learned transformation types as translation invariant: every use of the training points goes through within-tuple
  differences, covariances / pairwise distances of the points, or index bookkeeping (see npvc/ttype.py for the rules)"""
  return z3.BoolVal(comp(a).tt == 'inv')


for _t in ('covariance:Covariance.fit', 'itml:_BaseITML._fit', 'mmc:_BaseMMC._fit', 'sdml:_BaseSDML._fit', 'lsml:_BaseLSML._fit', 'scml:_BaseSCML._fit'):
  REGISTRY[_t].ensures['learned-distance-is-translation-invariant'] = translation_invariant
  if 'C19' not in REGISTRY[_t].prop:
    REGISTRY[_t].prop.append('C19')
