"""C14 -- MMC (full matrix): invariants of the alternating projections, proved on the real _BaseMMC._fit_full body for any number
of cycles and projections: whenever a projection sweep is accepted (satisfy), the iterate is PSD (eigenvalue clipping, Lean
clip_psd) and its similarity sum is within 1% of the budget t; `A_old` -- the matrix returned -- is only ever overwritten by
such an iterate.  Hence the learned matrix is the initial matrix or PSD and within budget; under the property's hypothesis
(max_proj large enough for one projection to converge, so cycle 0 is accepted) it is the latter."""
import ast
import z3

from npvc.contracts import *
from npvc.values import *
from npvc import theory as TH
import contracts as C
from .loops import invariant, define_on_entry, assume_at_head, INVARIANTS
from npvc.source import Program as _P

T_ = 'mmc:_BaseMMC._fit_full'
OUTER, INNER = 'range(self.max_iter)', 'range(self.max_proj)'


from .loops import find_loop
ORD = {OUTER: find_loop(T_, OUTER), INNER: find_loop(T_, INNER)}


def feasible_psd(v, X):
  """X is PSD and  (w . vec(X) - t) / t < eps  (the code's own acceptance test, eps = 0.01)"""
  return z3.And(TH.psd(X), (TH.dot(v.w.term, TH.ravel(X)) - v.t) / v.t < v.eps)


@define_on_entry(T_, ORD[OUTER], OUTER, 'is_initial names the copy of the initial matrix made before the first cycle')
def _initial(v):
  return TH.is_initial(v.A_old.term)


@invariant(T_, ORD[OUTER], OUTER)
def _outer(v, head):
  # A_old is the copy of the initial matrix made before the loop, or an accepted (PSD, within budget) iterate
  # (the projection tolerance is THE documented one per cent, whatever tol / max_iter say)
  return z3.And(v.eps <= z3.RealVal('0.01'), z3.Or(TH.is_initial(v.A_old.term), feasible_psd(v, v.A_old.term)))


@invariant(T_, ORD[INNER], INNER)
def _inner(v, head):
  # `satisfy` is only set right before the break: inside the sweep it is False; A_old is not touched by the sweep
  return z3.And(z3.Not(v.satisfy), z3.Or(TH.is_initial(v.A_old.term), feasible_psd(v, v.A_old.term)))


if 'C14' not in REGISTRY['mmc:_BaseMMC._fit'].prop:
  REGISTRY['mmc:_BaseMMC._fit'].prop.append('C14')
