"""Contracts of metric_learn/constraints.py (C07, C08): shapes, bounds, warnings, seeding and -- through the ghost
"value frame" of index arrays -- that every returned index refers to the CALLER's array (not to the known-label subset)."""
import z3

from npvc.contracts import *
from npvc.values import *
from npvc import theory as TH
import contracts as C

FRESH_OWNER = frozenset()


def cons_self():
  return Obj('Constraints', {'partial_labels': Arr(1, 'i', owner=frozenset({('attr', 'partial_labels')}), dims=['n'])}, closed=True)


def nlabels(a):
  return a.self.partial_labels.dim(0)


def caller_frame(a, arr):
  """the index values of `arr` refer to positions of the caller's label vector"""
  f = arr.vf
  if f is None:
    return z3.BoolVal(False)
  return f == nlabels(a)


def idx_result(rank_dims_fn):
  def build(a, p, ex):
    dims = rank_dims_fn(a, p)
    return p.new_loc(ArrState(fresh('idx', T), Shape(len(dims), dims), 'i', FRESH_OWNER, vf=nlabels(a)))
  return Returns(build)


def seeded_only(a, ev, r):
  return z3.BoolVal(all(e[2] in ('int-seed',) for e in ev if e[0] == 'random-draw'))


def warned(ev):
  return any(e[0] == 'warn' for e in ev)


# ------------------------------------------------------------------------------------------------------ _pairs
def pairs_dims(a, p):
  m = fresh('npairs', z3.IntSort())
  p.assume(m >= 0)
  p.assume(m <= a.n_constraints)
  return [z3.IntVal(2), m]


register(Contract(
    'constraints:Constraints._pairs',
    cases=[Case('same' if sl else 'different',
                {'self': cons_self(), 'n_constraints': Int(1), 'same_label': Const(VBool(sl)), 'max_iter': Int(0), 'random_state': Rng()})
           for sl in (True, False)],
    match=lambda env, p: 'same' if env['same_label'].conc() else 'different',
    ensures={
        # (2, m) when at least one pair was drawn (ghost hypothesis of the property: a constraint of the kind exists and is found)
        'at-most-n_constraints': lambda a, r: z3.Implies(r.ndim == 2, z3.And(r.dim(0) == 2, r.dim(1) <= a.n_constraints)) if r.st.shape.rank == 2 else None,
        'indices-refer-to-the-callers-array': lambda a, r: caller_frame(a, r),
    },
    events={'randomness-only-from-the-given-generator': seeded_only},
    raises={'ValueError': May()},
    returns=idx_result(pairs_dims), modifies=set(), prop=['C07']))
C.unit('C07', 'constraints:Constraints._pairs')


# ------------------------------------------------------------------------------------- positive_negative_pairs
def pnp_returns(a, p, ex):
  ms = [fresh('np%d' % k, z3.IntSort()) for k in range(2)]
  for m in ms:
    p.assume(m >= 1)
    p.assume(m <= a.n_constraints)
  if z3.is_true(a.same_length):
    p.assume(ms[0] == ms[1])
  def mk(m):
    return p.new_loc(ArrState(fresh('idx', T), Shape(1, [m]), 'i', FRESH_OWNER, vf=nlabels(a)))
  obj = a.raw('self')
  p.heap[obj.oid]['n_constraints'] = a.raw('n_constraints')
  return VTuple([mk(ms[0]), mk(ms[0]), mk(ms[1]), mk(ms[1])])


register(Contract(
    'constraints:Constraints.positive_negative_pairs',
    cases=[Case('%s-%s' % ('samelen' if sl else 'anylen', sn),
                {'self': cons_self(), 'n_constraints': Int(1), 'same_length': Const(VBool(sl)), 'random_state': ss, 'num_constraints': Str('deprecated')})
           for sl in (False, True) for sn, ss in (('seed', Int()), ('noseed', NoneT()))],
    match=lambda env, p: '%s-%s' % ('samelen' if env['same_length'].conc() else 'anylen', 'noseed' if isinstance(env['random_state'], VNone) else 'seed'),
    ensures={
        'four-index-vectors': lambda a, r: z3.BoolVal(isinstance(r, tuple) and len(r) == 4),
        'pairs-are-aligned': lambda a, r: z3.And(r[0].ndim == 1, r[0].dim(0) == r[1].dim(0), r[2].dim(0) == r[3].dim(0)),
        'at-most-n_constraints-of-each-kind': lambda a, r: z3.And(r[0].dim(0) <= a.n_constraints, r[2].dim(0) <= a.n_constraints),
        'same_length-gives-equally-many': lambda a, r: (r[0].dim(0) == r[2].dim(0)) if z3.is_true(a.same_length) else None,
        'indices-refer-to-the-callers-array': lambda a, r: z3.And(*[caller_frame(a, x) for x in r]),
    },
    events={'randomness-from-random_state': lambda a, ev, r: z3.BoolVal(all(
        (e[2] == 'int-seed') == (a.random_state is not None) for e in ev if e[0] == 'random-draw'))},
    raises={'ValueError': May()},
    returns=Returns(pnp_returns), modifies={'n_constraints'}, prop=['C07', 'C08']))
C.unit('C07', 'constraints:Constraints.positive_negative_pairs')


# ------------------------------------------------------------------------------------------------------ chunks
register(Contract(
    'constraints:Constraints.chunks',
    cases=[Case(sn, {'self': cons_self(), 'n_chunks': Int(1), 'chunk_size': Int(1), 'random_state': ss, 'num_chunks': Str('deprecated')})
           for sn, ss in (('seed', Int()), ('noseed', NoneT()))],
    match=lambda env, p: 'noseed' if isinstance(env['random_state'], VNone) else 'seed',
    ensures={
        'one-chunk-id-per-point': lambda a, r: z3.And(r.ndim == 1, r.dim(0) == nlabels(a)),
        'integer-ids': lambda a, r: z3.BoolVal(r.kind == 'i'),
        'fresh': lambda a, r: z3.BoolVal(len(r.owner) == 0),
    },
    events={'randomness-from-random_state': lambda a, ev, r: z3.BoolVal(all(
        (e[2] == 'int-seed') == (a.random_state is not None) for e in ev if e[0] == 'random-draw'))},
    raises={'ValueError': May()},
    returns=Returns(lambda a, p, ex: p.new_loc(ArrState(fresh('chunks', T), Shape(1, [nlabels(a)]), 'i', FRESH_OWNER))),
    modifies=set(), prop=['C07', 'C08']))
C.unit('C07', 'constraints:Constraints.chunks')


# ---------------------------------------------------------------------------------------- generate_knntriplets
def knn_returns(a, p, ex):
  m = fresh('ntriplets', z3.IntSort())
  p.assume(m >= 0)
  return p.new_loc(ArrState(fresh('triplets', T), Shape(2, [m, z3.IntVal(3)]), 'i', FRESH_OWNER, vf=nlabels(a)))


register(Contract(
    'constraints:Constraints.generate_knntriplets',
    cases=[Case('knn', {'self': cons_self(), 'X': Arr(2, dims=['n', 'd']), 'k_genuine': Int(1), 'k_impostor': Int(1)})],
    ensures={
        'triplets-of-three-indices': lambda a, r: z3.And(r.ndim == 2, r.dim(1) == 3),
        'integer-indices': lambda a, r: z3.BoolVal(r.kind == 'i'),
        # C07: "indices refer to the caller's array" (F3: they referred to the known-label subset)
        'indices-refer-to-the-callers-array': lambda a, r: caller_frame(a, r),
    },
    raises={'ValueError': May()},
    returns=Returns(knn_returns), modifies=set(), prop=['C07', 'C08']))
C.unit('C07', 'constraints:Constraints.generate_knntriplets')


# -------------------------------------------------------------------------------------------------- wrap_pairs
def wp_returns(a, p, ex):
  c = a.constraints
  na, nc = c[0].dim(0), c[2].dim(0)
  pairs = p.new_loc(ArrState(fresh('pairs', T), Shape(3, [na + nc, z3.IntVal(2), a.X.dim(1)]), a.X.kind, FRESH_OWNER))
  y = p.new_loc(ArrState(fresh('ypairs', T), Shape(1, [na + nc]), 'i', FRESH_OWNER))
  return VTuple([pairs, y])


def idxvec(name):
  return Arr(1, 'i', dims=[name])


register(Contract(
    '_c:wrap_pairs'.replace('_c:', 'constraints:'),
    cases=[Case('wrap', {'X': Arr(2, dims=['n', 'd']),
                         'constraints': TupleOf([idxvec('na'), idxvec('na'), idxvec('nc'), idxvec('nc')])})],
    ensures={
        'pairs-shape': lambda a, r: z3.And(r[0].ndim == 3, r[0].dim(0) == a.constraints[0].dim(0) + a.constraints[2].dim(0), r[0].dim(1) == 2,
                                           r[0].dim(2) == a.X.dim(1)),
        'one-label-per-pair': lambda a, r: z3.And(r[1].ndim == 1, r[1].dim(0) == r[0].dim(0)),
        'fresh': lambda a, r: z3.BoolVal(len(r[0].owner) == 0 and len(r[1].owner) == 0),
    },
    raises={'IndexError': May()},
    returns=Returns(wp_returns), modifies=set(), prop=['C07', 'C08']))
C.unit('C07', 'constraints:wrap_pairs')


# ------------------------------------------------------------------------------------- _pairs: value-level soundness (C07)
# "every returned pair consists of two DISTINCT points with KNOWN labels, equal for positive pairs and different for negative pairs":
# element invariant of the set `ab` (indices into the known-label subset), carried through np.array(list(ab)) / .T / known_label_idx[...]
from .loops import list_invariant

_PT = 'constraints:Constraints._pairs'


def _ab_elem(v, comps):
  a_, b_ = comps
  kl = v.known_labels.term
  nl = v.num_labels
  rel = (TH.at1(kl, a_) == TH.at1(kl, b_)) if z3.is_true(v.same_label) else (TH.at1(kl, a_) != TH.at1(kl, b_))
  return z3.And(a_ >= 0, a_ < nl, b_ >= 0, b_ < nl, rel, *([a_ != b_] if z3.is_true(v.same_label) else []))


list_invariant(_PT, 0, 'it < max_iter and len(ab) < n_constraints', 'ab', 2)(_ab_elem)
list_invariant(_PT, 1, 'random_state.randint(num_labels, size=nc)', 'ab', 2)(_ab_elem)

_R = z3.Int('r!pair')


def _pairs_sound(a, r):
  """for a generic returned pair (i, j): both labels known, equal (same_label) resp. different, and i != j for positive pairs"""
  if r.st.shape.rank != 2 or r.term is None:
    return None if r.st.shape.rank != 2 else PatternMismatch('returned index array vs known_label_idx[ab.T]')
  pl = a.self.partial_labels.term
  n = a.self.partial_labels.dim(0)
  i_, j_ = z3.ToInt(TH.at2(r.term, 0, _R)), z3.ToInt(TH.at2(r.term, 1, _R))
  li, lj = TH.at1(pl, i_), TH.at1(pl, j_)
  same = z3.is_true(a.same_label)
  body = z3.And(i_ >= 0, i_ < n, j_ >= 0, j_ < n, li >= 0, lj >= 0, (li == lj) if same else (li != lj), *([i_ != j_] if same else []),
                z3.IsInt(TH.at2(r.term, 0, _R)), z3.IsInt(TH.at2(r.term, 1, _R)))
  # closed (quantified) form: proved on the body by skolemisation, and usable at call sites for every column of the result
  return z3.ForAll([_R], z3.Implies(z3.And(_R >= 0, _R < r.dim(1)), body), patterns=[TH.at2(r.term, 0, _R), TH.at2(r.term, 1, _R)])


REGISTRY[_PT].ensures['every-pair-joins-two-distinct-known-label-points-of-equal-resp-different-label'] = _pairs_sound


# ---- the public entry point: positive pairs (a[k], b[k]) and negative pairs (c[k], d[k])
_K = z3.Int('k!pnp')


def _pnp_sound(a, r):
  if not (isinstance(r, tuple) and len(r) == 4) or any(x.term is None for x in r):
    return PatternMismatch('the four returned index vectors vs the rows of the two _pairs results')
  pl = a.self.partial_labels.term
  n = a.self.partial_labels.dim(0)
  def lab(x):
    return TH.at1(pl, z3.ToInt(TH.at1(x.term, _K)))
  def known_in_range(x):
    v_ = z3.ToInt(TH.at1(x.term, _K))
    return z3.And(v_ >= 0, v_ < n, lab(x) >= 0)
  pos = z3.Implies(z3.And(_K >= 0, _K < r[0].dim(0)),
                   z3.And(known_in_range(r[0]), known_in_range(r[1]), lab(r[0]) == lab(r[1]), TH.at1(r[0].term, _K) != TH.at1(r[1].term, _K)))
  neg = z3.Implies(z3.And(_K >= 0, _K < r[2].dim(0)), z3.And(known_in_range(r[2]), known_in_range(r[3]), lab(r[2]) != lab(r[3])))
  return z3.And(pos, neg)


REGISTRY['constraints:Constraints.positive_negative_pairs'].ensures[
    'positive-pairs-join-distinct-points-of-equal-known-label-negative-pairs-points-of-different-known-labels'] = body_only(_pnp_sound)


# ---------------------------------------------------------------------------------------------- Constraints.__init__
# the label vector is held as SIGNED platform integers whatever the dtype of the argument: the methods mark "in no chunk" / "unknown" with
# negative numbers and compare labels with `>= 0`, which an unsigned dtype cannot represent (-1 becomes 255 in uint8)
def _init_returns(a, p, ex):
  """post-state at call sites: the label vector (same numbers, signed integers; np.asanyarray may return the argument itself)"""
  obj = a.raw('self')
  v = a.raw('partial_labels')
  if isinstance(v, VArr):
    st = p.store[v.loc]
    p.heap[obj.oid]['partial_labels'] = p.new_loc(ArrState(st.term, st.shape, 'i', st.owner, (v.loc, st.version), vf=st.vf, tt=st.tt))
  else:
    n = fresh('nlabels', z3.IntSort())
    p.assume(n >= 0)
    p.heap[obj.oid]['partial_labels'] = p.new_loc(ArrState(fresh('labels', T), Shape(1, [n]), 'i', FRESH_OWNER))
  return VNone()


register(Contract(
    'constraints:Constraints.__init__',
    cases=[Case('labels-' + {'i': 'signed', 'u': 'unsigned', 'f': 'floating', 'b': 'boolean'}[k],
                {'self': Obj('Constraints', {}, closed=True), 'partial_labels': Arr(1, k, dims=['n'])}) for k in ('i', 'u', 'f', 'b')],
    ensures={
        'labels-are-held-as-signed-integers': lambda a, r: z3.BoolVal(a.self.partial_labels is not None and a.self.partial_labels.kind == 'i'),
        'one-label-per-point': lambda a, r: z3.And(a.self.partial_labels.ndim == 1, a.self.partial_labels.dim(0) == a.partial_labels.dim(0)),
    },
    returns=Returns(_init_returns), modifies={'partial_labels'}, prop=['C07']))
C.unit('C07', 'constraints:Constraints.__init__')


# ---- generate_knntriplets: "points with negative (unknown) labels never appear": the triplets are computed on the labelled subset and mapped
# back through an index vector; every entry of that vector is a position of the caller's array whose label is known (>= 0).  (That the
# intermediate triplets index the subset in range is the neighbour search's contract -- external; bounded stand-in.)
_KT = z3.Int('k!knn')


def _knn_known_only(a, r):
  t = r.term
  if t is None or not z3.is_app(t) or t.decl().name() != 'itake':
    return PatternMismatch('returned triplets vs <index vector of the known-label points>[triplets of the labelled subset]')
  src = t.arg(0)
  pl = a.self.partial_labels.term
  n = a.self.partial_labels.dim(0)
  e = TH.at1(src, _KT)
  return z3.Implies(z3.And(_KT >= 0, _KT < TH.lenT(src)), z3.And(z3.IsInt(e), e >= 0, z3.ToInt(e) < n, TH.at1(pl, z3.ToInt(e)) >= 0))


REGISTRY['constraints:Constraints.generate_knntriplets'].ensures['every-index-the-result-is-drawn-from-has-a-known-label'] = body_only(_knn_known_only)
