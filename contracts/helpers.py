"""helpers for property lemmas: instantiate a callee contract on symbolic values (contracts only, no bodies) and
extract the result term of a real body (for relational / exact-identity obligations)."""
import z3

from npvc.contracts import *
from npvc.contracts import _rc
from npvc.exec import Path, Executor
from npvc.values import *


def instantiate(target, case_name, p, given=None, ex=None):
  """assume the contract of `target` for one call on path p: returns (Args, unwrapped result).
  `given` maps parameter names to already-built symbolic values (to share arguments between calls)."""
  con = REGISTRY[target]
  case = [c for c in con.cases if c.name == case_name][0]
  specs = dict(case.params)
  outer = getattr(con, 'outer', None)
  if outer is not None:
    for k, v in outer[1].items():
      specs.setdefault(k, v)
  env = {}
  for k, spec in specs.items():
    if given and k in given:
      env[k] = given[k]
    else:
      env[k] = spec.make(fresh_name(k), p, ex) if isinstance(spec, Spec) else spec
  a = Args(env, p)
  if case.pre is not None:
    p.assume(case.pre(a))
  res = con.returns.fn(a, p, ex) if con.returns else VNone()
  r = unwrap(res, p)
  for name, cl in con.ensures.items():
    c = cl(a, r)
    if c is not None and c is not True:
      p.assume(c)
  for exc, cond in con.raises.items():
    kind, fn = _rc(cond)
    if kind == 'iff' and fn is not None:
      c = fn(a)
      if c is not None:
        p.assume(z3.Not(c) if not isinstance(c, bool) else z3.BoolVal(not c))
  return a, r, env


def ob(name, p, goal, kind='lemma', **info):
  return Obligation(name, kind, list(p.pc), goal, info)
