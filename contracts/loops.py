"""Loop treatment: invariants from the sidecar (keyed by function + loop ordinal + iteration text)."""
import contracts as C
C.LOOP_HOOK = None
