"""Loop treatment of the npvc executor (DESIGN.md 1.2).

Every loop is cut by an invariant:
  * the INFERRED shape/ownership invariant -- "every variable the loop writes keeps its python type, and every array
    it writes keeps its rank, dims, dtype kind and ownership" -- is checked for preservation on one symbolic
    iteration started from a havoc of the loop's write set; a loop where it fails makes the function undecided;
  * a VALUE invariant from the sidecar (INVARIANTS, keyed by function + loop ordinal + the text of the iteration
    expression, so drift is detected instead of silently mis-binding) is assumed at the head, and proved at entry
    and at the end of the symbolic iteration (side obligations `loop-inv-init` / `loop-inv-preserved`).
After the loop the state is the havoc state (plus not-guard for `while`), or the state of a `break` path.
Termination is NOT proved.  Loops whose variable is read after the loop are assumed to run at least once (noted).
"""
import ast
import os
import sys
import z3

import contracts as C
from npvc.values import *
from npvc.exec import Unsupported, feasible
from npvc.libspec_np import VRange, VEnumerate, VZip, VReversed
from npvc import theory as TH

INVARIANTS = {}       # (target, ordinal) -> dict(over=<text of iteration expr / while test>, inv=fn(view) -> z3 Bool, ghosts=...)


def _entry(target, ordinal, over, fn):
  e = INVARIANTS.setdefault((target, ordinal), dict(over=over, inv=None))
  e.setdefault('module', getattr(fn, '__module__', '?'))
  return e


def find_loop(target, over):
  """ordinal of the loop of `target` whose iteration expression / while test has the text `over` in the CURRENT tree; a key that
  can never bind when the function or the loop is gone (the check then reports the sidecar as unbound: undecided, never an error)"""
  from npvc.source import Program, SourceError
  try:
    fn = Program().func(target)
  except SourceError:
    return ('missing-function', over)
  loops_ = [n for n in ast.walk(fn) if isinstance(n, (ast.For, ast.While))]
  loops_.sort(key=lambda n: (n.lineno, n.col_offset))
  for k, n in enumerate(loops_):
    if ast.unparse(n.iter if isinstance(n, ast.For) else n.test) == over:
      return k
  return ('missing-loop', over)


def invariant(target, ordinal, over):
  def deco(fn):
    _entry(target, ordinal, over, fn)['inv'] = fn
    return fn
  return deco


ZERO_EXIT = set()      # loops for which the zero-iteration exit is kept as a separate path (entry state untouched)


def zero_exit(target, ordinal):
  ZERO_EXIT.add((target, ordinal))


def define_on_entry(target, ordinal, over, text):
  """ghost DEFINITION introduced when the loop is entered (e.g. `is_initial(A_old)` names the matrix the loop starts from);
  assumed on entry only -- never at the havoc head"""
  def deco(fn):
    e = _entry(target, ordinal, over, fn)
    e['entry_def'] = fn
    e['entry_def_text'] = text
    return fn
  return deco


def local_invariant(target, ordinal, over):
  """fact about variables that the loop body binds (e.g. the best checkpoint): proved at the end of the symbolic iteration on
  every path where they are bound, and then assumed for their value after the loop"""
  def deco(fn):
    _entry(target, ordinal, over, fn)['local'] = fn
    return fn
  return deco


def assume_at_head(target, ordinal, over, text):
  """ghost hypothesis of the property (not proved; listed as an assumption): assumed at the loop head and on entry"""
  def deco(fn):
    e = _entry(target, ordinal, over, fn)
    e['assume'] = fn
    e['assume_text'] = text
    return fn
  return deco


def list_invariant(target, ordinal, over, name, arity):
  """element invariant of a python list / set of integer tuples that the loop grows: fn(view, [component terms]) -> z3 Bool holds for EVERY
  element.  Proved for each element added by the body (side obligation `list-elem-inv`), assumed for the generic element at the loop head,
  after the loop, and -- row by row -- for an array built from the list"""
  def deco(fn):
    e = _entry(target, ordinal, over, fn)
    e.setdefault('lists', {})[name] = (fn, arity)
    return fn
  return deco


def at_break(target, ordinal, over):
  """assertion that must hold whenever the loop is left through `break` (proved on every break path)"""
  def deco(fn):
    _entry(target, ordinal, over, fn)['at_break'] = fn
    return fn
  return deco


appended = set()


def write_set(body):
  names, attrs = set(), set()

  def tgt(t):
    if isinstance(t, ast.Name):
      names.add(t.id)
    elif isinstance(t, (ast.Tuple, ast.List)):
      for e in t.elts:
        tgt(e)
    elif isinstance(t, ast.Attribute):
      if isinstance(t.value, ast.Name) and t.value.id == 'self':
        attrs.add(t.attr)
    elif isinstance(t, ast.Subscript):
      b = t.value
      while isinstance(b, (ast.Subscript, ast.Attribute)) and not (isinstance(b, ast.Attribute) and isinstance(b.value, ast.Name) and b.value.id == 'self'):
        b = b.value
      if isinstance(b, ast.Name):
        names.add(b.id)
      elif isinstance(b, ast.Attribute):
        attrs.add(b.attr)
    elif isinstance(t, ast.Starred):
      tgt(t.value)
  for st in body:
    for n in ast.walk(st):
      if isinstance(n, ast.Assign):
        for t in n.targets:
          tgt(t)
      elif isinstance(n, (ast.AugAssign, ast.AnnAssign)):
        tgt(n.target)
      elif isinstance(n, (ast.For,)):
        tgt(n.target)
      elif isinstance(n, ast.ExceptHandler) and n.name:
        names.add(n.name)
      elif isinstance(n, ast.Call) and isinstance(n.func, ast.Attribute) and n.func.attr in ('append', 'extend', 'add', 'update', 'difference_update') \
              and isinstance(n.func.value, ast.Name):
        names.add(n.func.value.id)
        appended.add(n.func.value.id)
  return names, attrs


def dead_at_head(body):
  """names that every iteration assigns (plain top-level assignment) before reading: they carry nothing across the back
  edge, so the inferred shape invariant does not constrain them"""
  dead, loaded = set(), set()
  for st in body:
    loads = {n.id for n in ast.walk(st) if isinstance(n, ast.Name) and isinstance(n.ctx, ast.Load)}
    if isinstance(st, ast.Assign):
      stores = set()
      for t in st.targets:
        for n in ast.walk(t):
          if isinstance(n, ast.Name) and isinstance(n.ctx, ast.Store):
            stores.add(n.id)
      for nm in stores:
        if nm not in loaded and nm not in loads:
          dead.add(nm)
    loaded |= loads
    # anything stored inside compound statements may or may not execute: not dead
  return dead


def havoc_value(ex, p, v, hint):
  """fresh value of the same python type / array shape"""
  if isinstance(v, VInt):
    return VInt(fresh(hint, z3.IntSort()))
  if isinstance(v, VReal):
    return VReal(fresh(hint, z3.RealSort()))
  if isinstance(v, VBool):
    return VBool(fresh(hint, z3.BoolSort()))
  if isinstance(v, VArr):
    st = p.store[v.loc]
    p.store[v.loc] = st.replace(term=fresh(hint, T), version=st.version + 1)
    return v
  if isinstance(v, VInf):
    return VReal(fresh(hint, z3.RealSort()))       # a variable initialised to inf that the loop overwrites with reals
  if isinstance(v, (VNone, VStr, VOpaque, VObj, VFunc, VExt, VClass)):
    return v
  if isinstance(v, VTuple):
    return VTuple([havoc_value(ex, p, x, hint) for x in v.items])
  if isinstance(v, VList) and hint in appended:
    # a python list the loop appends to: symbolic length from here on
    lid = fresh_name('l')
    n = fresh('len', z3.IntSort())
    p.assume(n >= len(v.items))
    p.lists[lid] = dict(n=n, elem=v.items[0] if v.items else None)
    return VListRef(lid)
  if isinstance(v, VListRef):
    L = dict(p.lists[v.lid])
    if hint in appended:
      n = fresh('len', z3.IntSort())
      p.assume(n >= 0)
      L['n'] = n
      p.lists[v.lid] = L
    return v
  if isinstance(v, VList):
    return VList([havoc_value(ex, p, x, hint) for x in v.items])
  if isinstance(v, VRef):
    return VRef(fresh(hint, Ref), v.types)
  raise Unsupported('cannot havoc %r' % (v,))


class OptWiden(Exception):
  """a loop variable that is None before the loop and becomes an array / number inside it (Optional[...])"""
  def __init__(self, name, sample, sample_path):
    self.name, self.sample, self.sample_path = name, sample, sample_path


class Widen(Exception):
  def __init__(self, name):
    self.name = name


class TTWiden(Exception):
  """the translation type (C19 ghost) of a loop-carried array is not stable: restart with the head typed 'bad'"""
  def __init__(self, name):
    self.name = name


def same_type(ex, p, a, b, name, st):
  """type/shape stability of a loop-written variable; returns list of z3 conditions that must hold"""
  if isinstance(a, VInf) and isinstance(b, (VReal, VInf)) or isinstance(b, VInf) and isinstance(a, VReal):
    return []
  if isinstance(a, VNone) and not isinstance(b, VNone):
    raise OptWiden(name, b, p)
  if isinstance(b, VNone) and not isinstance(a, VNone):
    return []            # re-set to None inside the loop while the head already covers the non-None value
  if type(a) != type(b):
    if isinstance(a, VInt) and isinstance(b, VReal):
      raise Widen(name)          # python numeric tower: an int-initialised variable that the loop makes a float
    if isinstance(a, VReal) and isinstance(b, VInt):
      return []
    raise Unsupported('loop line %d: variable %s changes python type (%s -> %s)' % (st.lineno, name, type(a).__name__, type(b).__name__))
  if isinstance(a, VArr):
    sa, sb = p.store[a.loc], p.store[b.loc]
    if sa.shape.concrete != sb.shape.concrete or (sa.shape.concrete and sa.shape.rank != sb.shape.rank):
      raise Unsupported('loop line %d: array %s changes rank' % (st.lineno, name))
    if sa.kind != sb.kind and not ({sa.kind, sb.kind} <= {'i', 'f'} and sb.kind == 'f' and sa.kind == 'f'):
      if {sa.kind, sb.kind} != {'i', 'f'}:
        raise Unsupported('loop line %d: array %s changes dtype kind %s -> %s' % (st.lineno, name, sa.kind, sb.kind))
    conds = []
    if sa.shape.concrete:
      conds = [x == y for x, y in zip(sa.shape.dims, sb.shape.dims)]
    if bool(sa.owner) != bool(sb.owner):
      raise Unsupported('loop line %d: array %s changes ownership across the back edge' % (st.lineno, name))
    if (sa.tt or 'inv') != (sb.tt or 'inv') and (sa.tt or 'inv') != 'bad':
      raise TTWiden(name)
    return conds
  if isinstance(a, (VTuple, VList)):
    if len(a.items) != len(b.items):
      raise Unsupported('loop line %d: sequence %s changes length' % (st.lineno, name))
    out = []
    for x, y in zip(a.items, b.items):
      out += same_type(ex, p, x, y, name, st)
    return out
  return []


def element_of(ex, p, it, node, module):
  """generic element of an iterable -> (value, number of elements, index term)"""
  if isinstance(it, VRange):
    args = it.args
    lo = args[0].t if len(args) >= 2 else z3.IntVal(0)
    hi = args[1].t if len(args) >= 2 else args[0].t
    if len(args) == 3:
      raise Unsupported('range with step')
    i = fresh('it', z3.IntSort())
    p.assume(i >= lo)
    p.assume(i < hi)
    return VInt(i), hi - lo, i - lo
  if isinstance(it, VReversed):
    return element_of(ex, p, it.v, node, module)
  if isinstance(it, VEnumerate):
    v, n, i = element_of(ex, p, it.v, node, module)
    return VTuple([VInt(i), v]), n, i
  if isinstance(it, VArr):
    i = fresh('it', z3.IntSort())
    p.assume(i >= 0)
    v, n = arr_elem(ex, p, it, node, i)
    return v, n, i
  if isinstance(it, VZip):
    i = fresh('it', z3.IntSort())
    p.assume(i >= 0)
    items = []
    n = None
    for v in it.vs:
      if not isinstance(v, VArr):
        raise Unsupported('zip over %r' % (v,))
      e, nn = arr_elem(ex, p, v, node, i)
      items.append(e)
      n = nn if n is None else z3.If(nn < n, nn, n)
    return VTuple(items), n, i
  raise Unsupported('iteration over %r (line %d)' % (it, node.lineno))


def arr_elem(ex, p, a, node, i):
  st = p.store[a.loc]
  if not st.shape.concrete or st.shape.rank < 1:
    raise Unsupported('iteration over 0-d / symbolic-rank array')
  n = st.shape.dims[0]
  p.assume(i < n)
  from npvc.libspec import Cx
  cx = Cx(ex.lib, ex, p, node)
  (q, v), = ex.lib.np.index(cx, a, st, [VInt(i)])
  return v, n


def transfer(v, src, dst, hint):
  """copy a value created on path `src` into path `dst` (arrays get a fresh location and a fresh, unknown content)"""
  if isinstance(v, VArr):
    if v.loc in dst.store and v.loc not in src.store:
      return v
    s_ = src.store[v.loc]
    return dst.new_loc(s_.replace(term=fresh(hint, T), base=None))
  if isinstance(v, VTuple):
    return VTuple([transfer(x, src, dst, hint) for x in v.items])
  if isinstance(v, VList):
    return VList([transfer(x, src, dst, hint) for x in v.items])
  if isinstance(v, VListRef):
    if v.lid not in dst.lists and v.lid in src.lists:
      L = dict(src.lists[v.lid])
      if L.get('elem') is not None:
        L['elem'] = transfer(L['elem'], src, dst, hint)
      dst.lists[v.lid] = L
    return v
  if isinstance(v, VInt):
    r = VInt(fresh(hint, z3.IntSort()))
    if getattr(v, 'vf', None) is not None:
      r.vf = v.vf
    return r
  if isinstance(v, VReal):
    return VReal(fresh(hint, z3.RealSort()))
  if isinstance(v, VBool):
    return VBool(fresh(hint, z3.BoolSort()))
  if type(v).__name__ == 'VExtObj':
    if v.oid not in dst.heap and v.oid in src.heap:
      dst.heap[v.oid] = dict(src.heap[v.oid])
    return v
  return v


def loop_hook(ex, st, p, module):
  target = ex.callstack[-1] if ex.callstack else '?'
  fnode = ex.prog.func(target) if ':' in target and '#' not in target else None
  ordinal = None
  if fnode is not None:
    loops = [n for n in ast.walk(fnode) if isinstance(n, (ast.For, ast.While))]
    loops.sort(key=lambda n: (n.lineno, n.col_offset))
    ordinal = loops.index(st) if st in loops else None
  is_for = isinstance(st, ast.For)
  over_text = ast.unparse(st.iter if is_for else st.test)
  inv = INVARIANTS.get((target, ordinal))
  if inv is not None:
    ex.sidecars_used.add((target, ordinal))
  if inv is not None and inv['over'] != over_text:
    raise Unsupported('loop %d of %s now iterates over `%s`, the sidecar invariant was written for `%s`' % (ordinal, target, over_text, inv['over']))

  out_paths = []
  iters = ex.ev(st.iter, p, module) if is_for else [(p, None)]
  for p0, it in iters:
    it = small_concrete(ex, p0, it, st)
    # small concrete python sequences: unroll
    if is_for and isinstance(it, (VList, VTuple)) and len(it.items) <= 4:
      paths = [p0]
      broke = []
      for item in it.items:
        nxt = []
        for q in paths:
          saved, ex.collect = ex.collect, []
          mine = ex.collect
          try:
            live = []
            for q2 in ex.assign_to(st.target, item, q, module):
              live += ex.block(st.body, [q2], module)
          finally:
            ex.collect = saved
          for r in mine:
            if r.outcome[0] == 'continue':
              r.outcome = None
              live.append(r)
            elif r.outcome[0] == 'break':
              r.outcome = None
              broke.append(r)
            else:
              ex.collect.append(r)
          nxt += live
        paths = nxt
      if st.orelse:
        paths = ex.block(st.orelse, paths, module)
      out_paths += paths + broke
      continue
    out_paths += loop_with_optionals(ex, st, p0, it, module, is_for, inv, target, ordinal, frozenset())
  return out_paths


def loop_with_optionals(ex, st, p0, it, module, is_for, inv, target, ordinal, optional):
  try:
    return one_loop(ex, st, p0.fork(), it, module, is_for, inv, target, ordinal, optional)
  except OptWiden as w:
    if w.name in optional or len(optional) > 3:
      raise Unsupported('loop line %d: optional variable %s does not stabilise' % (st.lineno, w.name))
    opt2 = optional | {w.name}
    # variant 1: the variable is still None at the loop head; variant 2: it already holds a value of the kind the body assigns
    out = loop_with_optionals(ex, st, p0.fork(), it, module, is_for, inv, target, ordinal, opt2)
    p2 = p0.fork()
    v = w.sample
    if isinstance(v, VArr):
      s_ = w.sample_path.store[v.loc]
      p2.env[w.name] = p2.new_loc(s_.replace(term=fresh(w.name, T), base=None))
    else:
      p2.env[w.name] = havoc_value(ex, p2, v, w.name)
    out += loop_with_optionals(ex, st, p2, it, module, is_for, inv, target, ordinal, opt2)
    return out


def small_concrete(ex, p, it, st):
  """arrays / ranges / enumerations whose length is a small constant on this path are unrolled (python ints as indices)"""
  from npvc.libspec import Cx
  cx = Cx(ex.lib, ex, p, st)
  def arr_items(a):
    s_ = p.store[a.loc]
    if not s_.shape.concrete or s_.shape.rank < 1:
      return None
    n = cx.conc(s_.shape.dims[0])
    if n is None or n > 4:
      return None
    out = []
    for i in range(n):
      (q, v), = ex.lib.np.index(cx, a, s_, [VInt(i)])
      out.append(v)
    return out
  if isinstance(it, VArr):
    items = arr_items(it)
    return VList(items) if items is not None else it
  if isinstance(it, VEnumerate) and isinstance(it.v, VArr):
    items = arr_items(it.v)
    return VList([VTuple([VInt(i), x]) for i, x in enumerate(items)]) if items is not None else it
  if isinstance(it, VRange) and len(it.args) == 1 and isinstance(it.args[0], VInt):
    n = it.args[0].conc()
    if n is not None and 0 <= n <= 4:
      return VList([VInt(i) for i in range(n)])
  return it


def view(ex, p):
  from npvc.contracts import unwrap

  class V_:
    def __getattr__(self, k):
      if k in p.env:
        return unwrap(p.env[k], p)
      # a sidecar invariant written for the body as it was names a local the current body does not have (renamed / removed): the
      # invariant no longer binds -- the loop is undecided, never refuted and never an error
      raise Unsupported('the sidecar invariant of this loop refers to the local `%s`, which the current body does not define' % k)

    def has(self, k):
      return k in p.env
  return V_()


def one_loop(ex, st, p, it, module, is_for, inv, target, ordinal, optional=frozenset()):
  names, attrs = write_set(st.body + (st.orelse if False else []))
  dead = dead_at_head(st.body)
  selfv = p.env.get('self')
  tag = '%s/loop%s@L%d' % (target, ordinal, st.lineno)
  # ---- invariant at entry
  ghost = inv.get('assume') if inv is not None else None
  if ghost is not None:
    p.assume(ghost(view(ex, p)))
    note = 'ghost hypothesis at loop line %d: %s' % (st.lineno, inv.get('assume_text', ''))
    if note not in p.notes:
      p.notes.append(note)
  if inv is not None and inv.get('entry_def') is not None:
    p.assume(inv['entry_def'](view(ex, p)))
  brk = inv.get('at_break') if inv is not None else None
  local = inv.get('local') if inv is not None else None
  lists_inv = dict((inv or {}).get('lists') or {})
  if inv is not None and inv.get('inv') is None:
    inv = None
  if inv is not None:
    g = inv['inv'](view(ex, p), None)
    p.side.append(('loop-inv-init', tag, list(p.pc), g, 'value invariant holds on entry'))
  extra_locs = set()
  widened = set()
  ttbad = set()
  for attempt in range(10):
    head = p.fork()
    for k in ttbad:
      if isinstance(k, tuple):
        if k[1] in head.store:
          head.store[k[1]] = head.store[k[1]].replace(tt='bad')
        continue
      tgt_ = head.env.get(k) if not k.startswith('self.') else (head.heap[selfv.oid].get(k[5:]) if isinstance(selfv, VObj) else None)
      if isinstance(tgt_, VArr):
        head.store[tgt_.loc] = head.store[tgt_.loc].replace(tt='bad')
    for k in widened:
      if k in head.env and isinstance(head.env[k], VInt):
        head.env[k] = VReal(z3.ToReal(head.env[k].t))
    head_before = {k: head.env.get(k) for k in names}
    # havoc the write set
    for k in sorted(names):
      if k in head.env:
        head.env[k] = havoc_value(ex, head, head.env[k], k)
    if selfv is not None and isinstance(selfv, VObj):
      for a in sorted(attrs):
        if a in head.heap[selfv.oid]:
          head.heap[selfv.oid][a] = havoc_value(ex, head, head.heap[selfv.oid][a], 'self.' + a)
    for lname, (lfn, arity) in sorted(lists_inv.items()):
      lv = head.env.get(lname)
      if not isinstance(lv, VListRef):
        raise Unsupported('loop line %d: the sidecar declares an element invariant for `%s`, which is not a list / set here' % (st.lineno, lname))
      L0 = dict(head.lists[lv.lid])
      if L0.get('einv') is None and not (z3.is_int_value(z3.simplify(p.lists[lv.lid]['n'])) and z3.simplify(p.lists[lv.lid]['n']).as_long() == 0):
        raise Unsupported('loop line %d: `%s` is not empty on entry and carries no element invariant' % (st.lineno, lname))
      hv_ = view(ex, head)
      L0['einv'] = (lambda comps, lfn=lfn, hv_=hv_: lfn(hv_, comps))
      sample = VTuple([VInt(fresh('%s!e%d' % (lname, c_), z3.IntSort())) for c_ in range(arity)])
      L0['elem'] = sample
      head.lists[lv.lid] = L0
      head.assume(L0['einv']([x.t for x in sample.items]))
    for loc in sorted(extra_locs):
      if loc in head.store:
        s_ = head.store[loc]
        head.store[loc] = s_.replace(term=fresh('hv', T), version=s_.version + 1)
    if inv is not None:
      head.assume(inv['inv'](view(ex, head), None))
    if ghost is not None:
      head.assume(ghost(view(ex, head)))
    versions = {loc: s_.version for loc, s_ in head.store.items()}
    head_env = dict(head.env)
    head_attrs = dict(head.heap[selfv.oid]) if isinstance(selfv, VObj) else {}
    # ---- one symbolic iteration
    body_p = head.fork()
    n_iter = None
    if is_for:
      elem, n_iter, idx_term = element_of(ex, body_p, it, st, module)
      starts = ex.assign_to(st.target, elem, body_p, module)
    else:
      starts = []
      for q, c in ex.ev(st.test, body_p, module):
        t = ex.truth(c, q)
        q.assume(t)
        if feasible(q.pc):
          starts.append(q)
    saved, ex.collect = ex.collect, []
    mine = ex.collect
    try:
      ends = ex.block(st.body, starts, module) if starts else []
    finally:
      ex.collect = saved
    breaks = []
    for r in mine:
      if r.outcome[0] == 'continue':
        r.outcome = None
        ends.append(r)
      elif r.outcome[0] == 'break':
        r.outcome = None
        breaks.append(r)
      else:
        ex.collect.append(r)
    # arrays mutated in place that the syntactic write set missed -> redo with a larger havoc set
    more = set()
    for q in ends + breaks:
      for loc, v0 in versions.items():
        if loc in q.store and q.store[loc].version != v0:
          named = any(isinstance(head_env.get(k), VArr) and head_env[k].loc == loc for k in names) or \
                  any(isinstance(head_attrs.get(a), VArr) and head_attrs[a].loc == loc for a in attrs)
          if not named and loc not in extra_locs:
            more.add(loc)
    if more:
      extra_locs |= more
      continue
    try:
      for q in ends:
        for k in names:
          if k in head_env and k in q.env and k not in dead and not (k in optional and isinstance(head_env[k], VNone)):
            same_type(ex, q, head_env[k], q.env[k], k, st)
      if isinstance(selfv, VObj):
        for q in ends:
          for a_ in attrs:
            if a_ in head_attrs and a_ in q.heap[selfv.oid]:
              same_type(ex, q, head_attrs[a_], q.heap[selfv.oid][a_], 'self.' + a_, st)
      # arrays updated IN PLACE keep their location: compare the ghost translation type of every location live at the head
      for q in ends:
        for loc_, s0 in head.store.items():
          s1 = q.store.get(loc_)
          if s1 is not None and (s0.tt or 'inv') != (s1.tt or 'inv') and (s0.tt or 'inv') != 'bad':
            if os.environ.get('VERIF_DEBUG_TT'):
              print('TT', loc_, s0.tt, '->', s1.tt, [k for k, v in q.env.items() if isinstance(v, VArr) and v.loc == loc_], file=sys.stderr)
            raise TTWiden(('loc', loc_))
    except Widen as w:
      if w.name in widened:
        raise Unsupported('loop line %d: variable %s keeps changing numeric type' % (st.lineno, w.name))
      widened.add(w.name)
      continue
    except TTWiden as w:
      if w.name in ttbad:
        raise Unsupported('loop line %d: translation type of %s does not stabilise' % (st.lineno, w.name))
      ttbad.add(w.name)
      continue
    break
  else:
    raise Unsupported('loop write set did not stabilise (line %d)' % st.lineno)
  # ---- preservation
  for q in ends:
    conds = []
    for k in names:
      if k in head_env and k in q.env and k not in dead and not (k in optional and isinstance(head_env[k], VNone)):
        conds += same_type(ex, q, head_env[k], q.env[k], k, st)
    if isinstance(selfv, VObj):
      for a in attrs:
        if a in head_attrs and a in q.heap[selfv.oid]:
          conds += same_type(ex, q, head_attrs[a], q.heap[selfv.oid][a], 'self.' + a, st)
    if conds:
      q.side.append(('loop-shape', tag, list(q.pc), z3.And(*conds), 'arrays written by the loop keep their shape'))
    if inv is not None:
      q.side.append(('loop-inv-preserved', tag, list(q.pc), inv['inv'](view(ex, q), view(ex, head)), 'value invariant re-established'))
  if local is not None:
    for q in ends + breaks:
      g = local(view(ex, q))
      if g is not None:
        q.side.append(('loop-local-inv', tag, list(q.pc), g, 'fact about loop-bound variables at the end of the iteration'))
  if brk is not None:
    for q in breaks:
      q.side.append(('loop-at-break', tag, list(q.pc), brk(view(ex, q), view(ex, head)), 'assertion at every `break` of the loop'))
  # side obligations discovered inside the body must survive even though the iteration paths are dropped:
  # they are attached to the exit path
  carried = []
  for q in ends:
    carried += q.side[len(head.side):]
  carried_notes = []
  for q in ends + breaks:
    carried_notes += [n for n in q.notes if n not in head.notes]
  # ---- after the loop
  exit_p = head
  exit_p.events.append(('loop-writes', target, ordinal, tuple(sorted(n_ for n_ in names if n_ in head_env))))
  if is_for and n_iter is not None:
    exit_p.events.append(('loop-count', target, ordinal, n_iter))      # ghost: how many iterations the for loop makes
  exit_p.side += carried
  for n in carried_notes:
    if n not in exit_p.notes:
      exit_p.notes.append(n)
  for q in ends:
    for e in q.events[len(head.events):]:
      if e not in exit_p.events:
        exit_p.events.append(e + ('in-loop',) if isinstance(e, tuple) else e)
  # element samples of lists appended to in the body
  for k in names:
    hv = head_env.get(k)
    if isinstance(hv, VListRef):
      for q in ends + breaks:
        e = q.lists.get(hv.lid, {}).get('elem')
        if e is not None and exit_p.lists[hv.lid].get('elem') is None:
          L = dict(exit_p.lists[hv.lid])
          L['elem'] = transfer(e, q, exit_p, k)
          exit_p.lists[hv.lid] = L
          break
  # variables first bound inside the body: bound after the loop (assumption: the loop ran at least once when they are read)
  new_names = set()
  for q in ends + breaks:
    for k in q.env:
      if k not in head_env and not k.startswith('__'):
        new_names.add(k)
  if is_for:
    for t in ast.walk(st.target):
      if isinstance(t, ast.Name):
        new_names.add(t.id)
  new_names |= {k for k in dead if k in head_env}        # re-assigned by every iteration: the last iteration's value survives
  sample = (ends + breaks)[0] if (ends + breaks) else None
  for k in sorted(new_names):
    if k in exit_p.env and k not in names and not is_for and k not in dead:
      continue
    if sample is not None and k in sample.env:
      exit_p.env[k] = transfer(sample.env[k], sample, exit_p, k)
      note = 'loop at line %d assumed to execute at least once where `%s` is read afterwards' % (st.lineno, k)
      if note not in exit_p.notes:
        exit_p.notes.append(note)
  if local is not None:
    g = local(view(ex, exit_p))
    if g is not None:
      exit_p.assume(g)
  out = []
  zero_paths = []
  if is_for and n_iter is not None and z3.is_expr(n_iter) and (target, ordinal) in ZERO_EXIT:
    # zero iterations: the entry state survives untouched (more precise than the havoc state)
    zero = p.fork()
    zero.assume(n_iter <= 0)
    if feasible(zero.pc):
      zero.events.append(('loop-writes', target, ordinal, tuple(sorted(n_ for n_ in names if n_ in head_env))))
      zero_paths.append(zero)
    exit_p.assume(n_iter >= 1)
  if is_for:
    exits = ([exit_p] if feasible(exit_p.pc) else []) + zero_paths
  else:
    exits = []
    for q, c in ex.ev(st.test, exit_p, module):
      q.assume(z3.Not(ex.truth(c, q)))
      if feasible(q.pc):
        exits.append(q)
  if st.orelse:
    exits = ex.block(st.orelse, exits, module)
  out += exits
  for q in breaks:
    q.events.append(('loop-break', target, ordinal))        # ghost: this path left the loop through `break`
  out += breaks
  return out


C.LOOP_HOOK = loop_hook
