"""helpers over the ghost call log (shared by several contract modules)"""


def calls(ev, target):
  return [e for e in ev if e[0] == 'call' and e[1] == target]
