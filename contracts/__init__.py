"""Sidecar contracts for /repo/metric_learn (the repository files are never edited).

Each submodule registers Contract objects (keyed by 'module:Qual.name') into npvc.contracts.REGISTRY and
property lemmas into LEMMAS.  UNITS maps a property id to the verification units that decide it.
"""
LEMMAS = {}
UNITS = {}          # prop -> list of ('contract', target) | ('lemma', name)
LOOP_HOOK = None


class Lemma:
  def __init__(self, name, prop, fn, uses=(), doc=''):
    self.name, self.prop, self.fn, self.uses, self.doc = name, prop, fn, list(uses), doc or (fn.__doc__ or '').strip()


def lemma(name, prop, uses=()):
  def deco(fn):
    LEMMAS[name] = Lemma(name, prop, fn, uses)
    UNITS.setdefault(prop, []).append(('lemma', name))
    return fn
  return deco


def unit(prop, target):
  u = ('contract', target)
  if u not in UNITS.setdefault(prop, []):
    UNITS[prop].append(u)


from . import loops            # noqa  (sets LOOP_HOOK)
from . import c18_constructors  # noqa
from . import util_validators   # noqa
from . import base_metric       # noqa
from . import c01_lemmas        # noqa
from . import c04_classifiers   # noqa
from . import base_fit          # noqa
from . import util_init         # noqa
from . import fits              # noqa
from . import constraints_c     # noqa
from . import supervised        # noqa
from . import c16_calibration   # noqa
from . import c11_itml          # noqa
from . import c15_scml          # noqa
from . import c13_sdml          # noqa
from . import c14_mmc           # noqa
from . import c10_gradient      # noqa
from . import c09_formulas      # noqa
from . import c12_lsml          # noqa


unit('C06', 'base_metric:BaseMetricLearner._prepare_inputs')     # malformed input is rejected against the CURRENT preprocessor (set_params histories)

# C18 "the value passed is stored untouched ... also via set_params": the functions that could write into a hyper-parameter array or keep
# using a value replaced by set_params are part of the C18 check (ownership / freshness / built-from-the-current-parameter clauses)
for _t in ('base_metric:BaseMetricLearner._check_preprocessor', 'lsml:_BaseLSML._fit', '_util:_initialize_metric_mahalanobis',
           '_util:_initialize_components'):
  unit('C18', _t)

# every contract contributes a unit to each property it is tagged with (prop=[...])
from npvc.contracts import REGISTRY as _REG
for _key, _con in list(_REG.items()):
  for _p in (_con.prop or []):
    unit(_p, _key)
