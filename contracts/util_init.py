"""Contracts of the conversion / initialisation helpers of _util.py (C03 shape level, C17 ownership, C20)."""
import z3

from npvc.contracts import *
from npvc.values import *
from npvc import theory as TH
import contracts as C

FRESH_OWNER = frozenset()


def mat_result(dim_fn, term_fn=None, kind='f'):
  def build(a, p, ex):
    dims = dim_fn(a)
    return p.new_loc(ArrState(term_fn(a) if term_fn else fresh('m', T), Shape(len(dims), dims), kind, FRESH_OWNER))
  return Returns(build)


# ------------------------------------------------------------------------------------------ _check_n_components
register(Contract(
    '_util:_check_n_components',
    cases=[Case('none', dict(n_features=Int(1), n_components=NoneT())),
           Case('int', dict(n_features=Int(1), n_components=Int()))],
    ensures={'none-means-all-features': lambda a, r: (r == a.n_features) if a.n_components is None else None,
             'given-value-in-range': lambda a, r: z3.And(r == a.n_components, 1 <= r, r <= a.n_features) if a.n_components is not None else None},
    raises={'ValueError': Iff(lambda a: z3.BoolVal(False) if a.n_components is None else z3.Or(a.n_components < 1, a.n_components > a.n_features))},
    returns=Returns(lambda a, p, ex: VInt(fresh('k', z3.IntSort()))),
    prop=['C03', 'C06']))
C.unit('C06', '_util:_check_n_components')
C.unit('C03', '_util:_check_n_components')

# -------------------------------------------------------------------------------------------- _auto_select_init
def auto_rule(a):
  m1 = z3.If(a.n_features < a.n_classes - 1, a.n_features, a.n_classes - 1)
  m2 = z3.If(a.n_features < a.n_samples, a.n_features, a.n_samples)
  lda = z3.And(a.has_classes, a.n_components <= m1)
  pca = z3.And(z3.Not(lda), a.n_components < m2)
  return lda, pca


def _auto_clause(which):
  def cl(a, r):
    lda, pca = auto_rule(a)
    want = {'lda': lda, 'pca': pca, 'identity': z3.And(z3.Not(lda), z3.Not(pca))}
    return want[r] if isinstance(r, str) and r in want and which == r else (None if isinstance(r, str) and r in want else z3.BoolVal(False))
  return cl


_asi = Contract(
    '_util:_auto_select_init',
    cases=[Case('classes', dict(has_classes=Const(VBool(True)), n_features=Int(1), n_samples=Int(1), n_components=Int(1), n_classes=Int(1))),
           Case('regression', dict(has_classes=Const(VBool(False)), n_features=Int(1), n_samples=Int(1), n_components=Int(1), n_classes=Int()))],
    # documented rule: lda iff classes and n_components <= min(d, n_classes - 1); else pca iff n_components < min(d, n); else identity
    ensures={'returns-lda-only-under-its-rule': _auto_clause('lda'),
             'returns-pca-only-under-its-rule': _auto_clause('pca'),
             'returns-identity-only-otherwise': _auto_clause('identity')},
    prop=['C20'])
REGISTRY['_util:_auto_select_init#body'] = _asi       # never used modularly: callers inline this three-line function
C.unit('C20', '_util:_auto_select_init#body')

# ------------------------------------------------------------------------------------------ _check_sdp_from_eigen
def sdp_tol(a):
  if a.tol is not None:
    return a.tol
  return TH.vmax(TH.absT(a.w.term)) * z3.ToReal(a.w.dim(0)) * TH.eps_of(a.w.term)      # documented default: machine epsilon of w's OWN precision


register(Contract(
    '_util:_check_sdp_from_eigen',
    cases=[Case('default-tol', dict(w=Arr(1), tol=NoneT())), Case('given-tol', dict(w=Arr(1), tol=Real()))],
    ensures={
        # returns False iff some |w_i| < tol (not strictly definite), True otherwise
        # C20 "learners that require a strictly PD prior reject a singular one": a spectrum with an exactly zero
        # eigenvalue is never reported as definite (whatever the tolerance, including the default tolerance of an all-zero spectrum)
        'true-only-if-no-eigenvalue-is-zero': lambda a, r: z3.Implies(z3.And(r, TH.lenT(a.w.term) == a.w.dim(0)),
                                                                      z3.Not(TH.anyT(TH.cmps('eq')(a.w.term, z3.RealVal(0))))),
        'false-only-if-some-eigenvalue-is-within-tol': lambda a, r: z3.Implies(z3.Not(r), TH.anyT(TH.cmps('le')(TH.absT(a.w.term), sdp_tol(a)))),
        'true-only-if-no-eigenvalue-is-within-tol': lambda a, r: z3.Implies(r, z3.Not(TH.anyT(TH.cmps('le')(TH.absT(a.w.term), sdp_tol(a))))),
    },
    raises={'ValueError': Iff(lambda a: z3.BoolVal(False) if a.tol is None else a.tol < 0),
            'NonPSDError': Iff(lambda a: z3.And(sdp_tol(a) >= 0, TH.anyT(TH.cmps('lt')(a.w.term, -sdp_tol(a)))))},
    returns=Returns(lambda a, p, ex: VBool(fresh('definite', z3.BoolSort()))),
    modifies=set(), prop=['C20']))
C.unit('C20', '_util:_check_sdp_from_eigen')

# ----------------------------------------------------------------------------------------- components_from_metric
register(Contract(
    '_util:components_from_metric',
    cases=[Case('default-tol', dict(metric=Arr(2, dims=['d', 'd']), tol=NoneT())),
           Case('given-tol', dict(metric=Arr(2, dims=['d', 'd']), tol=Real()))],
    ensures={
        'shape': lambda a, r: z3.And(r.ndim == 2, r.dim(0) == a.metric.dim(0), r.dim(1) == a.metric.dim(1)),
        'real-float-dtype': lambda a, r: z3.BoolVal(r.kind == 'f'),
        'fresh': lambda a, r: z3.BoolVal(len(r.owner) == 0),
        # value level (the headline of C20): for a symmetric positive semi-definite M the returned L satisfies L^T L = M -- on every branch
        # (diagonal: Lean diag_sqrt_clip_gram; Cholesky: numpy's contract; eigh fallback: Lean eig_factor_gram_clip + eigh's contract)
        'LtL-equals-M-for-symmetric-PSD-M': lambda a, r: z3.BoolVal(False) if r.term is None else
            z3.Implies(z3.And(a.metric.term == TH.tr(a.metric.term), TH.psd(a.metric.term)), TH.mm(TH.tr(r.term), r.term) == a.metric.term),
        # and in general L^T L is M with its negative eigenvalues (those within the tolerance) replaced by zero
        'LtL-is-M-with-negative-eigenvalues-clipped': lambda a, r: z3.BoolVal(False) if r.term is None else _cfm_clip(a, r),
    },
    raises={'ValueError': OnlyIf(lambda a: z3.Or(z3.Not(TH.allclose(a.metric.term, TH.tr(a.metric.term))), z3.BoolVal(a.tol is not None) if a.tol is None else a.tol < 0)),
            'NonPSDError': May(), 'LinAlgError': May()},
    returns=mat_result(lambda a: [a.metric.dim(0), a.metric.dim(1)], lambda a: TH.cfm(a.metric.term)),
    events={'tolerance-forwarded-to-every-sign-test': lambda a, ev, r: _tol_forwarded(a, ev)},
    modifies=set(), prop=['C03', 'C17', 'C20']))
C.unit('C20', '_util:components_from_metric')
C.unit('C03', '_util:components_from_metric')


def _cfm_clip(a, r):
  Mt = a.metric.term
  g = TH.mm(TH.tr(r.term), r.term)
  zero = z3.RealVal(0)
  return z3.Implies(Mt == TH.tr(Mt), z3.Or(
      g == Mt,                                                                                       # Cholesky branch (M positive definite)
      z3.And(TH.array_equal(Mt, TH.diagm(TH.diagv(Mt))), g == TH.diagm(TH.maximum_s(zero, TH.diagv(Mt)))),   # diagonal M
      g == TH.mm(TH.colscale(TH.eigvecs(Mt), TH.maximum_s(zero, TH.eigvals(Mt))), TH.tr(TH.eigvecs(Mt)))))   # V max(0, w) V^T


def _tol_forwarded(a, ev):
  cs = [e for e in ev if e[0] == 'call' and e[1] == '_util:_check_sdp_from_eigen']
  # (no call at all: the Cholesky branch, which itself rejects anything that is not positive definite)
  raw = a.raw('tol')
  ok = True
  for c in cs:
    t = c[2]['tol']
    ok &= (isinstance(t, VNone) and isinstance(raw, VNone)) or (isinstance(t, VReal) and isinstance(raw, VReal) and t.t.eq(raw.t))
  return z3.BoolVal(bool(ok))


# ------------------------------------------------------------------------------------- _pseudo_inverse_from_eig
_JP = z3.Int('j!pinv')


def _pinv_tol(a):
  w0 = a.at_entry('w').term
  return TH.vmax(w0) * z3.ToReal(a.w.dim(0)) * TH.eps_of(w0)       # documented default (rank-style tolerance in w's precision)


def _pinv_wpost(a):
  raw = a.raw('w')
  return a.path.store[raw.loc].term


def _pinv_spectrum(a):
  w0, w1 = a.at_entry('w').term, _pinv_wpost(a)
  if w1 is None:
    return z3.BoolVal(False)
  x = TH.at1(w0, _JP)
  ax = z3.If(x >= 0, x, -x)
  return z3.Implies(z3.And(_JP >= 0, _JP < a.w.dim(0)), TH.at1(w1, _JP) == z3.If(ax > _pinv_tol(a), 1 / x, 0))


def _pinv_result(a, r):
  w1 = _pinv_wpost(a)
  if w1 is None or r.term is None:
    return z3.BoolVal(False)
  return r.term == TH.mm(TH.colscale(a.V.term, w1), TH.tr(a.V.term))


register(Contract(
    '_util:_pseudo_inverse_from_eig',
    cases=[Case('default', dict(w=Arr(1, dims=['d'], owner=FRESH_OWNER), V=Arr(2, dims=['d', 'd'], owner=FRESH_OWNER), tol=NoneT()))],
    ensures={'shape': lambda a, r: z3.And(r.ndim == 2, r.dim(0) == a.V.dim(0), r.dim(1) == a.V.dim(0)),
             'fresh': lambda a, r: z3.BoolVal(len(r.owner) == 0),
             # value level (C20: "the (pseudo-)inverse"): the spectrum actually used is 1/w on the eigenvalues above the tolerance and
             # EXACTLY ZERO on the others (Penrose equations then follow by Lean pinv_penrose), and the result is V diag(w+) V^H
             'spectrum-inverted-above-tol-zero-below': lambda a, r: _pinv_spectrum(a),
             'result-is-V-diag(w+)-Vh': lambda a, r: _pinv_result(a, r)},
    raises={},
    returns=mat_result(lambda a: [a.V.dim(0), a.V.dim(0)]),
    consumes=('w',),
    prop=['C17', 'C20'],
    notes='modifies its argument w in place: callers must own it (they pass the fresh output of eigh) -- the inplace-write-owned side obligation is generated at the call sites'))
C.unit('C20', '_util:_pseudo_inverse_from_eig')


# ---------------------------------------------------------------------------------- _initialize_metric_mahalanobis
def imm_cases():
  out = []
  for iname, ispec in (('identity', Str('identity')), ('covariance', Str('covariance')), ('random', Str('random')),
                       ('array', Arr(2, owner=frozenset({('param', 'init')}))), ('badstring', Str('something else'))):
    for rank in (2, 3):
      for rs, rspec in (('seed', Int()), ('noseed', NoneT())):
        for inv in (False, True):
          for strict in (False, True):
            if iname == 'badstring' and (rank == 3 or rs == 'seed' or inv or strict):
              continue
            out.append(Case('%s-in%dd-%s-%s-%s' % (iname, rank, rs, 'inv' if inv else 'noinv', 'strict' if strict else 'lax'),
                            dict(input=Arr(rank, dims=(['n', 'd'] if rank == 2 else ['n', 't', 'd']), tt='pos'), init=ispec, random_state=rspec,
                                 return_inverse=Const(VBool(inv)), strict_pd=Const(VBool(strict)), matrix_name=Opaque('matrix_name')),
                            never_returns=(iname == 'badstring')))
  return out


def imm_match(env, p):
  i = env['init']
  iname = 'array' if isinstance(i, VArr) else i.s if isinstance(i, VStr) and i.s in ('identity', 'covariance', 'random') else 'badstring'
  rank = p.store[env['input'].loc].shape.rank
  rs = 'noseed' if isinstance(env['random_state'], VNone) else 'seed'
  inv = env['return_inverse'].conc()
  strict = env['strict_pd'].conc()
  if iname == 'badstring':
    return 'badstring-in2d-noseed-noinv-lax'
  return '%s-in%dd-%s-%s-%s' % (iname, rank, rs, 'inv' if inv else 'noinv', 'strict' if strict else 'lax')


def imm_d(a):
  return a.input.dim(a.input.st.shape.rank - 1)


def imm_mats(a, r):
  return list(r) if isinstance(r, tuple) else [r]


def imm_returns(a, p, ex):
  d = imm_d(a)
  def mk(nm):
    return p.new_loc(ArrState(fresh(nm, T), Shape(2, [d, d]), 'f', FRESH_OWNER))
  inv = z3.is_true(a.return_inverse)
  if inv:
    return VTuple([mk('M'), mk('Minv')])
  return mk('M')


def _imm_cov_clause(a):
  loc = getattr(a.path, 'final_locals', {})
  X, Mi, V = loc.get('X'), loc.get('M_inv'), loc.get('V')
  st = a.path.store
  if not all(isinstance(v, VArr) for v in (X, Mi, V)):
    return z3.BoolVal(False)
  xt, mt, vt, it = st[X.loc].term, st[Mi.loc].term, st[V.loc].term, a.input.term
  if any(t is None for t in (xt, mt, vt, it)):
    return z3.BoolVal(False)
  want_x = TH.unique_rows(TH.vstack3(it)) if a.input.st.shape.rank == 3 else it
  pin = [e for e in a.path.events if e[0] == 'call' and e[1] == '_util:_pseudo_inverse_from_eig']
  ok = xt.eq(want_x) and (mt.eq(TH.atleast2d(TH.cov(xt))) or mt.eq(TH.cov(xt))) and vt.eq(TH.eigvecs(mt)) \
      and len(pin) == 1 and isinstance(pin[0][2].get('V'), VArr) and pin[0][2]['V'].loc == V.loc
  return z3.BoolVal(True) if ok else PatternMismatch('covariance prior vs pinv of cov of the distinct points')


def imm_bad(a):
  return isinstance(a.init, str) and a.init not in ('identity', 'covariance', 'random')


register(Contract(
    '_util:_initialize_metric_mahalanobis',
    cases=imm_cases(), match=imm_match,
    ensures={
        'known-option': lambda a, r: z3.BoolVal(not imm_bad(a)),
        'returns-pair-iff-return_inverse': lambda a, r: z3.BoolVal(isinstance(r, tuple) == z3.is_true(a.return_inverse)),
        'shape-(d,d)': lambda a, r: None if imm_bad(a) else z3.And(*[z3.And(m.ndim == 2, m.dim(0) == imm_d(a), m.dim(1) == imm_d(a)) for m in imm_mats(a, r)]),
        'real-float-dtype': lambda a, r: None if imm_bad(a) else z3.BoolVal(all(m.kind == 'f' for m in imm_mats(a, r))),
        # C17: the returned matrices never share memory with the caller's `init` array or the training data
        'fresh': lambda a, r: None if imm_bad(a) else z3.BoolVal(all(len(m.owner) == 0 for m in imm_mats(a, r))),
        # C19: the prior / initial matrix does not change when all training points are translated (identity, random and array do
        # not look at the data; 'covariance' only through np.cov of the distinct points)
        'translation-invariant': lambda a, r: None if imm_bad(a) else z3.BoolVal(all(m.tt == 'inv' for m in imm_mats(a, r))),
        # C20 ("an array is used AS GIVEN after a symmetry, shape and PSD check"): the matrix returned for an array option holds the numbers of
        # that array (a copy of them)
        'array-option-is-used-as-given': lambda a, r: None if not isinstance(a.raw('init'), VArr) else
            (imm_mats(a, r)[0].term == a.at_entry('init').term if imm_mats(a, r)[0].term is not None else z3.BoolVal(False)),
        # C20 ("'covariance' the (pseudo-)inverse covariance of the DISTINCT training points"): what is decomposed and pseudo-inverted is
        # np.cov of the de-duplicated points of the tuples (of the points themselves for 2-D input), and nothing else
        'covariance-option-is-of-the-distinct-points': body_only(lambda a, r: None if a.init != 'covariance' else _imm_cov_clause(a)),
        # C11 / C20: with strict_pd the returned matrix is positive definite
        # (not claimed for init='covariance': positive definiteness of the pseudo-inverse built by _pseudo_inverse_from_eig is a value-level
        #  fact of that helper which is not under a value-level contract)
        'strict_pd-result-is-positive-definite': lambda a, r: None if (imm_bad(a) or not z3.is_true(a.strict_pd) or a.init == 'covariance')
            else TH.pd(imm_mats(a, r)[0].term),
    },
    raises={'ValueError': May() , 'LinAlgError': May(), 'NonPSDError': May()},
    events={'randomness-only-from-random_state': lambda a, ev, r: z3.BoolVal(all(
        e[2] in ('int-seed', 'seeded') or (e[2] == 'global-unseeded' and a.random_state is None) for e in ev if e[0] in ('random-draw', 'random-source')))},
    returns=Returns(imm_returns), modifies=set(), prop=['C03', 'C17', 'C20']))
C.unit('C20', '_util:_initialize_metric_mahalanobis')
C.unit('C03', '_util:_initialize_metric_mahalanobis')


# ----------------------------------------------------------------------------------------- _initialize_components
def ic_cases():
  out = []
  for iname, ispec in (('auto', Str('auto')), ('pca', Str('pca')), ('lda', Str('lda')), ('identity', Str('identity')), ('random', Str('random')),
                       ('array', Arr(2, owner=frozenset({('param', 'init')}))), ('badstring', Str('something else'))):
    for hc in (True, False):
      if iname == 'badstring' and not hc:
        continue
      for rs, rspec in (('seed', Int()), ('noseed', NoneT())):
        if iname == 'badstring' and rs == 'seed':
          continue
        out.append(Case('%s-%s-%s' % (iname, 'classes' if hc else 'regression', rs),
                        dict(n_components=Int(1), input=Arr(2, dims=['n', 'd'], tt='pos'), y=Arr(1, 'i' if hc else 'f', dims=['n']), init=ispec,
                             verbose=Const(VBool(False)), random_state=rspec, has_classes=Const(VBool(hc))),
                        pre=lambda a: a.n_components <= a.input.dim(1),
                        never_returns=(iname == 'badstring' or (iname == 'lda' and not hc))))
  return out


def ic_match(env, p):
  i = env['init']
  iname = 'array' if isinstance(i, VArr) else i.s if isinstance(i, VStr) and i.s in ('auto', 'pca', 'lda', 'identity', 'random') else 'badstring'
  hc = env['has_classes'].conc()
  rs = 'noseed' if isinstance(env['random_state'], VNone) else 'seed'
  if iname == 'badstring':
    return 'badstring-classes-noseed'
  return '%s-%s-%s' % (iname, 'classes' if hc else 'regression', rs)


def ic_bad(a):
  if not isinstance(a.init, str):
    return False
  ok = ['auto', 'pca', 'identity', 'random'] + (['lda'] if z3.is_true(a.has_classes) else [])
  return a.init not in ok


register(Contract(
    '_util:_initialize_components',
    cases=ic_cases(), match=ic_match,
    ensures={
        'known-option': lambda a, r: z3.BoolVal(not ic_bad(a)),
        'shape-(n_components,d)': lambda a, r: None if ic_bad(a) else z3.And(r.ndim == 2, r.dim(0) == a.n_components, r.dim(1) == a.input.dim(1)),
        'real-float-dtype': lambda a, r: None if ic_bad(a) else z3.BoolVal(r.kind == 'f'),
        'fresh': lambda a, r: None if ic_bad(a) else z3.BoolVal(len(r.owner) == 0),
        # C19: pca / lda directions, identity, random and user arrays do not change under a translation of the data
        'translation-invariant': lambda a, r: None if ic_bad(a) else z3.BoolVal(r.tt == 'inv'),
    },
    raises={'ValueError': May()},
    events={'randomness-only-from-random_state': lambda a, ev, r: z3.BoolVal(all(
        e[2] in ('int-seed', 'seeded') or (e[2] == 'global-unseeded' and a.random_state is None) for e in ev if e[0] in ('random-draw', 'random-source')))},
    returns=mat_result(lambda a: [a.n_components, a.input.dim(1)]), modifies=set(), prop=['C03', 'C17', 'C20']))
C.unit('C20', '_util:_initialize_components')
C.unit('C03', '_util:_initialize_components')


from npvc import ttype as _TT
for _t in ('_util:_initialize_metric_mahalanobis', '_util:_initialize_components'):
  REGISTRY[_t].tt_rule = (lambda env, p, res: _TT.set_tt(p, res, _TT.INV))       # proved on the body: clause `translation-invariant`
REGISTRY['_util:components_from_metric'].tt_rule = (lambda env, p, res: _TT.set_tt(p, res, _TT.tt_of(p, env['metric'])))
