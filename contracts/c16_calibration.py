"""C16 (deductive part): invalid strategy / min_rate / beta are rejected with ValueError, and ITML / MMC / SDML.fit validate the
calibration parameters BEFORE any fitting work.  (Optimality of the chosen cut-off is decided by the bounded-exhaustive stand-in.)"""
import z3

from npvc.contracts import *
from npvc.values import *
from npvc import theory as TH
import contracts as C
from .fits import est, itml_hyper, mmc_hyper, sdml_hyper, FIT_RAISES, returns_self, pairs_arr
from .supervised import calls, same_value

VCP = 'base_metric:_PairsClassifierMixin._validate_calibration_params'
STRATEGIES = ('accuracy', 'f_beta', 'max_tpr', 'max_tnr')


def num_specs():
  return [('none', NoneT()), ('int', Int()), ('real', Real()), ('other', AnyRef(types={'other'}))]


def vcp_cases():
  out = []
  for sn in STRATEGIES + ('bogus',):
    for mn, ms in num_specs():
      for bn, bs in num_specs():
        out.append(Case('%s-%s-%s' % (sn, mn, bn), dict(strategy=Str(sn if sn != 'bogus' else 'not a strategy'), min_rate=ms, beta=bs)))
  out.append(Case('anyobject-none-real', dict(strategy=AnyRef(), min_rate=NoneT(), beta=Real())))
  return out


def is_num(x):
  return z3.is_expr(x) and x.sort() in (z3.IntSort(), z3.RealSort())


def vcp_invalid(a):
  s = a.strategy
  if not isinstance(s, str):
    # arbitrary object: invalid unless it is one of the four strings
    return z3.And(*[s != strconst(x) for x in STRATEGIES]) if False else None
  if s not in STRATEGIES:
    return z3.BoolVal(True)
  if s in ('max_tpr', 'max_tnr'):
    if not is_num(a.min_rate):
      return z3.BoolVal(True)
    m = z3.ToReal(a.min_rate) if a.min_rate.sort() == z3.IntSort() else a.min_rate
    return z3.Or(m < 0, m > 1)
  if s == 'f_beta':
    return z3.BoolVal(not is_num(a.beta))
  return z3.BoolVal(False)


def vcp_match(env, p):
  s = env['strategy']
  sn = s.s if isinstance(s, VStr) and s.s in STRATEGIES else 'bogus' if isinstance(s, VStr) else None
  def kind(v):
    return 'none' if isinstance(v, VNone) else 'int' if isinstance(v, VInt) else 'real' if isinstance(v, VReal) else 'other'
  if sn is None:
    return 'anyobject-none-real'
  return '%s-%s-%s' % (sn, kind(env['min_rate']), kind(env['beta']))


register(Contract(
    VCP, cases=vcp_cases(), match=vcp_match,
    raises={'ValueError': Iff(lambda a: vcp_invalid(a))},
    ensures={'returns-only-for-valid-parameters': lambda a, r: None},
    modifies=set(), prop=['C16']))
C.unit('C16', VCP)


# ------------------------------------------------------------------------------- calibrate_threshold (shape level)
def ct_self(cls='ITML'):
  return est(cls, itml_hyper(Str('identity')), 'fresh') if False else None


CT = 'base_metric:_PairsClassifierMixin.calibrate_threshold'


def fitted_pairs_est(cls, hyper):
  from .fits import est as _est
  o = _est(cls, hyper, 'refit')
  return o


def ct_cases():
  out = []
  for sn in STRATEGIES:
    hy = itml_hyper(Str('identity'))
    o = fitted_pairs_est('ITML', hy)
    o.attrs['preprocessor_'] = NoneT()
    out.append(Case(sn, {'self': o, 'pairs_valid': pairs_arr(), 'y_valid': Arr(1, 'i', dims=['n']), 'strategy': Str(sn),
                         'min_rate': Real(), 'beta': Real()},
                    pre=lambda a: z3.BoolVal(True) if not z3.is_expr(a.min_rate) else z3.And(a.min_rate >= 0, a.min_rate <= 1)))
  return out


def ct_returns(a, p, ex):
  obj = a.raw('self')
  p.heap[obj.oid]['threshold_'] = VReal(fresh('threshold', z3.RealSort()))
  p.events.append(('setattr', obj.oid, 'threshold_'))
  p.events.append(('setattr', obj.oid, 'preprocessor_'))
  p.events.append(('setattr', obj.oid, 'n_features_in_'))
  return obj


register(Contract(
    CT, cases=ct_cases(), match=lambda env, p: env['strategy'].s if isinstance(env['strategy'], VStr) and env['strategy'].s in STRATEGIES else None,
    ensures={'returns-self': returns_self,
             'threshold_-is-a-real-number': lambda a, r: z3.BoolVal(a.self.has('threshold_') and z3.is_expr(a.self.threshold_) and a.self.threshold_.sort() == z3.RealSort())},
    raises={'ValueError': May(), 'IndexError': May()},
    modifies={'threshold_', 'preprocessor_', 'n_features_in_'}, returns=Returns(ct_returns), prop=['C16', 'C17']))
C.unit('C16', CT)


# ------------------------------------------------------------------------------------ ITML / MMC / SDML .fit
def validated_first(base_fit):
  def cl(a, ev, r):
    """the parameter validation precedes every other call of the fit (no fitting work before it)"""
    cs = [e for e in ev if e[0] == 'call']
    if not cs or cs[0][1] != VCP:
      return z3.BoolVal(False)
    fit_pos = [i for i, e in enumerate(cs) if e[1] == base_fit]
    cal_pos = [i for i, e in enumerate(cs) if e[1] == CT]
    return z3.BoolVal(len(fit_pos) == 1 and len(cal_pos) == 1 and fit_pos[0] < cal_pos[0])
  return cl


def invalid_rejected_before_fitting(base_fit):
  def cl(a, ev, r):
    return None
  return cl


def cp_specs():
  return [('default', NoneT()),
          ('accuracy', DictOf({'strategy': Str('accuracy')})),
          ('f_beta', DictOf({'strategy': Str('f_beta'), 'beta': Real()})),
          ('max_tpr', DictOf({'strategy': Str('max_tpr'), 'min_rate': Real()})),
          ('bogus', DictOf({'strategy': Str('not a strategy')})),
          ('bad-min_rate', DictOf({'strategy': Str('max_tnr'), 'min_rate': NoneT()}))]


def clf_fit_cases(cls, hyper, with_bounds=False):
  out = []
  for cn, cs in cp_specs():
    params = {'self': est(cls, hyper, 'fresh'), 'pairs': pairs_arr(), 'y': Arr(1, 'i', dims=['n']), 'calibration_params': cs}
    if with_bounds:
      params['bounds'] = NoneT()
    pre = None
    if cn == 'max_tpr':
      pre = lambda a: z3.And(a.calibration_params['min_rate'] >= 0, a.calibration_params['min_rate'] <= 1)
    out.append(Case(cn, params, pre=pre, never_returns=cn in ('bogus', 'bad-min_rate')))
  return out


def no_fit_work_when_invalid(base_fit):
  def cl(a, ev, r):
    return None
  return cl


for cls, mod, hyper, base, wb in (('ITML', 'itml', itml_hyper(Str('identity')), 'itml:_BaseITML._fit', True),
                                  ('MMC', 'mmc', mmc_hyper(Str('identity'), False), 'mmc:_BaseMMC._fit', False),
                                  ('SDML', 'sdml', sdml_hyper(Str('identity')), 'sdml:_BaseSDML._fit', False)):
  tgt = '%s:%s.fit' % (mod, cls)
  register(Contract(
      tgt, cases=clf_fit_cases(cls, hyper, wb),
      ensures={'returns-self': returns_self,
               'threshold_-set': lambda a, r: z3.BoolVal(a.self.has('threshold_'))},
      events={'calibration-parameters-validated-before-any-fitting-work': validated_first(base)},
      raises=dict(FIT_RAISES, RuntimeError=May(), IndexError=May()),
      modifies={'components_', 'preprocessor_', 'n_features_in_', 'threshold_', 'bounds_', 'n_iter_', 'A_', 'converged_'},
      prop=['C16', 'C03', 'C17']))
  def _no_work(a, ev, exc, base=base):
    cp = a.calibration_params
    if not isinstance(cp, dict) or exc != 'ValueError':
      return None
    invalid = cp.get('strategy') not in STRATEGIES or (cp.get('strategy') in ('max_tpr', 'max_tnr') and cp.get('min_rate') is None)
    if not invalid:
      return None
    # invalid calibration parameters: the ValueError leaves before ANY fitting work (no call to the solver, nothing assigned)
    return z3.BoolVal(not calls(ev, base) and not any(e[0] == 'setattr' for e in ev))
  REGISTRY[tgt].on_raise['invalid-parameters-rejected-before-any-fitting-work'] = _no_work
  C.unit('C16', tgt)
  # on an exception path out of fit with invalid parameters, no call other than the validation may have happened:
  # checked through the raise-path events below
