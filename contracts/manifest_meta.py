"""per-property level / technique / notes: single source for MANIFEST.json (tools/gen_manifest.py) and the evidence files"""

TECH = 'contract-based deductive verification: VCs generated from the ast of the real functions against sidecar contracts, discharged by z3'

META = {}
CLAIMED = []
NOT_YET = {}


def claim(pid, level, level_text, level_note, explanation, assumptions, technique=TECH):
  META[pid] = dict(level=level, level_text=level_text, level_note=level_note, explanation=explanation,
                   assumptions=assumptions, technique=technique)
  CLAIMED.append(pid)


claim('C01', 'proof',
      'pair_distance, pair_score and the get_metric closure are executed symbolically from the real source; z3 proves result[i] = d_L(p_i0, p_i1) = ||L(p_i0 - p_i1)|| '
      'for every fitted state and every pair batch, the pseudo-metric laws follow from contracts + metric axioms (Lean theorems), and d(x,y)=d(y,x), d(x,x)=0 are proved '
      'exactly over the extracted terms with only sign-symmetry identities that hold in binary64. Finiteness and rounding slack are bounded (run-time contract on the real observers).',
      'trusted: npvc encoder; z3; A-real (floats as reals) except the exact-identity obligations, which assume sign-symmetric BLAS kernels; assumed contracts of numpy dot/sum/sqrt and '
      'scikit-learn check_array; metric axioms are Lean/Mathlib theorems transcribed by hand into SMT; fitted state = any (k,d) real matrix (that fit produces one is C03)',
      'symbolic execution of the observers + property lemmas over contracts; bounded stand-in for finiteness',
      ['A-real: finiteness and the rounding slack of the triangle inequality are outside the real model (bounded stand-in only)',
       'BLAS matrix products are sign-symmetric (used only by the exact-identity obligations)'])
claim('C02', 'proof',
      'every observer (transform, pair_distance, get_metric plain/squared, get_mahalanobis_matrix, score_pairs) is proved from its real body to denote X L^T, d_L, d_L^2 = (x-y)^T M (x-y), '
      'M = L^T L (symmetric PSD); the lemma "all views agree" is proved from the contracts only.',
      'trusted: as C01; array-like -> ndarray conversion is scikit-learn check_array (assumed: same numbers); index+preprocessor equivalence is carried by the validator contracts of C05/C06',
      'symbolic execution of all observers + agreement lemma', [])
claim('C06', 'proof',
      'total case analysis of the real validators (check_input, check_input_tuples, check_input_classic, check_tuple_size, make_error_input, check_y_valid_values_for_pairs) over an array '
      'descriptor with symbolic rank and dims: every path ends in a formed array of the documented rank / tuple size / minimum size, in ValueError, or in PreprocessorError when a preprocessor was consulted; '
      'call well-formedness of every scikit-learn call against the installed signature. Relative to the assumed scikit-learn validator contracts (NaN/inf/dtype/length). '
      'The enumerated malformation grammar of the property is run against the real methods as a bounded stand-in.',
      'trusted: npvc encoder; z3; assumed contracts of check_array / check_X_y (listed in evidence); user preprocessors return arrays of rank <= 3; known finding F15 (0-d data with labels -> TypeError from scikit-learn)',
      'total case analysis over input descriptors; call well-formedness; bounded grammar on the real methods',
      ['NaN/inf, dtype and length checks are scikit-learn check_array/check_X_y behaviour (assumed contract)'])
claim('C18', 'proof',
      'every public constructor is executed symbolically through its MRO with opaque arguments; z3 proves self.p is p for every non-deprecated parameter, alias -> replacement + FutureWarning, '
      'and that nothing but parameters is assigned. The NotFittedError guard is the `unfitted` case of every query-method contract (C01/C02/C04 units).',
      'trusted: npvc encoder; z3; get_params/set_params/clone are scikit-learn BaseEstimator introspection (assumed; they work iff every parameter is stored under its own name, the clause proved); pickle is CPython (bounded only)',
      'symbolic execution of the constructors with opaque (identity-only) arguments',
      ['get_params/set_params/clone are scikit-learn BaseEstimator introspection (assumed)', 'pickle is CPython (not verified)'])
claim('C04', 'proof',
      'predict / decision_function / score / set_threshold of the three tuple-classifier mixins are executed symbolically from the real source; every clause of the property is proved at a generic batch index, '
      'ties included: pairs predict = +1 iff d <= threshold_, decision = -d, score = roc_auc_score(y, decision); triplets decision = d(a,c)-d(a,b), predict = +1 iff d(a,b) < d(a,c), score = fraction predicted +1; '
      'quadruplets decision = d(c,d)-d(a,b), predict = sign; swap and monotonicity lemmas from the contracts.',
      'trusted: npvc encoder; z3; A-real; pair_score / check_input used through their contracts (verified in C01/C06); roc_auc_score is scikit-learn (uninterpreted); numpy comparison/sign/mean semantics (assumed, pointwise axioms)',
      'symbolic execution at a generic batch index + lemmas over contracts', ['roc_auc_score is scikit-learn (uninterpreted function of labels and decision values)'])
META['C03'] = dict(level='proof', level_text='', level_note='', explanation='wip', assumptions=[], technique=TECH)
META['C05'] = dict(level='proof', level_text='', level_note='', explanation='wip', assumptions=[], technique=TECH)
META['C20'] = dict(level='proof', level_text='', level_note='', explanation='wip', assumptions=[], technique=TECH)
META['C07'] = dict(level='proof', level_text='', level_note='', explanation='wip', assumptions=[], technique=TECH)
META['C12'] = dict(level='other', level_text='', level_note='', explanation='wip', assumptions=[], technique=TECH)
META['C09'] = dict(level='other', level_text='', level_note='', explanation='wip', assumptions=[], technique=TECH)
META['C08'] = dict(level='proof', level_text='', level_note='', explanation='wip', assumptions=[], technique=TECH)
