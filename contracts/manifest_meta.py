"""per-property level / explanation / assumptions written into the evidence (kept in sync with MANIFEST.json)"""
META = {
  'C18': dict(level='proof',
              explanation='symbolic execution of every public constructor through its MRO with opaque arguments; z3 decides the round-trip, alias and frame clauses',
              assumptions=['get_params/set_params/clone are scikit-learn BaseEstimator introspection (assumed): they work iff every constructor parameter is stored under its own name, which is the clause proved',
                           'pickle is CPython (not verified)']),
}
