"""per-property level / technique / notes: single source for MANIFEST.json (tools/gen_manifest.py) and the evidence files"""

TECH = 'contract-based deductive verification: VCs generated from the ast of the real functions against sidecar contracts, discharged by z3'

META = {}
CLAIMED = []
NOT_YET = {}


def claim(pid, level, level_text, level_note, explanation, assumptions, technique=TECH):
  META[pid] = dict(level=level, level_text=level_text, level_note=level_note, explanation=explanation,
                   assumptions=assumptions, technique=technique)
  CLAIMED.append(pid)


claim('C01', 'proof',
      'pair_distance, pair_score and the get_metric closure are executed symbolically from the real source; z3 proves result[i] = d_L(p_i0, p_i1) = ||L(p_i0 - p_i1)|| '
      'for every fitted state and every pair batch, the pseudo-metric laws follow from contracts + metric axioms (Lean theorems), and d(x,y)=d(y,x), d(x,x)=0 are proved '
      'exactly over the extracted terms with only sign-symmetry identities that hold in binary64. Finiteness and rounding slack are bounded (run-time contract on the real observers).',
      'trusted: npvc encoder; z3; A-real (floats as reals) except the exact-identity obligations, which assume sign-symmetric BLAS kernels; assumed contracts of numpy dot/sum/sqrt and '
      'scikit-learn check_array; metric axioms are Lean/Mathlib theorems transcribed by hand into SMT; fitted state = any (k,d) real matrix (that fit produces one is C03)',
      'symbolic execution of the observers + property lemmas over contracts; bounded stand-in for finiteness',
      ['A-real: finiteness and the rounding slack of the triangle inequality are outside the real model (bounded stand-in only)',
       'BLAS matrix products are sign-symmetric (used only by the exact-identity obligations)'])
claim('C02', 'proof',
      'every observer (transform, pair_distance, get_metric plain/squared, get_mahalanobis_matrix, score_pairs) is proved from its real body to denote X L^T, d_L, d_L^2 = (x-y)^T M (x-y), '
      'M = L^T L (symmetric PSD); the lemma "all views agree" is proved from the contracts only.',
      'trusted: as C01; array-like -> ndarray conversion is scikit-learn check_array (assumed: same numbers); index+preprocessor equivalence is carried by the validator contracts of C05/C06',
      'symbolic execution of all observers + agreement lemma', [])
claim('C06', 'proof',
      'total case analysis of the real validators (check_input, check_input_tuples, check_input_classic, check_tuple_size, make_error_input, check_y_valid_values_for_pairs) over an array '
      'descriptor with symbolic rank and dims: every path ends in a formed array of the documented rank / tuple size / minimum size, in ValueError, or in PreprocessorError when a preprocessor was consulted; '
      'call well-formedness of every scikit-learn call against the installed signature; the formed data is FLOATING POINT for signed / unsigned integer and boolean arguments (F24: integer data used to reach the learners unconverted). '
      'Relative to the assumed scikit-learn validator contracts (NaN/inf/dtype/length). '
      'The enumerated malformation grammar of the property is run against the real methods as a bounded stand-in, and so is "the same numbers in another container / dtype / memory layout give the same results" (fit and queries of all 17 estimators).',
      'trusted: npvc encoder; z3; assumed contracts of check_array / check_X_y (listed in evidence); user preprocessors return arrays of rank <= 3; known finding F15 (0-d data with labels -> TypeError from scikit-learn)',
      'total case analysis over input descriptors; call well-formedness; bounded grammar on the real methods',
      ['NaN/inf, dtype and length checks are scikit-learn check_array/check_X_y behaviour (assumed contract)'])
claim('C18', 'proof',
      'every public constructor is executed symbolically through its MRO with opaque arguments; z3 proves self.p is p for every non-deprecated parameter, alias -> replacement + FutureWarning, '
      'and that nothing but parameters is assigned. "Stored untouched" after use: the ownership / freshness obligations of the functions that consume array-valued parameters (LSML weights, prior / init arrays) '
      'and "_check_preprocessor builds its indexer from the CURRENT parameter" (set_params on a used estimator) are part of this check. The NotFittedError guard is the `unfitted` case of every query-method contract (C01/C02/C04 units).',
      'trusted: npvc encoder; z3; get_params/set_params/clone are scikit-learn BaseEstimator introspection (assumed; they work iff every parameter is stored under its own name, the clause proved); pickle is CPython (bounded only)',
      'symbolic execution of the constructors with opaque (identity-only) arguments',
      ['get_params/set_params/clone are scikit-learn BaseEstimator introspection (assumed)', 'pickle is CPython (not verified)'])
claim('C04', 'proof',
      'predict / decision_function / score / set_threshold of the three tuple-classifier mixins are executed symbolically from the real source; every clause of the property is proved at a generic batch index, '
      'ties included: pairs predict = +1 iff d <= threshold_, decision = -d, score = roc_auc_score(y, decision); triplets decision = d(a,c)-d(a,b), predict = +1 iff d(a,b) < d(a,c), score = fraction predicted +1; '
      'quadruplets decision = d(c,d)-d(a,b), predict = sign; swap and monotonicity lemmas from the contracts.',
      'trusted: npvc encoder; z3; A-real; pair_score / check_input used through their contracts (verified in C01/C06); roc_auc_score is scikit-learn (uninterpreted); numpy comparison/sign/mean semantics (assumed, pointwise axioms)',
      'symbolic execution at a generic batch index + lemmas over contracts', ['roc_auc_score is scikit-learn (uninterpreted function of labels and decision values)'])


BOUNDED = 'bounded run-time contracts on the real code (standins/) cover the rest and are reported as bounded -- not proved'

claim('C03', 'proof',
      'fit / _fit of all 17 estimators and the helpers they call are executed symbolically from the real source at the shape / dtype / ownership / exception-flow level (loops cut by inferred '
      'shape invariants, callees by contract): every normal exit returns self with components_ a real-float (k, n_features) array of the documented k, n_features_in_ = feature count of this fit, '
      'transform maps (n,d) to (n,k); only declared exception types escape; every scikit-learn/numpy call binds against the installed signature. PSD of M = L^T L is the C02 lemma. '
      'Finiteness is bounded (stand-in over the option product of the property).',
      'trusted: npvc encoder; z3; shape/dtype contracts of ~130 numpy/scipy/scikit-learn callables (assumed, listed in the evidence; signature-checked); partial correctness; known findings F18/F19 (LDA rank truncation, thorough stand-in only)',
      'shape-level symbolic execution of every fit; ' + BOUNDED,
      ['finiteness of components_ is outside the real-arithmetic model (bounded stand-in)', 'shape/dtype behaviour of external solvers as listed in trusted_base'])
claim('C05', 'proof',
      'tuple formation (column i of the formed tuples is the preprocessor applied to column i of the indicators, in order), preprocessor-not-consulted on formed data, PreprocessorError wrapping, '
      'array-like -> ArrayIndexer / callable used as is are proved on the real validators and _check_preprocessor; every data-taking method states its clauses for both representations '
      '(formed, or indices + preprocessor) through the validator contract, so equality of outputs follows.',
      'trusted: npvc encoder; z3; user preprocessors are functions of their argument returning arrays of rank <= 3; ArrayIndexer indexing is numpy fancy indexing (assumed)',
      'symbolic execution of the validators with an uninterpreted preprocessor; ' + BOUNDED, ['a user preprocessor is a function of its argument (papply)'])
claim('C07', 'other',
      'proved on the real constraints.py: Constraints._pairs at the VALUE level -- every returned pair joins two distinct points whose labels are known, equal for positive pairs and different for negative pairs '
      '(element invariant of the set `ab`: an obligation for every element the body adds, carried through np.array(list(ab)), .T and known_label_idx[...] by the np.where / fancy-indexing axioms, for every label vector and every n_constraints); '
      'shapes, at-most-n_constraints, same_length, chunk vector shape, triplet shape, call well-formedness, all randomness drawn from the given random_state, and -- through the ghost "value frame" of index arrays -- '
      'that every returned index refers to the CALLER\'s array (the clause F3 violated); Constraints.__init__ holds the labels as SIGNED integers whatever the argument\'s dtype (unsigned labels would turn the -1 markers into 255); '
      'the index vector through which generate_knntriplets maps its triplets back ranges over points with label >= 0 only. "No repeated ordered pair", chunk disjointness / size and the k-NN characterisation are decided by the bounded-exhaustive stand-in '
      '(all label vectors of length <= 6/7 over {-1,0,1,2}; one re-coded representation per vector: other negative codes, uint8/uint16/int8/int16/int32/float/list labels).',
      'trusted: npvc encoder; z3; libspec of np.where (sorted true positions) / fancy indexing / randint / choice (returns an entry of its argument) / np.unique / NearestNeighbors; set-valued invariants of chunks are NOT proved (bounded only)',
      'list element invariant + index-frame symbolic execution; ' + BOUNDED, ['rejection sampling finds at least one pair when one exists (ghost hypothesis of the property)'])
claim('C08', 'proof',
      'call-structure refinement proved on the six real supervised fit bodies with a ghost call log: the base _fit receives exactly wrap_pairs(X\', Constraints(y\').positive_negative_pairs(n_c, random_state=self.random_state)) '
      '(ITML/MMC/SDML; n_c = n_constraints or 20*n_classes^2), X\'[column_stack(...same_length=True...)] with weights=self.weights (LSML), chunks(n_chunks, chunk_size, random_state) (RCA), X\'[generate_knntriplets(X\', k_genuine, k_impostor)] (SCML); '
      'the index-frame obligation shows those indices refer to X\'. Unknown labels are excluded by the C07 contracts.',
      'trusted: npvc encoder; z3; equality is identity of the symbolic values in the call log (same array object / same term); the base _fit contracts are verified separately (C03)',
      'ghost call log + provenance tags on the real supervised fits; ' + BOUNDED, [])
claim('C09', 'other',
      'deductive: Covariance hands components_from_metric exactly pinv(Cov(X\')) of the prepared points (1/Cov for one feature) and stores its result (with the C20 contract: L^T L = M); '
      'RCA: components_ is the symmetric inverse square root V diag(1/sqrt(w)) V^T of the bias-1 covariance of the chunk-centred data -- (A^T W A)^(-1/2) A^T after reduction -- which whitens W by Lean inv_sqrtm_whitens, '
      'and the centring loop visits every chunk id 0..max(chunks); LFDA: the local-scale index is not carried across classes (F13), k >= 0; all three fits at the shape, dtype, exception and seeding level. '
      'The values of the chunk centring, the retained RCA directions and every LFDA formula (Sugiyama\'s pairwise scatter matrices, local scaling, eigen-ordering, embedding scaling) are decided by the bounded stand-in '
      'against an independent O(n^2) evaluation (this is where F6, F8, F13 and the sign error F16 were found). The scatter algebra planned in DESIGN.md 3/C09 is NOT proved: the design-time reading of lfda.py:136 was wrong.',
      'trusted: as C03; np.cov / pinvh / eigh / eigsh are numpy/scipy (assumed contracts); known finding F8 (LFDA local scale axis) is not repaired',
      'term-level formula clauses over the symbolic execution + loop clauses; ' + BOUNDED, ['eigen-solvers and covariance are numpy/scipy (assumed)', 'LFDA formulas are bounded only'])
claim('C12', 'other',
      'deductive: LSML _fit at the shape/ownership level (loops with inferred invariants, numeric widening, Optional M_best), weights copied before normalisation (F4b), and the dataflow clauses "constraint weights reach the objective" / '
      '"reach the search direction" on _comparison_loss / _gradient (F9), and the control structure behind "an early stop is stationary": the step-size scan tries every step size and the solver loop is left only through its two exit tests. Objective value, descent, SPD, prior fixpoint and stationarity at early stop are decided by the bounded stand-in with an independent objective/gradient.',
      'trusted: as C03; known finding F21 (quadruplet with a collapsed second pair -> NaN gradient)', 'shape-level symbolic execution + dataflow clauses; ' + BOUNDED,
      ['loss / gradient formulas are checked at run time only (bounded)'])
claim('C16', 'other',
      'deductive: _validate_calibration_params raises ValueError exactly for strategy outside the four names, min_rate not a number in [0,1] (rate strategies), beta not a number (f_beta) -- total case analysis over the python types; '
      'ITML / MMC / SDML.fit call it first (ghost call log: before _fit and calibrate_threshold) and with invalid parameters leave with ValueError before any call or assignment. '
      'Optimality of the stored threshold is decided by the bounded-exhaustive stand-in (every labelling x every distance vector over a 3-value grid, n <= 5 quick / <= 6-7 thorough).',
      'trusted: npvc encoder; z3; roc_curve / precision_recall_curve are scikit-learn', 'total case analysis + call-order clauses; bounded-exhaustive enumeration for optimality', [])
claim('C17', 'proof',
      'frames and ownership for every function reachable from fit and from the query methods: each in-place write (item/augmented assignment, out=, fill_diagonal) targets an array proved to be owned (allocated on the path), never a '
      'parameter, a hyper-parameter array or a may-alias of one (F4a, F4b); query methods assign no attribute; fitted model independent of the pre-state of the fitted attributes (refit cases with symbolic earlier state, F5); '
      'bookkeeping attributes assigned by every fit (F14); every random draw comes from check_random_state(self.random_state) and no unseeded solver start is used (F11); get_mahalanobis_matrix / initialisers return fresh arrays.',
      'trusted: npvc encoder; z3; aliasing facts of numpy operations (view / may-alias / fresh) in libspec; clone and pickle are scikit-learn / CPython (bounded histories only); known finding F17 (clone after pickle, deprecated aliases)',
      'ownership / frame / non-interference obligations on the symbolic executions of C03; ' + BOUNDED, ['clone / pickle and multi-step histories are explored by the stand-in only'])
claim('C20', 'other',
      'deductive: components_from_metric at the VALUE level -- for every symmetric positive semi-definite M the returned L satisfies L^T L = M on each of the three branches (diagonal shortcut: Lean diag_sqrt_clip_gram; '
      'Cholesky: numpy contract; eigh fallback: Lean eig_factor_gram_clip + eigh contract), in general L^T L is M with its negative eigenvalues clipped, non-symmetric => ValueError, the caller\'s tol reaches every sign test; '
      '_check_sdp_from_eigen exact (NonPSDError iff an eigenvalue < -tol, ValueError iff tol < 0, definite flag, dtype-aware default tolerance, an exactly zero eigenvalue is never definite -- F20); '
      '_pseudo_inverse_from_eig at the value level (spectrum inverted above the tolerance and exactly zero below, result V diag(w+) V^T; Penrose equations then by Lean pinv_from_eig_penrose); _auto_select_init (documented rule, exact); '
      '_initialize_metric_mahalanobis / _initialize_components at the shape, dtype, freshness (copies of user arrays), exception, strict-PD and seeding level for every option. '
      'The numerical statements (L^T L = M in floating point over 16 orders of magnitude, Penrose residuals) and the option meanings (covariance of the distinct points, pca/lda directions) are decided by the bounded stand-in over matrices of size 1..8, every rank.',
      'trusted: npvc encoder; z3; A-real; cholesky / eigh / np.cov / make_spd_matrix / PCA / LDA contracts (assumed); Lean theorems transcribed into SMT axioms', 'value-level contracts + case analysis + shape-level symbolic execution; ' + BOUNDED,
      ['meaning of the covariance / pca / lda options is checked at run time only (bounded)', 'A-real: floating-point conversion error is bounded only'])
claim('C10', 'other',
      'deductive, on the real fit bodies: NCA.fit / MLKR.fit hand scipy.optimize.minimize THEIR OWN _loss_grad_lbfgs / _loss (sign -1 for NCA, same-class mask from the prepared labels, (X, y) for MLKR), jac=True, '
      'started at the transformation returned by _initialize_components, and store the optimiser result reshaped to (k, d); LMNN: an iterate is accepted only when its objective is strictly lower than the last accepted one '
      '(loop invariant, hence accepted iterates are non-increasing), the returned L is the last accepted iterate, and with max_iter = 0 it is exactly the initialisation. '
      'That the value/gradient pair equals the documented objective and its derivative, and "never worse than the start", are decided by the bounded stand-in (independent O(n^2) objective + central differences).',
      'trusted: npvc encoder; z3; scipy L-BFGS-B (an assumed contract: returns an x of the shape of x0; with maxiter=0 it still performs one iteration, so the zero-iteration clause is stated for LMNN only); loss formulas run-time only',
      'ghost call log on the optimiser call + LMNN loop invariant / at-break clauses; ' + BOUNDED,
      ['objective / gradient formulas of NCA, MLKR, LMNN are checked at run time only (bounded, finite differences)', 'scipy.optimize.minimize is external'])
claim('C11', 'other',
      'deductive, on the real _BaseITML._fit body for every number of sweeps and every number of constraints: inductive invariants of the three loops -- the iterate A is positive definite '
      '(rank-one update with 1 + beta v^T A v > 0: Lean rank_one_posDef / posDef_quad_pos), every dual variable lambda_i >= 0, every slack-adjusted bound > 0 -- under the ghost hypotheses of the property '
      '(non-collapsed pairs, gamma > 0, positive bounds); the returned components_ come from that PD matrix. The inverse identity, KKT at convergence and the prior fixpoint are decided by the bounded stand-in.',
      'trusted: npvc encoder; z3 (nonlinear real arithmetic); A-real; matrix facts are Lean/Mathlib theorems transcribed into SMT axioms; covariance prior PD is a ghost hypothesis (full-rank data)',
      'loop invariants proved by induction on the real loop bodies; ' + BOUNDED,
      ['A-real: floats as reals', 'the inverse identity M^-1 - M0^-1 = sum y_i lambda_i v_i v_i^T and KKT-at-convergence are bounded only'])
claim('C13', 'other',
      'deductive, on the real _BaseSDML._fit body: the matrix handed to graphical_lasso is prior_inv + balance_param * (D^T * y) D with D the within-pair differences of the prepared pairs, alpha = sparsity_param; '
      'a matrix is returned only when the solver did not raise and the result is finite with no negative eigenvalue -- every other path leaves with RuntimeError (never a NaN/indefinite M). '
      'Optimality of the solver output (objective vs an independent solution) is decided by the bounded stand-in.',
      'trusted: npvc encoder; z3; scikit-learn graphical_lasso (external: its optimality is not verified, only how it is called and vetted); pinvh / eigh contracts (assumed)',
      'ghost call log on the solver call + exception-flow case analysis; ' + BOUNDED,
      ['graphical_lasso minimises its documented objective (external, bounded comparison only)'])
claim('C14', 'other',
      'deductive, on the real _BaseMMC._fit_full body for any number of cycles and projections: whenever a projection sweep is accepted the iterate is PSD (eigenvalue clipping, Lean clip_psd) and its similarity sum is '
      'within the 1% tolerance of the budget t = (initial similarity sum)/100; A_old -- the matrix returned -- is only overwritten by such an iterate, and iterations start from the matrix of _initialize_metric_mahalanobis. '
      'The diagonal variant (non-negative diagonal, ValueError instead of NaN), objective improvement and the numeric budget are decided by the bounded stand-in only.',
      'trusted: npvc encoder; z3; A-real; eigh contract (assumed); Lean clip_psd transcribed',
      'loop invariants (outer/inner) proved by induction on the real body; ' + BOUNDED,
      ['A-real: floats as reals', '"the last feasible iterate improved the dissimilar-pair objective" is bounded only'])
claim('C15', 'other',
      'deductive, on the real _BaseSCML._fit loop at a generic coordinate for every iteration count: the dual-averaging weights w are >= 0 after every update (soft-threshold then max(0, .)), the best checkpoint best_w is one of them, '
      'and _components_from_basis_weights builds a (<= d, d) transformation with a warning exactly in the low-rank case; M = sum w_i b_i b_i^T PSD follows by Lean basis_comb_psd. '
      'Which checkpoint is best, reproducibility for a seed and unit-norm generated bases are decided by the bounded stand-in (independent re-run of the documented scheme).',
      'trusted: npvc encoder; z3; A-real; rng / KMeans / LDA contracts (assumed)',
      'loop invariant + local invariant on the real loop; ' + BOUNDED,
      ['the checkpoint choice and the stochastic scheme itself are replayed at run time only (bounded)'])
claim('C19', 'other',
      'deductive (translation clause): a ghost abstract domain types every array as moving-with-the-points / invariant / unknown (rules: pos - pos = inv, cov / pairwise distance of pos = inv, ...; see npvc/ttype.py); '
      'on the real fit bodies of Covariance, ITML, MMC, SDML, LSML, SCML the stored components_ types as invariant on every path, loops included (the type is part of the loop-stability check). '
      'Translation for RCA/LFDA/LMNN/NCA/MLKR, swap, permutation, rotation and scaling are decided by the bounded stand-in (metamorphic runs of the real fits).',
      'trusted: npvc encoder; soundness of the typing rules (elementary algebra, stated in npvc/ttype.py); A-real (floating-point translation changes rounding: the stand-in uses tolerances)',
      'ghost type system over the symbolic execution of the real fits; ' + BOUNDED,
      ['swap / permutation / rotation / scaling relations are metamorphic run-time checks only (bounded)', 'translation for the five L-parameterised learners is bounded only'])
