"""Contracts of the input preparation shared by every fit: BaseMetricLearner._check_preprocessor / _prepare_inputs and
_util.ArrayIndexer (properties C03, C05, C17)."""
import z3

from npvc.contracts import *
from npvc.values import *
from npvc import theory as TH
import contracts as C
from .util_validators import callable_ref, FRESH_OWNER, ci_returns

ARRAYLIKE = lambda: AnyRef(types={'arraylike'})


def prep_param(kind):
  return {'none': NoneT(), 'callable': callable_ref(), 'arraylike': ARRAYLIKE()}[kind]


def indexer_ref(p_ref):
  return TH.indexer_of(p_ref)


# ------------------------------------------------------------------------------------------------ ArrayIndexer
register(Contract(
    '_util:ArrayIndexer.__call__',
    cases=[Case('idx', {'self': Obj('ArrayIndexer', {'X': Arr(2, owner=frozenset({('attr', 'X')}))}, closed=True), 'indices': Arr(1, 'i')}),
           Case('idx2', {'self': Obj('ArrayIndexer', {'X': Arr(2, owner=frozenset({('attr', 'X')}))}, closed=True), 'indices': Arr(2, 'i')})],
    ensures={'is-X[indices]': lambda a, r: z3.And(r.ndim == a.indices.ndim + 1, r.dim(0) == a.indices.dim(0),
                                                  r.dim(a.indices.st.shape.rank) == a.self.X.dim(1)),
             'fresh-copy': lambda a, r: z3.BoolVal(len(r.owner) == 0)},
    raises={'IndexError': May()},
    modifies=set(), prop=['C05']))
C.unit('C05', '_util:ArrayIndexer.__call__')


# ----------------------------------------------------------------------------------------- _check_preprocessor
def cp_cases():
  # `-used` cases: the estimator has been used before (C05 / C17: what it resolves indicators against must be ITS CURRENT preprocessor
  # parameter, whatever an earlier fit left in preprocessor_ -- set_params(preprocessor=...) between two uses is ordinary scikit-learn usage)
  earlier = {'indexer': lambda: Obj('ArrayIndexer', {'X': Arr(2, owner=frozenset({('attr', 'X')}))}, closed=True), 'other': lambda: AnyRef()}
  return [Case(k, {'self': Obj('Covariance', {'preprocessor': prep_param(k)}, closed=True)}) for k in ('none', 'callable', 'arraylike')] + \
         [Case('%s-used-%s' % (k, e), {'self': Obj('Covariance', {'preprocessor': prep_param(k), 'preprocessor_': mk()}, closed=True)})
          for k in ('none', 'callable', 'arraylike') for e, mk in earlier.items()] + \
         [Case('invalid', {'self': Obj('Covariance', {'preprocessor': AnyRef(types={'other'}, not_in=[None])}, closed=True)}, never_returns=True)]


def cp_kind(a):
  raw = a.self.raw('preprocessor')
  if isinstance(raw, VNone):
    return 'none'
  t = raw.types or set()
  return 'callable' if 'callable' in t else 'arraylike' if 'arraylike' in t else 'invalid'


def cp_ensures(a, r):
  kind = cp_kind(a)
  cur = a.self.raw('preprocessor_')
  if kind == 'none':
    return z3.BoolVal(isinstance(cur, VNone))
  if kind == 'callable':
    return (cur.t == a.self.preprocessor) if isinstance(cur, VRef) else z3.BoolVal(False)
  if kind == 'arraylike':
    # an ArrayIndexer wrapping the array-like -- built by THIS call from the current parameter (not an indexer left by an earlier use)
    return z3.BoolVal(isinstance(cur, VObj) and cur.cls == 'ArrayIndexer' and (a.old is None or cur.oid not in a.old))
  return None


def cp_returns(a, p, ex):
  obj = a.raw('self')
  kind = cp_kind(a)
  raw = a.self.raw('preprocessor')
  if kind == 'none':
    p.heap[obj.oid]['preprocessor_'] = VNone()
  elif kind == 'callable':
    p.heap[obj.oid]['preprocessor_'] = raw
  else:
    p.heap[obj.oid]['preprocessor_'] = VRef(indexer_ref(raw.t), {'callable'})
  p.events.append(('setattr', obj.oid, 'preprocessor_'))
  return VNone()


def cp_match(env, p):
  raw = p.heap[env['self'].oid].get('preprocessor')
  if isinstance(raw, VNone):
    return 'none'
  t = getattr(raw, 'types', None) or set()
  return 'callable' if 'callable' in t else 'arraylike' if 'arraylike' in t else 'invalid'


register(Contract(
    'base_metric:BaseMetricLearner._check_preprocessor',
    cases=cp_cases(), match=cp_match,
    ensures={'preprocessor_-is-None-/-the-callable-/-an-ArrayIndexer': cp_ensures,
             'other-types-are-never-accepted': lambda a, r: z3.BoolVal(cp_kind(a) != 'invalid')},
    # an array-like that scikit-learn cannot convert (ragged) is rejected by ArrayIndexer's check_array
    raises={'ValueError': OnlyIf(lambda a: z3.BoolVal(cp_kind(a) in ('invalid', 'arraylike')))},
    modifies={'preprocessor_'}, returns=Returns(cp_returns), prop=['C05', 'C17']))
C.unit('C05', 'base_metric:BaseMetricLearner._check_preprocessor')

# --------------------------------------------------------------------------------------------- _prepare_inputs
KW_VARIANTS = {
    'plain': {},
    'min2': {'ensure_min_samples': Int(0)},
    'float-min2': {'dtype': Opaque('dtype'), 'ensure_min_samples': Int(0)},
    'ynum-min2': {'y_numeric': Bool(), 'ensure_min_samples': Int(0)},
}


def pi_cases():
  out = []
  for toi, cls in (('classic', 'Covariance'), ('tuples', 'ITML'), ('tuples', 'SCML'), ('tuples', 'LSML')):
    for yn, ys in (('X', NoneT()), ('Xy', Arr(1, positive_dims=False))):
      for kv, kws in KW_VARIANTS.items():
        if toi == 'tuples' and kv != 'plain':
          continue
        if toi == 'classic' and kv == 'plain':
          continue
        if yn == 'X' and kv in ('float-min2', 'ynum-min2'):
          continue
        for prep in ('none', 'callable'):
          for hist in ('fresh', 'refit'):
            attrs = {'preprocessor': prep_param(prep)}
            if hist == 'refit':
              attrs['n_features_in_'] = Int(1)
              attrs['preprocessor_'] = AnyRef()
            if cls in ('SCML', 'LSML') and (yn == 'Xy' or prep != 'none' or hist != 'fresh'):
              continue
            out.append(Case('%s-%s-%s-%s-%s%s' % (toi, yn, kv, prep, hist, '' if cls in ('Covariance', 'ITML') else '-' + cls),
                            {'self': Obj(cls, attrs, closed=True), 'X': ArrSym(), 'y': ys, 'type_of_inputs': Str(toi),
                             'kwargs': DictOf(dict(kws))}))
  return out


def pi_match(env, p):
  h = p.heap[env['self'].oid]
  toi = env['type_of_inputs'].s
  yn = 'X' if isinstance(env['y'], VNone) else 'Xy'
  keys = set(env['kwargs'].d)
  kv = {frozenset(): 'plain', frozenset({'ensure_min_samples'}): 'min2', frozenset({'dtype', 'ensure_min_samples'}): 'float-min2',
        frozenset({'y_numeric', 'ensure_min_samples'}): 'ynum-min2'}.get(frozenset(keys))
  if kv is None:
    return None
  prep = 'none' if isinstance(h.get('preprocessor'), VNone) else 'callable'
  hist = 'refit' if 'n_features_in_' in h else 'fresh'
  return '%s-%s-%s-%s-%s' % (toi, yn, kv, prep, hist)       # the ITML-typed case stands for every tuple learner at call sites


_TS = {}


def tuple_size_of(cls):
  """the _tuple_size class attribute reached through the MRO of cls (read from the current source)"""
  if cls not in _TS:
    import ast
    from npvc.source import Program
    prog = Program()
    owner, node = prog.class_attr(cls, '_tuple_size')
    _TS[cls] = ast.literal_eval(node) if node is not None else None
  return _TS[cls]


def pi_data(a, r):
  return r if a.y is None else r[0]


def pi_rank(a):
  return 3 if a.type_of_inputs == 'tuples' else 2


def pi_min_samples(a):
  return a.kwargs.get('ensure_min_samples', z3.IntVal(1))


class _CIArgs:
  """adapter: lets the check_input Returns-builder be reused for _prepare_inputs"""
  def __init__(self, a):
    self._a = a
    self.type_of_inputs = a.type_of_inputs
    self.y = a.y

  def raw(self, k):
    return self._a.raw(k)


def pi_returns(a, p, ex):
  obj = a.raw('self')
  res = ci_returns(_CIArgs(a), p, ex)
  data = res if isinstance(res, VArr) else res.items[0]
  st = p.store[data.loc]
  # effects on self: preprocessor_ and (the property's reading) n_features_in_ = number of features of the points
  raw = p.heap[obj.oid].get('preprocessor')
  p.heap[obj.oid]['preprocessor_'] = VNone() if isinstance(raw, VNone) else (raw if 'callable' in (raw.types or ()) else VRef(indexer_ref(raw.t), {'callable'}))
  p.heap[obj.oid]['n_features_in_'] = VInt(st.shape.dims[-1])
  p.events.append(('setattr', obj.oid, 'preprocessor_'))
  p.events.append(('setattr', obj.oid, 'n_features_in_'))
  return res


def _pi_prep_current(a):
  raw = a.self.raw('preprocessor')
  cur = a.self.raw('preprocessor_')
  if raw is None or isinstance(raw, VNone):
    return z3.BoolVal(isinstance(cur, VNone))
  if 'callable' in (getattr(raw, 'types', None) or ()):
    return (cur.t == raw.t) if isinstance(cur, VRef) else z3.BoolVal(False)
  # array-like: an ArrayIndexer object that did not exist when the call started, or the contract-level indexer of the parameter
  if isinstance(cur, VObj):
    return z3.BoolVal(cur.cls == 'ArrayIndexer' and (a.old is None or cur.oid not in a.old))
  return (cur.t == indexer_ref(raw.t)) if isinstance(cur, VRef) else z3.BoolVal(False)


register(Contract(
    'base_metric:BaseMetricLearner._prepare_inputs',
    cases=pi_cases(), match=pi_match,
    ensures={
        'formed-rank': lambda a, r: pi_data(a, r).ndim == pi_rank(a),
        'min-samples': lambda a, r: pi_data(a, r).dim(0) >= pi_min_samples(a),
        'min-features': lambda a, r: pi_data(a, r).dim(pi_rank(a) - 1) >= 1,
        'tuple-size': lambda a, r: None if a.type_of_inputs != 'tuples' else pi_data(a, r).dim(1) == tuple_size_of(a.self.cls),
        'formed-input-returned-as-is': lambda a, r: z3.Implies(a.X.ndim == pi_rank(a), z3.And(
            pi_data(a, r).term == a.X.term, *[pi_data(a, r).dim(k) == a.X.dim(k) for k in range(pi_rank(a))])),
        'labels-kept': lambda a, r: None if a.y is None else z3.And(r[1].term == a.y.term,
                                                                  z3.Implies(a.X.ndim == pi_rank(a), r[1].dim(0) == r[0].dim(0))),
        'pair-labels-are-plus-minus-one': lambda a, r: None if (a.y is None or a.type_of_inputs != 'tuples') else
            TH.array_equal(TH.absT(r[1].term), TH.ones_like(r[1].term)),
        # C05 / C06 / C17: what later calls resolve indicators with is derived from the CURRENT `preprocessor` parameter by this very call
        # (None -> None, callable -> that callable, array-like -> an indexer built now), whatever an earlier use left in preprocessor_
        'preprocessor_-reflects-the-current-parameter': lambda a, r: _pi_prep_current(a),
        # C03 / C17: n_features_in_ = number of features of the points seen by THIS fit
        'n_features_in_-is-feature-count-of-this-fit': lambda a, r: a.self.n_features_in_ == pi_data(a, r).dim(pi_rank(a) - 1),
    },
    raises={'ValueError': May(),
            'PreprocessorError': OnlyIf(lambda a: z3.BoolVal(False) if a.self.raw('preprocessor') is None or isinstance(a.self.raw('preprocessor'), VNone)
                                        else a.X.ndim == pi_rank(a) - 1)},
    modifies={'preprocessor_', 'n_features_in_'},
    returns=Returns(pi_returns), prop=['C03', 'C05', 'C17']))
C.unit('C03', 'base_metric:BaseMetricLearner._prepare_inputs')


# ---- translation typing (C19): the prepared data has the type of the data passed in (validation does not move points)
from npvc import ttype as _TT


def _prep_tt(env, p, res):
  t = _TT.tt_of(p, env['X'])
  if isinstance(res, VTuple):
    _TT.set_tt(p, res.items[0], t)
    _TT.set_tt(p, res.items[1], _TT.tt_of(p, env['y']))
  else:
    _TT.set_tt(p, res, t)


REGISTRY['base_metric:BaseMetricLearner._prepare_inputs'].tt_rule = _prep_tt
