"""C15 -- SCML: the weights of the dual-averaging scheme are non-negative at every iteration, hence so are the weights of the
best checkpoint handed to the components builder (so M = sum_i w_i b_i b_i^T is PSD by the Lean lemma basis_comb_psd).
Proved on the real _BaseSCML._fit loop at a generic coordinate (nonlinear real arithmetic)."""
import z3

from npvc.contracts import *
from npvc.values import *
from npvc import theory as TH
import contracts as C
from .loops import invariant, assume_at_head, local_invariant

T_ = 'scml:_BaseSCML._fit'
J = z3.Int('j!w')
OVER = 'range(self.max_iter)'


def nonneg_row(t):
  return z3.ForAll([J], TH.at2(t, 0, J) >= 0, patterns=[TH.at2(t, 0, J)])


from .loops import find_loop
ORD = find_loop(T_, OVER)


@invariant(T_, ORD, OVER)
def _w_nonneg(v, head):
  return z3.And(nonneg_row(v.w.term), nonneg_row(v.ada_grad_w.term))


@local_invariant(T_, ORD, OVER)
def _best_nonneg(v):
  if not v.has('best_w'):
    return None
  return nonneg_row(v.best_w.term)


@assume_at_head(T_, ORD, OVER, 'gamma > 0 (documented range of the learning-rate parameter)')
def _gamma_pos(v):
  return v.self.gamma > 0


def _cbw_active(a):
  loc = getattr(a.path, 'final_locals', {})
  B, w = loc.get('basis'), loc.get('w')
  if not isinstance(B, VArr) or not isinstance(w, VArr):
    return None, None
  return a.path.store[B.loc], a.path.store[w.loc]


def _cbw_rows(a, r):
  B, w = _cbw_active(a)
  if B is None:
    return z3.BoolVal(False)
  nb, d = B.shape.dims[0], a.basis.dim(1)
  return r.dim(0) == z3.If(nb < d, nb, d)


def _cbw_value(a, r):
  B, w = _cbw_active(a)
  if B is None or B.term is None or w.term is None or r.term is None:
    return z3.BoolVal(False)
  low = TH.rowscale(B.term, TH.sqrtT(TH.tr(w.term)))
  full = TH.cfm(TH.mm(TH.tr(B.term), TH.rowscale(B.term, TH.tr(w.term))))
  return z3.BoolVal(True) if (r.term.eq(low) or r.term.eq(full)) else PatternMismatch('result vs diag(sqrt(w)) B / conversion of B^T diag(w) B')


CBW = 'scml:_BaseSCML._components_from_basis_weights'
register(Contract(
    CBW,
    cases=[Case('w', {'self': Obj('SCML', {}, closed=True), 'basis': Arr(2, dims=['nb', 'd']), 'w': Arr(2, dims=[1, 'nb'])},
                pre=lambda a: nonneg_row(a.w.term))],
    ensures={'shape': lambda a, r: z3.And(r.ndim == 2, r.dim(1) == a.basis.dim(1), r.dim(0) <= a.basis.dim(1)),
             'fresh': lambda a, r: z3.BoolVal(len(r.owner) == 0),
             # "when fewer than n_features basis elements are active the transformation has THAT MANY rows"
             'one-row-per-active-basis-element-when-low-rank': body_only(lambda a, r: _cbw_rows(a, r)),
             # M = sum_i w_i b_i b_i^T over the active elements: low rank L = diag(sqrt(w)) B (Lean basis_comb_factor: L^T L = B^T diag(w) B);
             # full rank L = components_from_metric(B^T diag(w) B) (C20 contract: L^T L = that matrix)
             'transformation-factors-the-weighted-combination-of-the-active-basis': body_only(lambda a, r: _cbw_value(a, r))},
    events={'low-rank-only-with-warning': lambda a, ev, r: z3.Implies(r.dim(0) < r.dim(1), z3.BoolVal(any(e[0] == 'warn' for e in ev)))},
    raises={'ValueError': May(), 'NonPSDError': May(), 'LinAlgError': May()},
    returns=Returns(lambda a, p, ex: cbw_returns(a, p)),
    modifies=set(), prop=['C15', 'C03']))


def cbw_returns(a, p):
  k = fresh('k', z3.IntSort())
  d = a.basis.dim(1)
  p.assume(k >= 0)
  p.assume(k <= d)
  warn = fresh('warned', z3.BoolSort())
  p.assume(z3.Implies(k < d, warn))
  return p.new_loc(ArrState(fresh('L', T), Shape(2, [k, d]), 'f', frozenset()))


if 'C15' not in REGISTRY[T_].prop:
  REGISTRY[T_].prop.append('C15')
