"""C09 (deductive part): the closed-form learners hand the documented matrix to the conversion.
Covariance: components_ = components_from_metric(M) with M = pinv(Cov(X')) (1 / Cov for a single feature), X' the prepared points
-- together with the value-level contract of components_from_metric (L^T L = M for symmetric PSD M) this is the documented formula.
RCA: the whitening helper _inv_sqrtm(x) is V diag(1/sqrt(w)) V^T for (w, V) = eigh(x) (so S x S^T = I by Lean inv_sqrtm_whitens), and in the
full-rank case components_ is _inv_sqrtm of the within-chunk covariance of the chunk-centred data."""
import z3

from npvc.contracts import *
from npvc.values import *
from npvc import theory as TH
import contracts as C
from .supervised_calls import calls


def _prepared(a, ev):
  prep = calls(ev, 'base_metric:BaseMetricLearner._prepare_inputs')
  if len(prep) != 1:
    return None
  res = prep[0][3]
  X = res.items[0] if isinstance(res, VTuple) else res
  return a.path.store[X.loc].term


def _cov_formula(a, ev, r):
  cf = calls(ev, '_util:components_from_metric')
  Xt = _prepared(a, ev)
  if len(cf) != 1 or Xt is None:
    return z3.BoolVal(False)
  m = cf[0][2]['metric']
  mt = a.path.store[m.loc].term if isinstance(m, VArr) else None
  if mt is None:
    return z3.BoolVal(False)
  cov = TH.cov(Xt)
  ok = any(mt.eq(x) for x in (TH.pinv(cov), TH.sdivl(z3.RealVal(1), TH.atleast2d(cov)), TH.sdivl(z3.RealVal(1), cov), TH.pinv(TH.atleast2d(cov))))
  return z3.BoolVal(True) if ok else PatternMismatch('matrix converted vs pinv(cov(X))')


def _components_are_the_conversion(a, ev, r):
  cf = calls(ev, '_util:components_from_metric')
  if len(cf) != 1:
    return z3.BoolVal(False)
  comp = a.self.raw('components_')
  return z3.BoolVal(isinstance(comp, VArr) and isinstance(cf[0][3], VArr) and comp.loc == cf[0][3].loc)


con = REGISTRY['covariance:Covariance.fit']
con.events['metric-is-the-pseudo-inverse-of-the-covariance-of-the-prepared-points'] = _cov_formula
con.events['components_-is-the-conversion-of-that-matrix'] = _components_are_the_conversion
C.unit('C09', 'covariance:Covariance.fit')


# ------------------------------------------------------------------------------------------------------------ RCA
def isq(C_):
  """spec function: the symmetric inverse square root  V diag(1/sqrt(w)) V^T  of C for (w, V) = eigh(C); Lean inv_sqrtm_whitens:
  for symmetric positive definite C,  isq(C) C isq(C)^T = I  and  C (isq(C)^T isq(C)) = I"""
  return TH.mm(TH.coldiv(TH.eigvecs(C_), TH.sqrtT(TH.eigvals(C_))), TH.tr(TH.eigvecs(C_)))


def _rca_whitens(a, r):
  """components_ = W^(-1/2) of the average within-chunk covariance W (bias=1 covariance of the chunk-centred data); after reduction
  components_ = (A^T W A)^(-1/2) A^T for the retained directions A -- hence L W L^T = I in both cases (Lean inv_sqrtm_whitens)"""
  env = getattr(a.path, 'final_locals', {})
  cd = env.get('chunked_data')
  comp = a.self.raw('components_')
  if not isinstance(cd, VArr) or not isinstance(comp, VArr):
    return z3.BoolVal(False)
  ct = a.path.store[comp.loc].term
  cdt = a.path.store[cd.loc].term
  if ct is None or cdt is None:
    return z3.BoolVal(False)
  W = TH.covb(cdt)
  alts = []
  for Wv in (W, TH.atleast2d(W)):
    alts += [isq(Wv), TH.tr(isq(Wv))]          # the inverse square root is symmetric: with or without .T
    A = env.get('A')
    if isinstance(A, VArr) and a.path.store[A.loc].term is not None:
      At = a.path.store[A.loc].term
      R = TH.mm(TH.mm(TH.tr(At), Wv), At)
      alts += [TH.mm(isq(R), TH.tr(At)), TH.mm(isq(TH.atleast2d(R)), TH.tr(At))]
  # decided syntactically (hash-consed terms): the executor builds exactly these terms from the real body, no solver search needed
  return z3.BoolVal(True) if any(ct.eq(x) for x in alts) else PatternMismatch('components_ vs inverse square root of the within-chunk covariance')


rc = REGISTRY['rca:RCA.fit']
rc.ensures['components_-whiten-the-within-chunk-covariance'] = body_only(_rca_whitens)
C.unit('C09', 'rca:RCA.fit')


def _rca_every_chunk_centred(a, ev, r):
  """the centring loop visits EVERY chunk id 0 .. max(chunks) (ids need not be contiguous: a chunk whose id is never visited keeps its
  between-chunk offset, which then enters the 'within-chunk' covariance)"""
  env = getattr(a.path, 'final_locals', {})
  ch = env.get('chunks')
  lc = [e for e in ev if e[0] == 'loop-count' and e[1] == 'rca:_chunk_mean_centering' and e[2] == 0]
  if not isinstance(ch, VArr) or a.path.store[ch.loc].term is None or len(lc) != 1:
    return z3.BoolVal(False)
  return lc[0][3] >= z3.ToInt(TH.vmax(a.path.store[ch.loc].term)) + 1


rc.events['centring-loop-visits-every-chunk-id'] = _rca_every_chunk_centred
