"""C11 -- ITML: loop invariants of the cyclic Bregman projections, proved on the real _BaseITML._fit body for every number of
sweeps: the iterate A stays (symmetric) positive definite, all dual variables stay >= 0 and all slack-adjusted bounds stay > 0.
(Scalars are z3 reals -- nonlinear real arithmetic; the matrix facts are the Lean lemmas posDef_quad_pos / rank_one_posDef.)
Convergence => KKT and the inverse identity  M^-1 = M0^-1 + sum_i y_i lambda_i v_i v_i^T  are decided by the bounded stand-in."""
import z3

from npvc.contracts import *
from npvc.values import *
from npvc import theory as TH
import contracts as C
from .loops import invariant, assume_at_head

T_ = 'itml:_BaseITML._fit'
J = z3.Int('j!inv')


def forall_j(body, pat):
  return z3.ForAll([J], body, patterns=[pat])


def itml_inv(v, head):
  lam, pb, nb = v._lambda.term, v.pos_bhat.term, v.neg_bhat.term
  return z3.And(TH.pd(v.A.term),
                forall_j(TH.at1(lam, J) >= 0, TH.at1(lam, J)),
                forall_j(TH.at1(pb, J) > 0, TH.at1(pb, J)),
                forall_j(TH.at1(nb, J) > 0, TH.at1(nb, J)))


def itml_ghost(v):
  """the property's quantifier: non-collapsed pairs (every constraint difference vector is non-zero), gamma > 0"""
  i = z3.Int('i!g')
  facts = [z3.ForAll([i], TH.nonzero(TH.row(v.pos_vv.term, i)), patterns=[TH.row(v.pos_vv.term, i)]),
           z3.ForAll([i], TH.nonzero(TH.row(v.neg_vv.term, i)), patterns=[TH.row(v.neg_vv.term, i)])]
  g = v.gamma
  if z3.is_expr(g):
    facts.append(g > 0)
  if v.self.prior == 'covariance':
    # for prior='covariance' the positive definiteness of the pseudo-inverse covariance is a ghost hypothesis (strict_pd=True makes
    # _initialize_metric_mahalanobis raise LinAlgError otherwise; the PD of the matrix it then returns is not under a value-level contract)
    facts.append(TH.pd(v.A.term) if v.has('A') and not v.has('it') else z3.BoolVal(True))
  return z3.And(*facts)


for ordinal, over in ((0, 'range(self.max_iter)'), (1, 'enumerate(pos_vv)'), (2, 'enumerate(neg_vv)')):
  invariant(T_, ordinal, over)(itml_inv)
  assume_at_head(T_, ordinal, over, 'pairs are not collapsed (difference vectors non-zero) and gamma > 0 (documented range)')(itml_ghost)

# the property's postcondition on the learned matrix: what components_from_metric receives is positive definite
con = REGISTRY[T_]


def _final_matrix_pd(a, ev, r):
  from .supervised_calls import calls
  cf = calls(ev, '_util:components_from_metric')
  if len(cf) != 1:
    return z3.BoolVal(False)
  m = cf[0][2]['metric']
  return TH.pd(a.path.store[m.loc].term)


con.events['learned-matrix-is-positive-definite'] = _final_matrix_pd
if 'C11' not in con.prop:
  con.prop.append('C11')
