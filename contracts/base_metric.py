"""Contracts of metric_learn/base_metric.py: MahalanobisMixin and the tuple-classifier mixins
(properties C01, C02, C04, C05, C06, C16-validation, C17-escapes, C18-fitted-guard).

Top-level postconditions are taken from the property statements:
  d_L(x, y) = || L (x - y) ||_2   (spec function `mdist`, whose metric axioms are Lean theorems)
  M = L^T L                         (spec function `gram`)
"""
import z3

from npvc.contracts import *
from npvc.values import *
from npvc import theory as TH
import contracts as C
from .util_validators import callable_ref, FRESH_OWNER

I_ = z3.Int('i!gen')


def forall_i(n, body_fn, pat_fn):
  i = I_
  return z3.ForAll([i], z3.Implies(z3.And(i >= 0, i < n), body_fn(i)), patterns=[pat_fn(i)])


def self_spec(cls, prep='none', fitted=True, threshold=True, extra=None):
  attrs = {'preprocessor': AnyRef()}
  if fitted:
    attrs['preprocessor_'] = NoneT() if prep == 'none' else callable_ref()
    attrs['components_'] = Arr(2, owner=frozenset({('attr', 'components_')}), dims=['k', 'd'])
    attrs['n_features_in_'] = Int(1)
    if threshold:
      attrs['threshold_'] = Real()
  attrs.update(extra or {})
  return Obj(cls, attrs, closed=True)


def fitted(a):
  return a.self.has('components_') and a.self.has('preprocessor_')


def pt(P, i, j):
  """point j of tuple i of a rank-3 array term"""
  return TH.row(TH.row(P, i), j)


def data_term(a, name, formed_rank):
  """value of the validated data argument as the validators' contract gives it"""
  x = getattr(a, name)
  prep = a.self.preprocessor_ if a.self.has('preprocessor_') else None
  return x, prep


def formed_or_indices(a, name, formed_rank, fn):
  """clause body `fn(data_term)` stated for both representations of the data argument"""
  x = getattr(a, name)
  prep = a.self.preprocessor_
  out = [z3.Implies(x.ndim == formed_rank, fn(x.term))]
  if prep is not None:
    formed = TH.ptuples(prep, x.term) if formed_rank == 3 else TH.papply(prep, x.term)
    out.append(z3.Implies(x.ndim == formed_rank - 1, fn(formed)))
  return z3.And(*out)


def std_raises(name, formed_rank):
  return {'ValueError': May(),
          'NotFittedError': Iff(lambda a: z3.BoolVal(not fitted(a))),
          'PreprocessorError': OnlyIf(lambda a: z3.BoolVal(False) if (not fitted(a) or a.self.preprocessor_ is None)
                                      else getattr(a, name).ndim == formed_rank - 1)}


def vec_result(a, p, ex):
  n = fresh('n', z3.IntSort())
  p.assume(n >= 1)
  return p.new_loc(ArrState(fresh('res', T), Shape(1, [n]), 'f', FRESH_OWNER))


def cases(cls, argname, threshold=True):
  return [Case('fitted-noprep', {'self': self_spec(cls, 'none', True, threshold), argname: ArrSym()}),
          Case('fitted-prep', {'self': self_spec(cls, 'callable', True, threshold), argname: ArrSym()}),
          Case('unfitted', {'self': self_spec(cls, 'none', False), argname: ArrSym()}),
          # a fit that raised after preparing its inputs leaves preprocessor_ behind but no learned transformation: still not fitted
          Case('fit-failed', {'self': self_spec(cls, 'none', False, extra={'preprocessor_': NoneT(), 'n_features_in_': Int(1)}), argname: ArrSym()})]


def match_fitted(env, p):
  h = p.heap[env['self'].oid]
  if 'components_' not in h or 'preprocessor_' not in h:
    return 'unfitted'
  return 'fitted-noprep' if isinstance(h['preprocessor_'], VNone) else 'fitted-prep'


# ---------------------------------------------------------------------------------------------- transform
def transform_returns(a, p, ex):
  n = fresh('n', z3.IntSort())
  p.assume(n >= 1)
  return p.new_loc(ArrState(fresh('emb', T), Shape(2, [n, a.self.components_.dim(0)]), 'f', FRESH_OWNER))


register(Contract(
    'base_metric:MahalanobisMixin.transform',
    cases=cases('Covariance', 'X'), match=match_fitted,
    ensures={
        # C02: transform is the linear map X -> X L^T
        'is-X-Lt': lambda a, r: None if not fitted(a) else
            formed_or_indices(a, 'X', 2, lambda x: r.term == TH.mm(x, TH.tr(a.self.components_.term))),
        # C03: (n, d) -> (n, k)
        'shape': lambda a, r: None if not fitted(a) else z3.And(
            r.ndim == 2, r.dim(1) == a.self.components_.dim(0), z3.Implies(a.X.ndim == 2, r.dim(0) == a.X.dim(0))),
        'fresh': lambda a, r: None if not fitted(a) else z3.BoolVal(len(r.owner) == 0),
    },
    raises=std_raises('X', 2),
    modifies=set(),
    returns=Returns(transform_returns),
    prop=['C02', 'C03', 'C05', 'C06', 'C17', 'C18']))
C.unit('C02', 'base_metric:MahalanobisMixin.transform')


# ------------------------------------------------------------------------------------------- pair_distance
def dist_clause(a, r, sign=1):
  L = a.self.components_.term
  return formed_or_indices(a, 'pairs', 3, lambda P: forall_i(
      r.dim(0), lambda i: TH.at1(r.term, i) == sign * TH.mdist(L, pt(P, i, 0), pt(P, i, 1)), lambda i: TH.at1(r.term, i)))


def batch_shape(a, r, name='pairs'):
  return z3.And(r.ndim == 1, z3.Implies(getattr(a, name).ndim == 3, r.dim(0) == getattr(a, name).dim(0)))


register(Contract(
    'base_metric:MahalanobisMixin.pair_distance',
    cases=cases('Covariance', 'pairs'), match=match_fitted,
    ensures={
        # C01/C02: result[i] = d_L(pairs[i,0], pairs[i,1]) = ||L (p0 - p1)||
        'is-mahalanobis-distance': lambda a, r: None if not fitted(a) else dist_clause(a, r),
        'shape': lambda a, r: None if not fitted(a) else batch_shape(a, r),
    },
    raises=std_raises('pairs', 3), modifies=set(), returns=Returns(vec_result),
    prop=['C01', 'C02', 'C05', 'C06', 'C17', 'C18']))
C.unit('C01', 'base_metric:MahalanobisMixin.pair_distance')
C.unit('C02', 'base_metric:MahalanobisMixin.pair_distance')

register(Contract(
    'base_metric:MahalanobisMixin.pair_score',
    cases=cases('Covariance', 'pairs'), match=match_fitted,
    ensures={
        # C01: pair_score is exactly the negated distance
        'is-negated-distance': lambda a, r: None if not fitted(a) else dist_clause(a, r, sign=-1),
        'shape': lambda a, r: None if not fitted(a) else batch_shape(a, r),
    },
    raises=std_raises('pairs', 3), modifies=set(), returns=Returns(vec_result),
    prop=['C01', 'C04', 'C17', 'C18']))
C.unit('C01', 'base_metric:MahalanobisMixin.pair_score')


def warned_future(a, events, r):
  return z3.BoolVal(any(e[0] == 'warn' and e[1] == 'FutureWarning' for e in events))


register(Contract(
    'base_metric:MahalanobisMixin.score_pairs',
    cases=cases('Covariance', 'pairs'), match=match_fitted,
    ensures={'is-mahalanobis-distance': lambda a, r: None if not fitted(a) else dist_clause(a, r),
             'shape': lambda a, r: None if not fitted(a) else batch_shape(a, r)},
    events={'FutureWarning': warned_future},
    raises=std_raises('pairs', 3), modifies=set(), returns=Returns(vec_result),
    prop=['C02']))
C.unit('C02', 'base_metric:MahalanobisMixin.score_pairs')

# ------------------------------------------------------------------------------------ get_mahalanobis_matrix
register(Contract(
    'base_metric:MahalanobisMixin.get_mahalanobis_matrix',
    cases=[Case('fitted', {'self': self_spec('Covariance')}), Case('unfitted', {'self': self_spec('Covariance', fitted=False)})],
    match=lambda env, p: 'fitted' if 'components_' in p.heap[env['self'].oid] else 'unfitted',
    ensures={
        'is-Lt-L': lambda a, r: None if not fitted(a) else r.term == TH.gram(a.self.components_.term),
        'shape': lambda a, r: None if not fitted(a) else z3.And(r.ndim == 2, r.dim(0) == a.self.components_.dim(1),
                                                              r.dim(1) == a.self.components_.dim(1)),
        # C17: a new array, so mutating it cannot touch the model
        'fresh': lambda a, r: None if not fitted(a) else z3.BoolVal(len(r.owner) == 0),
    },
    raises={'NotFittedError': Iff(lambda a: z3.BoolVal(not a.self.has('components_')))},
    modifies=set(),
    returns=Returns(lambda a, p, ex: p.new_loc(ArrState(TH.gram(a.self.components_.term),
                                                         Shape(2, [a.self.components_.dim(1)] * 2), 'f', FRESH_OWNER))),
    prop=['C02', 'C17', 'C18']))
C.unit('C02', 'base_metric:MahalanobisMixin.get_mahalanobis_matrix')

# ---------------------------------------------------------------------------------- get_metric / metric_fun
_vecs = dict(u=Arr(1, dims=['d']), v=Arr(1, dims=['d']))     # well-formed query points: n_features entries each
mf = Contract(
    'base_metric:MahalanobisMixin.get_metric.metric_fun',
    cases=[Case('plain', dict(_vecs, squared=Const(VBool(False)))),
           Case('squared', dict(_vecs, squared=Const(VBool(True))))],
    ensures={
        'is-mahalanobis-distance': lambda a, r: (r == TH.mdist(a.self.components_.term, a.u.term, a.v.term))
            if z3.is_false(a.squared) else None,
        # squared: (u - v) M (u - v)^T with M = L^T L
        'is-squared-form': lambda a, r: (r == TH.qform(TH.gram(a.self.components_.term), TH.sub(a.u.term, a.v.term)))
            if z3.is_true(a.squared) else None,
        'squared-is-square-of-plain': lambda a, r: (r == TH.mdist(a.self.components_.term, a.u.term, a.v.term) *
                                                    TH.mdist(a.self.components_.term, a.u.term, a.v.term)) if z3.is_true(a.squared) else None,
    },
    raises={},
    returns=Returns(lambda a, p, ex: VReal(fresh('dist', z3.RealSort()))),
    prop=['C01', 'C02', 'C17'])
mf.outer = ('base_metric:MahalanobisMixin.get_metric', {'self': self_spec('Covariance')})
register(mf)
C.unit('C01', 'base_metric:MahalanobisMixin.get_metric.metric_fun')
C.unit('C02', 'base_metric:MahalanobisMixin.get_metric.metric_fun')

register(Contract(
    '_util:validate_vector',
    cases=[Case('vec', dict(u=Arr(1), dtype=NoneT()))],
    ensures={'same': lambda a, r: z3.And(r.term == a.u.term, r.ndim == 1, r.dim(0) == a.u.dim(0))},
    raises={},
    returns=Returns(lambda a, p, ex: p.new_loc(ArrState(a.u.term, Shape(1, [a.u.dim(0)]), 'f', a.u.owner))),
    prop=['C06'],
    notes='verified for 1-D input (the closure contract passes vectors); rank > 1 raises ValueError in the body'))
