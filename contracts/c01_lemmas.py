"""C01 / C02 property lemmas: contracts |= the property statement; and the exact (IEEE) identities proved over the
terms extracted from the real bodies with the sign-symmetry axiom subset only."""
import z3

from npvc.contracts import *
from npvc.exec import Path
from npvc.values import *
from npvc import theory as TH
import contracts as C
from .helpers import instantiate, ob
from .base_metric import self_spec, pt, I_

PD = 'base_metric:MahalanobisMixin.pair_distance'
PS = 'base_metric:MahalanobisMixin.pair_score'
MF = 'base_metric:MahalanobisMixin.get_metric.metric_fun'
TR = 'base_metric:MahalanobisMixin.transform'
GM = 'base_metric:MahalanobisMixin.get_mahalanobis_matrix'
SP = 'base_metric:MahalanobisMixin.score_pairs'


def setup():
  p = Path()
  s = self_spec('Covariance').make('self', p, None)
  return p, s


def pairs_arr(p, name):
  return Arr(3, dims=['n', 2, 'd']).make(name, p, None)


@C.lemma('C01.pair_distance-is-a-pseudo-metric', 'C01', uses=[PD])
def _pd_metric(prog):
  """for every fitted estimator and all pair batches: d >= 0, d(x,x) = 0, d(x,y) = d(y,x), d(x,z) <= d(x,y) + d(y,z)"""
  out = []
  p, s = setup()
  Pxy, Pyx, Pyz, Pxz = [pairs_arr(p, n) for n in ('Pxy', 'Pyx', 'Pyz', 'Pxz')]
  res = {}
  for nm, P in (('xy', Pxy), ('yx', Pyx), ('yz', Pyz), ('xz', Pxz)):
    a, r, _ = instantiate(PD, 'fitted-noprep', p, given={'self': s, 'pairs': P})
    res[nm] = (a, r)
  i = z3.Int('i')
  n = res['xy'][1].dim(0)
  p.assume(i >= 0)
  p.assume(i < n)
  for nm in res:
    p.assume(res[nm][1].dim(0) == n)
  t = {nm: p.store[P.loc].term for nm, P in (('xy', Pxy), ('yx', Pyx), ('yz', Pyz), ('xz', Pxz))}
  x, y, z = pt(t['xy'], i, 0), pt(t['xy'], i, 1), pt(t['yz'], i, 1)
  p.assume(pt(t['yx'], i, 0) == y)
  p.assume(pt(t['yx'], i, 1) == x)
  p.assume(pt(t['yz'], i, 0) == y)
  p.assume(pt(t['xz'], i, 0) == x)
  p.assume(pt(t['xz'], i, 1) == z)
  d = {nm: TH.at1(res[nm][1].term, i) for nm in res}
  out.append(ob('C01/lemma/pair_distance/non-negative', p, d['xy'] >= 0))
  out.append(ob('C01/lemma/pair_distance/symmetric', p, d['xy'] == d['yx']))
  out.append(ob('C01/lemma/pair_distance/triangle', p, d['xz'] <= d['xy'] + d['yz']))
  q = p.fork()
  q.assume(x == y)
  out.append(ob('C01/lemma/pair_distance/zero-on-identical-points', q, d['xy'] == 0))
  return out


@C.lemma('C01.get_metric-is-a-pseudo-metric', 'C01', uses=[MF])
def _mf_metric(prog):
  out = []
  p, s = setup()
  u, v, w = [Arr(1, dims=['d']).make(n, p, None) for n in 'uvw']
  def m(x, y, case='plain'):
    a, r, _ = instantiate(MF, case, p, given={'self': s, 'u': x, 'v': y})
    return r
  duv, dvu, dvw, duw, duu = m(u, v), m(v, u), m(v, w), m(u, w), m(u, u)
  out.append(ob('C01/lemma/get_metric/non-negative', p, duv >= 0))
  out.append(ob('C01/lemma/get_metric/symmetric', p, duv == dvu))
  out.append(ob('C01/lemma/get_metric/triangle', p, duw <= duv + dvw))
  out.append(ob('C01/lemma/get_metric/zero-on-identical-points', p, duu == 0))
  sq_ = m(u, v, 'squared')
  out.append(ob('C02/lemma/get_metric/squared-is-square-and-non-negative', p, z3.And(sq_ == duv * duv, sq_ >= 0)))
  return out


@C.lemma('C01.pair_score-is-negated-distance', 'C01', uses=[PD, PS])
def _ps(prog):
  p, s = setup()
  P = pairs_arr(p, 'P')
  a1, r1, _ = instantiate(PD, 'fitted-noprep', p, given={'self': s, 'pairs': P})
  a2, r2, _ = instantiate(PS, 'fitted-noprep', p, given={'self': s, 'pairs': P})
  i = z3.Int('i')
  p.assume(i >= 0)
  p.assume(i < r1.dim(0))
  p.assume(r2.dim(0) == r1.dim(0))
  return [ob('C01/lemma/pair_score-equals-minus-pair_distance', p, TH.at1(r2.term, i) == -TH.at1(r1.term, i))]


@C.lemma('C02.all-views-agree', 'C02', uses=[PD, MF, TR, GM, SP])
def _views(prog):
  """pair_distance(x,x') = get_metric()(x,x') = ||transform(x) - transform(x')|| = sqrt((x-x')^T M (x-x')) = score_pairs"""
  out = []
  p, s = setup()
  P = pairs_arr(p, 'P')
  Pt = p.store[P.loc].term
  a, rd, _ = instantiate(PD, 'fitted-noprep', p, given={'self': s, 'pairs': P})
  a, rs, _ = instantiate(SP, 'fitted-noprep', p, given={'self': s, 'pairs': P})
  i = z3.Int('i')
  n = rd.dim(0)
  p.assume(i >= 0)
  p.assume(i < n)
  p.assume(rs.dim(0) == n)
  x, y = pt(Pt, i, 0), pt(Pt, i, 1)
  u = p.new_loc(ArrState(x, Shape(1, [z3.Int('d')]), 'f'))
  v = p.new_loc(ArrState(y, Shape(1, [z3.Int('d')]), 'f'))
  _, m_uv, _ = instantiate(MF, 'plain', p, given={'self': s, 'u': u, 'v': v})
  _, m2_uv, _ = instantiate(MF, 'squared', p, given={'self': s, 'u': u, 'v': v})
  _, M, _ = instantiate(GM, 'fitted', p, given={'self': s})
  d_i = TH.at1(rd.term, i)
  out.append(ob('C02/lemma/pair_distance=get_metric', p, d_i == m_uv))
  out.append(ob('C02/lemma/pair_distance=score_pairs', p, d_i == TH.at1(rs.term, i)))
  out.append(ob('C02/lemma/pair_distance^2=(x-y)M(x-y)', p, d_i * d_i == TH.qform(M.term, TH.sub(x, y))))
  out.append(ob('C02/lemma/squared-metric=(x-y)M(x-y)', p, m2_uv == TH.qform(M.term, TH.sub(x, y))))
  # embedding view: rows of transform(X0), transform(X1) for the column arrays of P
  X0 = p.new_loc(ArrState(TH.take1(Pt, 0), Shape(2, [z3.Int('n'), z3.Int('d')]), 'f'))
  X1 = p.new_loc(ArrState(TH.take1(Pt, 1), Shape(2, [z3.Int('n'), z3.Int('d')]), 'f'))
  _, E0, _ = instantiate(TR, 'fitted-noprep', p, given={'self': s, 'X': X0})
  _, E1, _ = instantiate(TR, 'fitted-noprep', p, given={'self': s, 'X': X1})
  e0, e1 = TH.row(E0.term, i), TH.row(E1.term, i)
  out.append(ob('C02/lemma/pair_distance=euclidean-distance-of-embeddings', p,
                d_i == TH.sqrt(TH.dot(TH.sub(e0, e1), TH.sub(e0, e1)))))
  # M symmetric positive semi-definite
  w = z3.Const('w', T)
  out.append(ob('C02/lemma/M-symmetric', p, TH.tr(M.term) == M.term))
  out.append(ob('C02/lemma/M-positive-semidefinite', p, TH.qform(M.term, w) >= 0))
  return out


# ------------------------------------------------------------------------------- exact identities (IEEE subset)
def _result_term(prog, target, case, overrides, want_scalar=False):
  from npvc import engine
  con = REGISTRY[target]
  paths = explore(prog, con, case, engine._state['lib'], overrides=overrides)
  rets = [(q, oc, a) for q, oc, a in paths if oc[0] == 'return']
  if len(rets) != 1:
    raise Undecided('%s: expected exactly one returning path, found %d' % (target, len(rets)))
  q, oc, a = rets[0]
  v = oc[1]
  return q, (v.t if want_scalar else q.store[v.loc].term), a


@C.lemma('C01.exact-identities-pair_distance', 'C01', uses=[PD])
def _exact_pd(prog):
  """d(x,y) == d(y,x) and d(x,x) == 0 EXACTLY: proved over the term extracted from the real pair_distance body using only
  identities that hold bit-for-bit in binary64 (a-b = -(b-a), (-a)^2 = a^2, x-x = 0, sign symmetry of dot products)"""
  out = []
  p0 = Path()
  s = self_spec('Covariance').make('self', p0, None)
  Pspec = Arr(3, dims=['n', 2, 'd'])
  # run 1: pairs = P ; run 2: pairs = P with the two points of every pair swapped
  q1, t1, a1 = _result_term(prog, PD, 'fitted-noprep', {'pairs': Pspec})
  Pterm = a1.pairs.term
  class Swapped(Spec):
    def make(self, name, p, ex):
      return p.new_loc(ArrState(TH.cols2(z3.Const('pairs', T), z3.IntVal(1), z3.IntVal(0)),
                                Shape(3, [z3.Int('n'), z3.IntVal(2), z3.Int('d')]), 'f', frozenset({('param', name)})))
  q2, t2, a2 = _result_term(prog, PD, 'fitted-noprep', {'pairs': Swapped()})
  hyps = list(q1.pc) + list(q2.pc)
  # the two runs create their own symbols for the callee results; identify the callee results of equal arguments
  # (transform is a function: same contract instance `emb == mm(X, tr L)` in both runs pins both)
  o = Obligation('C01/lemma/exact/pair_distance-symmetric', 'lemma-ieee', hyps, t1 == t2, dict(t1=str(t1)[:200], t2=str(t2)[:200]))
  o.axioms_only = 'ieee'
  out.append(o)
  class Same(Spec):
    def make(self, name, p, ex):
      v = Arr(3, dims=['n', 2, 'd']).make(name, p, ex)
      t = p.store[v.loc].term
      p.assume(TH.take1(t, 0) == TH.take1(t, 1))
      p.assume(TH.finiteT(TH.take1(t, 0)))
      return v
  q3, t3, a3 = _result_term(prog, PD, 'fitted-noprep', {'pairs': Same()})
  q3.assume(TH.finiteT(TH.tr(a3.self.components_.term)))
  i = z3.Int('i')
  o = Obligation('C01/lemma/exact/pair_distance-zero-on-identical-points', 'lemma-ieee', list(q3.pc), TH.at1(t3, i) == 0, dict(t=str(t3)[:200]))
  o.axioms_only = 'ieee'
  out.append(o)
  return out


@C.lemma('C01.exact-identities-get_metric', 'C01', uses=[MF])
def _exact_mf(prog):
  out = []
  class Named(Spec):
    def __init__(self, nm):
      self.nm = nm
    def make(self, name, p, ex):
      return p.new_loc(ArrState(z3.Const(self.nm, T), Shape(1, [z3.Int('d')]), 'f', frozenset({('param', name)})))
  q1, t1, a1 = _result_term(prog, MF, 'plain', {'u': Named('x'), 'v': Named('y')}, want_scalar=True)
  q2, t2, a2 = _result_term(prog, MF, 'plain', {'u': Named('y'), 'v': Named('x')}, want_scalar=True)
  o = Obligation('C01/lemma/exact/get_metric-symmetric', 'lemma-ieee', list(q1.pc) + list(q2.pc), t1 == t2, dict(t1=str(t1)[:200], t2=str(t2)[:200]))
  o.axioms_only = 'ieee'
  out.append(o)
  q3, t3, a3 = _result_term(prog, MF, 'plain', {'u': Named('x'), 'v': Named('x')}, want_scalar=True)
  q3.assume(TH.finiteT(z3.Const('x', T)))
  q3.assume(TH.finiteT(TH.copyT(TH.tr(a3.self.components_.term))))
  o = Obligation('C01/lemma/exact/get_metric-zero-on-identical-points', 'lemma-ieee', list(q3.pc), t3 == 0, dict(t=str(t3)[:200]))
  o.axioms_only = 'ieee'
  out.append(o)
  return out
