"""C12 (deductive part, control structure of the solver): "when the solver stops before max_iter the result is a stationary point ... to
within tol".  The body has exactly two early exits: the gradient test `grad_norm < tol`, and `M_best is None` -- no improving step.  The
second one means something only if EVERY step size of the documented grid was tried: the step-size scan must not be left early."""
import z3

from npvc.contracts import *
from npvc.values import *
import contracts as C

T_ = 'lsml:_BaseLSML._fit'
con = REGISTRY[T_]


def _scan_is_exhaustive(a, ev, r):
  return z3.BoolVal(not any(e[0] == 'loop-break' and e[1] == T_ and e[2] == 1 for e in ev))


def _only_documented_early_exits(a, ev, r):
  # the outer loop is left through `break` only (besides exhausting max_iter): both breaks are dominated by the two documented tests;
  # a third way out (return inside the loop) would show as a path without the loop's exit event
  return z3.BoolVal(any(e[0] in ('loop-writes', 'loop-break') and e[1] == T_ and e[2] == 0 for e in ev))


con.events['step-size-scan-tries-every-step-size'] = _scan_is_exhaustive
con.events['solver-loop-left-only-through-its-exit-tests'] = _only_documented_early_exits
