"""C04 -- tuple classifiers decide exactly by comparing learned distances (pairs / triplets / quadruplets mixins).

All clauses are stated at a generic index i of the batch, so ties (equal distances, distance == threshold, identical
points) are just points of the real line in the VCs."""
import z3

from npvc.contracts import *
from npvc.values import *
from npvc import theory as TH
import contracts as C
from .base_metric import (self_spec, fitted, pt, formed_or_indices, std_raises, vec_result, match_fitted, forall_i, I_)
from .helpers import instantiate, ob
from npvc.exec import Path

PAIRS, TRIP, QUAD = '_PairsClassifierMixin', '_TripletsClassifierMixin', '_QuadrupletsClassifierMixin'


def d(a, P, i, j, k):
  return TH.mdist(a.self.components_.term, pt(P, i, j), pt(P, i, k))


def cases3(cls, argname, extra=None, threshold=True):
  ex = extra or {}
  return [Case('fitted-noprep', dict({'self': self_spec(cls, 'none', True, threshold), argname: ArrSym()}, **ex)),
          Case('fitted-prep', dict({'self': self_spec(cls, 'callable', True, threshold), argname: ArrSym()}, **ex)),
          Case('unfitted', dict({'self': self_spec(cls, 'none', False), argname: ArrSym()}, **ex))]


def batch(a, r, name):
  return z3.And(r.ndim == 1, z3.Implies(getattr(a, name).ndim == 3, r.dim(0) == getattr(a, name).dim(0)))


def pointwise(a, r, name, fn):
  """for both data representations: forall i. fn(P, i) about at1(r, i)"""
  return formed_or_indices(a, name, 3, lambda P: forall_i(r.dim(0), lambda i: fn(P, i), lambda i: TH.at1(r.term, i)))


def pm1(c):
  return z3.If(c, z3.RealVal(1), z3.RealVal(-1))


# ------------------------------------------------------------------------------------------------------ pairs
def pairs_df(a, r):
  return pointwise(a, r, 'pairs', lambda P, i: TH.at1(r.term, i) == -d(a, P, i, 0, 1))


register(Contract(
    'base_metric:%s.decision_function' % PAIRS,
    cases=cases3('ITML', 'pairs'), match=match_fitted,
    ensures={'is-negated-distance': lambda a, r: None if not fitted(a) else pairs_df(a, r),
             'shape': lambda a, r: None if not fitted(a) else batch(a, r, 'pairs')},
    raises=std_raises('pairs', 3), modifies=set(), returns=Returns(vec_result), prop=['C04', 'C17', 'C18']))
C.unit('C04', 'base_metric:%s.decision_function' % PAIRS)


def pairs_predict_cases():
  cs = cases3('ITML', 'pairs')
  cs.append(Case('fitted-no-threshold', {'self': self_spec('ITML', 'none', True, threshold=False), 'pairs': ArrSym()}))
  return cs


def match_predict(env, p):
  m = match_fitted(env, p)
  if m != 'unfitted' and 'threshold_' not in p.heap[env['self'].oid]:
    return 'fitted-no-threshold'
  return m


def has_thr(a):
  return a.self.has('threshold_')


register(Contract(
    'base_metric:%s.predict' % PAIRS,
    cases=pairs_predict_cases(), match=match_predict,
    ensures={
        'plus-one-iff-distance-le-threshold': lambda a, r: None if not (fitted(a) and has_thr(a)) else
            pointwise(a, r, 'pairs', lambda P, i: TH.at1(r.term, i) == pm1(d(a, P, i, 0, 1) <= a.self.threshold_)),
        'shape': lambda a, r: None if not (fitted(a) and has_thr(a)) else batch(a, r, 'pairs'),
        'values-plus-minus-one': lambda a, r: None if not (fitted(a) and has_thr(a)) else TH.all_pm1(r.term),
    },
    raises=dict(std_raises('pairs', 3), AttributeError=Iff(lambda a: z3.BoolVal(fitted(a) and not has_thr(a)))),
    modifies=set(), returns=Returns(vec_result), prop=['C04', 'C17', 'C18']))
C.unit('C04', 'base_metric:%s.predict' % PAIRS)


def pairs_score_clause(a, r):
  s = z3.Const('s!df', T)
  def body(P):
    return z3.Exists([s], z3.And(r == TH.roc_auc(a.y.term, s),
                                 forall_i(z3.Int('n!df'), lambda i: TH.at1(s, i) == -d(a, P, i, 0, 1), lambda i: TH.at1(s, i))))
  return formed_or_indices(a, 'pairs', 3, body)


register(Contract(
    'base_metric:%s.score' % PAIRS,
    cases=cases3('ITML', 'pairs', extra={'y': Arr(1, 'i')}), match=match_fitted,
    ensures={'is-roc-auc-of-decision-function': lambda a, r: None if not fitted(a) else roc_clause(a, r)},
    raises=std_raises('pairs', 3), modifies=set(),
    returns=Returns(lambda a, p, ex: VReal(fresh('auc', z3.RealSort()))), prop=['C04']))
C.unit('C04', 'base_metric:%s.score' % PAIRS)


def roc_clause(a, r):
  """score = roc_auc_score(y, s) for SOME s with s[i] = -d(pair_i) for all i  (s is the decision function)"""
  s = z3.Const('s!df', T)
  n = z3.Int('n!df')
  def body(P):
    return z3.Exists([s, n], z3.And(r == TH.roc_auc(a.y.term, s),
                                    forall_i(n, lambda i: TH.at1(s, i) == -d(a, P, i, 0, 1), lambda i: TH.at1(s, i))))
  return formed_or_indices(a, 'pairs', 3, body)


def st_cases():
  out = []
  for nm, spec in (('real', Real()), ('int', Int()), ('other', AnyRef())):
    out.append(Case('fitted-' + nm, {'self': self_spec('ITML', 'none', True, threshold=False), 'threshold': spec}))
  out.append(Case('unfitted', {'self': self_spec('ITML', 'none', False), 'threshold': Real()}))
  return out


def st_match(env, p):
  if 'preprocessor_' not in p.heap[env['self'].oid]:
    return 'unfitted'
  t = env['threshold']
  return 'fitted-real' if isinstance(t, VReal) else 'fitted-int' if isinstance(t, VInt) else 'fitted-other'


def st_returns(a, p, ex):
  t = a.raw('threshold')
  obj = a.raw('self')
  p.heap[obj.oid]['threshold_'] = VReal(z3.ToReal(t.t)) if isinstance(t, VInt) else t if isinstance(t, VReal) else VReal(fresh('thr', z3.RealSort()))
  return obj


def is_number(a):
  return z3.is_expr(a.threshold) and a.threshold.sort() in (z3.RealSort(), z3.IntSort())


register(Contract(
    'base_metric:%s.set_threshold' % PAIRS,
    cases=st_cases(), match=st_match,
    ensures={
        'returns-self': lambda a, r: None if not a.self.has('preprocessor_') else z3.BoolVal(isinstance(r, ObjView) and r._obj.oid == a.self._obj.oid),
        'stores-float-of-threshold': lambda a, r: None if not (a.self.has('preprocessor_') and is_number(a)) else
            (a.self.threshold_ == (z3.ToReal(a.threshold) if a.threshold.sort() == z3.IntSort() else a.threshold)),
    },
    raises={'ValueError': OnlyIf(lambda a: z3.BoolVal(a.self.has('preprocessor_') and not is_number(a))),
            'NotFittedError': Iff(lambda a: z3.BoolVal(not a.self.has('preprocessor_')))},
    modifies={'threshold_'}, returns=Returns(st_returns), prop=['C04', 'C17']))
C.unit('C04', 'base_metric:%s.set_threshold' % PAIRS)


# --------------------------------------------------------------------------------------------------- triplets
def trip_df(a, r):
  return pointwise(a, r, 'triplets', lambda P, i: TH.at1(r.term, i) == d(a, P, i, 0, 2) - d(a, P, i, 0, 1))


register(Contract(
    'base_metric:%s.decision_function' % TRIP,
    cases=cases3('SCML', 'triplets', threshold=False), match=match_fitted,
    ensures={'is-d(a,c)-minus-d(a,b)': lambda a, r: None if not fitted(a) else trip_df(a, r),
             'shape': lambda a, r: None if not fitted(a) else batch(a, r, 'triplets')},
    raises=std_raises('triplets', 3), modifies=set(), returns=Returns(vec_result), prop=['C04', 'C17', 'C18']))
C.unit('C04', 'base_metric:%s.decision_function' % TRIP)


def trip_pred(a, r, P, i):
  return TH.at1(r, i) == pm1(d(a, P, i, 0, 1) < d(a, P, i, 0, 2))


register(Contract(
    'base_metric:%s.predict' % TRIP,
    cases=cases3('SCML', 'triplets', threshold=False), match=match_fitted,
    ensures={'plus-one-iff-d(a,b)<d(a,c)': lambda a, r: None if not fitted(a) else
                 pointwise(a, r, 'triplets', lambda P, i: trip_pred(a, r.term, P, i)),
             'shape': lambda a, r: None if not fitted(a) else batch(a, r, 'triplets'),
             'values-plus-minus-one': lambda a, r: None if not fitted(a) else TH.all_pm1(r.term)},
    raises=std_raises('triplets', 3), modifies=set(), returns=Returns(vec_result), prop=['C04', 'C17', 'C18']))
C.unit('C04', 'base_metric:%s.predict' % TRIP)


def frac_clause(a, r, name, pred_fn):
  s = z3.Const('s!pred', T)
  n = z3.Int('n!pred')
  def body(P):
    return z3.Exists([s, n], z3.And(r == TH.frac_pos(s), forall_i(n, lambda i: pred_fn(a, s, P, i), lambda i: TH.at1(s, i))))
  return formed_or_indices(a, name, 3, body)


register(Contract(
    'base_metric:%s.score' % TRIP,
    cases=cases3('SCML', 'triplets', threshold=False), match=match_fitted,
    ensures={'is-fraction-predicted-plus-one': lambda a, r: None if not fitted(a) else frac_clause(a, r, 'triplets', trip_pred)},
    raises=std_raises('triplets', 3), modifies=set(),
    returns=Returns(lambda a, p, ex: VReal(fresh('score', z3.RealSort()))), prop=['C04']))
C.unit('C04', 'base_metric:%s.score' % TRIP)


# ------------------------------------------------------------------------------------------------ quadruplets
def quad_df(a, r):
  return pointwise(a, r, 'quadruplets', lambda P, i: TH.at1(r.term, i) == d(a, P, i, 2, 3) - d(a, P, i, 0, 1))


register(Contract(
    'base_metric:%s.decision_function' % QUAD,
    cases=cases3('LSML', 'quadruplets', threshold=False), match=match_fitted,
    ensures={'is-d(c,d)-minus-d(a,b)': lambda a, r: None if not fitted(a) else quad_df(a, r),
             'shape': lambda a, r: None if not fitted(a) else batch(a, r, 'quadruplets')},
    raises=std_raises('quadruplets', 3), modifies=set(), returns=Returns(vec_result), prop=['C04', 'C17', 'C18']))
C.unit('C04', 'base_metric:%s.decision_function' % QUAD)


def sgn(x):
  return z3.If(x > 0, z3.RealVal(1), z3.If(x < 0, z3.RealVal(-1), z3.RealVal(0)))


register(Contract(
    'base_metric:%s.predict' % QUAD,
    cases=cases3('LSML', 'quadruplets', threshold=False), match=match_fitted,
    ensures={'is-sign-of-d(c,d)-minus-d(a,b)': lambda a, r: None if not fitted(a) else
                 pointwise(a, r, 'quadruplets', lambda P, i: TH.at1(r.term, i) == sgn(d(a, P, i, 2, 3) - d(a, P, i, 0, 1))),
             'shape': lambda a, r: None if not fitted(a) else batch(a, r, 'quadruplets')},
    raises=std_raises('quadruplets', 3), modifies=set(), returns=Returns(vec_result), prop=['C04', 'C17', 'C18']))
C.unit('C04', 'base_metric:%s.predict' % QUAD)


def quad_score_clause(a, r):
  s = z3.Const('s!pred', T)
  n = z3.Int('n!pred')
  def body(P):
    return z3.Exists([s, n], z3.And(r == TH.vmean(s) / 2 + z3.RealVal(1) / 2,
                                    forall_i(n, lambda i: TH.at1(s, i) == sgn(d(a, P, i, 2, 3) - d(a, P, i, 0, 1)), lambda i: TH.at1(s, i))))
  return formed_or_indices(a, 'quadruplets', 3, body)


register(Contract(
    'base_metric:%s.score' % QUAD,
    cases=cases3('LSML', 'quadruplets', threshold=False), match=match_fitted,
    ensures={'is-mean-of-predictions-rescaled': lambda a, r: None if not fitted(a) else quad_score_clause(a, r)},
    raises=std_raises('quadruplets', 3), modifies=set(),
    returns=Returns(lambda a, p, ex: VReal(fresh('score', z3.RealSort()))), prop=['C04']))
C.unit('C04', 'base_metric:%s.score' % QUAD)


# ------------------------------------------------------------------------------------------------------ lemmas
def _setup(cls, threshold=True):
  p = Path()
  s = self_spec(cls, 'none', True, threshold).make('self', p, None)
  return p, s


@C.lemma('C04.predictions-monotone-in-distance', 'C04', uses=['base_metric:%s.predict' % PAIRS, 'base_metric:MahalanobisMixin.pair_distance'])
def _mono(prog):
  """for any threshold: d(p) <= d(q) and predict(q) = +1  =>  predict(p) = +1"""
  p, s = _setup('ITML')
  P = Arr(3, dims=['n', 2, 'd']).make('P', p, None)
  a, r, _ = instantiate('base_metric:%s.predict' % PAIRS, 'fitted-noprep', p, given={'self': s, 'pairs': P})
  a2, dd, _ = instantiate('base_metric:MahalanobisMixin.pair_distance', 'fitted-noprep', p, given={'self': s, 'pairs': P})
  i, j = z3.Ints('i j')
  n = r.dim(0)
  p.assume(dd.dim(0) == n)
  for k in (i, j):
    p.assume(k >= 0)
    p.assume(k < n)
  p.assume(TH.at1(dd.term, i) <= TH.at1(dd.term, j))
  p.assume(TH.at1(r.term, j) == 1)
  return [ob('C04/lemma/pairs-predict-monotone-in-distance', p, TH.at1(r.term, i) == 1)]


@C.lemma('C04.swapping-compared-pairs-negates-decision', 'C04',
         uses=['base_metric:%s.decision_function' % TRIP, 'base_metric:%s.decision_function' % QUAD])
def _swap(prog):
  out = []
  for cls, tgt, name, size, swaps in (('SCML', 'base_metric:%s.decision_function' % TRIP, 'triplets', 3, {0: 0, 1: 2, 2: 1}),
                                      ('LSML', 'base_metric:%s.decision_function' % QUAD, 'quadruplets', 4, {0: 2, 1: 3, 2: 0, 3: 1})):
    p, s = _setup(cls, threshold=False)
    T1 = Arr(3, dims=['n', size, 'd']).make('T1', p, None)
    T2 = Arr(3, dims=['n', size, 'd']).make('T2', p, None)
    a1, r1, _ = instantiate(tgt, 'fitted-noprep', p, given={'self': s, name: T1})
    a2, r2, _ = instantiate(tgt, 'fitted-noprep', p, given={'self': s, name: T2})
    i = z3.Int('i')
    n = r1.dim(0)
    p.assume(r2.dim(0) == n)
    p.assume(i >= 0)
    p.assume(i < n)
    t1, t2 = p.store[T1.loc].term, p.store[T2.loc].term
    for j, k in swaps.items():
      p.assume(pt(t2, i, j) == pt(t1, i, k))
    out.append(ob('C04/lemma/%s-swap-negates-decision_function' % name, p, TH.at1(r2.term, i) == -TH.at1(r1.term, i)))
  return out
