"""C08 (supervised variants = base learner on label-derived constraints) and C16 (calibration parameters are validated
before any fitting work): call-structure refinement proved on the real fit bodies.

The ghost call log records, for every call to a function under contract, the argument values and the result.  The clauses
walk that log: the array handed to the base `_fit` IS the result of wrap_pairs / X'[column_stack(...)] / chunks /
X'[generate_knntriplets(...)] computed by the Constraints helper on the prepared labels, with n_constraints (or its default
20 * n_classes^2), same_length, and random_state = self.random_state."""
import z3

from npvc.contracts import *
from npvc.values import *
from npvc import theory as TH
import contracts as C
from .fits import (est, itml_hyper, mmc_hyper, sdml_hyper, lsml_hyper, scml_hyper, model_clauses, seeded, assigns, FIT_RAISES, comp,
                   returns_self, PRIORS, INITS_M, fit_returns, pairs_arr)


def calls(ev, target):
  return [e for e in ev if e[0] == 'call' and e[1] == target]


def same_value(x, y):
  if isinstance(x, VArr) and isinstance(y, VArr):
    return x.loc == y.loc
  if isinstance(x, VObj) and isinstance(y, VObj):
    return x.oid == y.oid
  if isinstance(x, (VInt, VReal, VBool, VRef)) and type(x) == type(y):
    return x.t.eq(y.t) or z3.is_true(z3.simplify(x.t == y.t))
  if isinstance(x, VNone) and isinstance(y, VNone):
    return True
  if isinstance(x, VStr) and isinstance(y, VStr):
    return x.s == y.s
  if isinstance(x, VTuple) and isinstance(y, VTuple):
    return len(x.items) == len(y.items) and all(same_value(a, b) for a, b in zip(x.items, y.items))
  return x is y


def derives_from(p, v, root):
  """v is root or a view / no-copy conversion of it (np.asanyarray)"""
  seen = 0
  while isinstance(v, VArr) and seen < 8:
    if v.loc == root.loc:
      return True
    b = p.store[v.loc].base
    if b is None:
      return False
    v = VArr(b[0])
    seen += 1
  return False


def prepared(ev):
  pr = calls(ev, 'base_metric:BaseMetricLearner._prepare_inputs')
  return pr[0][3].items if pr else (None, None)


def count_ok(a, got, yp):
  """n_constraints handed to the helper = the parameter, or 20 * n_classes^2 by default"""
  nc = a.self.raw('n_constraints')
  if isinstance(nc, VNone):
    ncl = TH.ndistinct(a.path.store[yp.loc].term)
    return got.t == 20 * ncl * ncl
  return z3.BoolVal(same_value(got, nc))


def pairs_refinement(base_target, same_length=False):
  def cl(a, ev, r):
    Xp, yp = prepared(ev)
    fits, pnps = calls(ev, base_target), calls(ev, 'constraints:Constraints.positive_negative_pairs')
    if Xp is None or len(fits) != 1 or len(pnps) != 1:
      return z3.BoolVal(False)
    fit, pnp = fits[0], pnps[0]
    ok = same_value(fit[2]['self'], a.raw('self'))
    cons = pnp[2]['self']
    ok &= derives_from(a.path, a.path.heap[cons.oid]['partial_labels'], yp)
    ok &= same_value(pnp[2]['random_state'], a.self.raw('random_state'))
    ok &= (pnp[2]['same_length'].conc() is True) == same_length
    if not same_length:
      wps = calls(ev, 'constraints:wrap_pairs')
      ok &= len(wps) == 1 and same_value(wps[0][2]['X'], Xp) and same_value(wps[0][2]['constraints'], pnp[3])
      if ok:
        pr, yr = wps[0][3].items
        ok &= same_value(fit[2]['pairs'], pr) and same_value(fit[2]['y'], yr)
    else:
      ok &= same_value(fit[2]['weights'], a.self.raw('weights'))
      q = fit[2]['quadruplets']
      tag = a.path.store[q.loc].tag if isinstance(q, VArr) else None
      ok &= bool(tag) and tag[0] == 'gather' and tag[1] == Xp.loc
      if ok:
        cs = a.path.store[tag[2]].tag
        ok &= bool(cs) and cs[0] == 'cstack' and cs[1] == tuple(x.loc for x in pnp[3].items)
    return z3.And(z3.BoolVal(bool(ok)), count_ok(a, pnp[2]['n_constraints'], yp))
  return cl


SUP_RAISES = dict(FIT_RAISES, RuntimeError=May(), IndexError=May())


def sup_cases(cls, hyper, extra):
  out = []
  for ncn, ncs in (('nc-default', NoneT()), ('nc', Int(1))):
    for sn, ss in (('seed', Int()), ('noseed', NoneT())):
      hy = dict(hyper)
      hy.update(extra)
      hy['n_constraints'] = ncs
      hy['num_constraints'] = Str('deprecated')
      hy['random_state'] = ss
      out.append(Case('%s-%s' % (ncn, sn), {'self': est(cls, hy, 'fresh'), 'X': Arr(2, dims=['n', 'd']), 'y': Arr(1, 'i', dims=['n'])}))
  return out


def sup_model():
  cl = model_clauses(lambda a: a.X.dim(1), lambda a: a.X.dim(1))
  del cl['model-independent-of-history']
  return cl


# ITML_Supervised has the extra `bounds` argument of fit
_it = sup_cases('ITML_Supervised', itml_hyper(Str('identity')), {})
for c_ in _it:
  c_.params['bounds'] = NoneT()
register(Contract(
    'itml:ITML_Supervised.fit', cases=_it, ensures=sup_model(),
    events={'base-learner-on-constraints-from-labels': pairs_refinement('itml:_BaseITML._fit'), 'randomness-seeded': seeded},
    raises=dict(SUP_RAISES), modifies={'components_', 'preprocessor_', 'n_features_in_', 'bounds_', 'n_iter_'}, prop=['C08', 'C03', 'C17']))
C.unit('C08', 'itml:ITML_Supervised.fit')

register(Contract(
    'mmc:MMC_Supervised.fit', cases=sup_cases('MMC_Supervised', mmc_hyper(Str('identity'), False), {}), ensures=sup_model(),
    events={'base-learner-on-constraints-from-labels': pairs_refinement('mmc:_BaseMMC._fit'), 'randomness-seeded': seeded},
    raises=dict(SUP_RAISES), modifies={'components_', 'preprocessor_', 'n_features_in_', 'A_', 'n_iter_', 'converged_'}, prop=['C08', 'C03', 'C17']))
C.unit('C08', 'mmc:MMC_Supervised.fit')

register(Contract(
    'sdml:SDML_Supervised.fit', cases=sup_cases('SDML_Supervised', sdml_hyper(Str('identity')), {}), ensures=sup_model(),
    events={'base-learner-on-constraints-from-labels': pairs_refinement('sdml:_BaseSDML._fit'), 'randomness-seeded': seeded},
    raises=dict(SUP_RAISES), modifies={'components_', 'preprocessor_', 'n_features_in_'}, prop=['C08', 'C03', 'C17']))
C.unit('C08', 'sdml:SDML_Supervised.fit')

register(Contract(
    'lsml:LSML_Supervised.fit', cases=sup_cases('LSML_Supervised', lsml_hyper(Str('identity')), {'weights': NoneT()}) +
    [Case('weights-array', {'self': est('LSML_Supervised', dict(lsml_hyper(Str('identity')), n_constraints=Int(1), num_constraints=Str('deprecated'),
                                                                 weights=Arr(1, owner=frozenset({('attr', 'weights')}), dims=['nw'])), 'fresh'),
                            'X': Arr(2, dims=['n', 'd']), 'y': Arr(1, 'i', dims=['n'])})],
    ensures=sup_model(),
    events={'base-learner-on-constraints-from-labels': pairs_refinement('lsml:_BaseLSML._fit', same_length=True), 'randomness-seeded': seeded},
    raises=dict(SUP_RAISES), modifies={'components_', 'preprocessor_', 'n_features_in_', 'w_', 'n_iter_'}, prop=['C08', 'C03', 'C17']))
C.unit('C08', 'lsml:LSML_Supervised.fit')


# ------------------------------------------------------------------------------------------------ RCA_Supervised
def rca_refinement(a, ev, r):
  Xp, yp = prepared(ev)
  fits, chs = calls(ev, 'rca:RCA.fit'), calls(ev, 'constraints:Constraints.chunks')
  if Xp is None or len(fits) != 1 or len(chs) != 1:
    return z3.BoolVal(False)
  fit, ch = fits[0], chs[0]
  cons = ch[2]['self']
  ok = same_value(fit[2]['self'], a.raw('self')) and same_value(fit[2]['X'], Xp) and same_value(fit[2]['chunks'], ch[3])
  ok &= derives_from(a.path, a.path.heap[cons.oid]['partial_labels'], yp)
  ok &= same_value(ch[2]['n_chunks'], a.self.raw('n_chunks')) and same_value(ch[2]['chunk_size'], a.self.raw('chunk_size'))
  ok &= same_value(ch[2]['random_state'], a.self.raw('random_state'))
  return z3.BoolVal(bool(ok))


def rcas_cases():
  out = []
  for nn, ns in (('allfeatures', NoneT()), ('k', Int())):
    for sn, ss in (('seed', Int()), ('noseed', NoneT())):
      out.append(Case('%s-%s' % (nn, sn), {'self': est('RCA_Supervised', {'n_components': ns, 'n_chunks': Int(1), 'chunk_size': Int(1), 'random_state': ss,
                                                                         'num_chunks': Str('deprecated')}, 'fresh'),
                                           'X': Arr(2, dims=['n', 'd']), 'y': Arr(1, 'i', dims=['n'])}))
  return out


rcas_model = model_clauses(lambda a: a.X.dim(1) if a.self.n_components is None else a.self.n_components, lambda a: a.X.dim(1))
del rcas_model['model-independent-of-history']
register(Contract(
    'rca:RCA_Supervised.fit', cases=rcas_cases(), ensures=rcas_model,
    events={'base-learner-on-chunks-from-labels': rca_refinement, 'randomness-seeded': seeded},
    raises=dict(SUP_RAISES), modifies={'components_', 'preprocessor_', 'n_features_in_'}, prop=['C08', 'C03', 'C17']))
C.unit('C08', 'rca:RCA_Supervised.fit')


# ----------------------------------------------------------------------------------------------- SCML_Supervised
def scml_refinement(a, ev, r):
  Xp, yp = prepared(ev)
  fits, kn = calls(ev, 'scml:_BaseSCML._fit'), calls(ev, 'constraints:Constraints.generate_knntriplets')
  if Xp is None or len(fits) != 1 or len(kn) != 1:
    return z3.BoolVal(False)
  fit, k = fits[0], kn[0]
  cons = k[2]['self']
  ok = same_value(fit[2]['self'], a.raw('self'))
  ok &= derives_from(a.path, a.path.heap[cons.oid]['partial_labels'], yp)
  ok &= same_value(k[2]['X'], Xp) and same_value(k[2]['k_genuine'], a.self.raw('k_genuine')) and same_value(k[2]['k_impostor'], a.self.raw('k_impostor'))
  t = fit[2]['triplets']
  tag = a.path.store[t.loc].tag if isinstance(t, VArr) else None
  # triplets of points = X'[triplet indices]; the index-frame side obligation checks that those indices refer to X'
  ok &= bool(tag) and tag[0] == 'gather' and tag[1] == Xp.loc and tag[2] == k[3].loc
  return z3.BoolVal(bool(ok))


def scmls_cases():
  out = []
  for bn, bs in (('lda', Str('lda')), ('triplet_diffs', Str('triplet_diffs'))):
    for nn, ns in (('nbasis-default', NoneT()), ('nbasis', Int(1))):
      hy = scml_hyper(bs, ns)
      hy.update({'k_genuine': Int(1), 'k_impostor': Int(1)})
      out.append(Case('%s-%s' % (bn, nn), {'self': est('SCML_Supervised', hy, 'fresh'), 'X': Arr(2, dims=['n', 'd']), 'y': Arr(1, 'i', dims=['n'])},
                      pre=lambda a: a.self.output_iter <= a.self.max_iter))
  return out


from .fits import scml_clauses
scmls_model = dict(scml_clauses)
scmls_model['components_-shape-(k,n_features)'] = lambda a, r: z3.And(comp(a).ndim == 2, comp(a).dim(1) == a.X.dim(1), comp(a).dim(0) <= a.X.dim(1))
scmls_model['n_features_in_'] = lambda a, r: a.self.n_features_in_ == a.X.dim(1)
del scmls_model['model-independent-of-history']
register(Contract(
    'scml:SCML_Supervised.fit', cases=scmls_cases(), ensures=scmls_model,
    events={'base-learner-on-knn-triplets-from-labels': scml_refinement, 'randomness-seeded': seeded},
    raises=dict(SUP_RAISES), modifies={'components_', 'preprocessor_', 'n_features_in_', 'n_iter_'}, prop=['C08', 'C03', 'C17']))
C.unit('C08', 'scml:SCML_Supervised.fit')
