"""C10 bounded stand-in / replay: NCA, MLKR and LMNN optimise the objective they document.
bounded -- not proved.  Run-time oracle on the REAL code (imported through standins.common.repo()):

  value      the number the optimiser is driven by equals an INDEPENDENT O(n^2 k) evaluation of the documented objective
             NCA   sum_i sum_{j != i, y_j = y_i} p_ij,   p_ij = softmax_{j != i}(-||L x_i - L x_j||^2)       (maximised)
             MLKR  sum_i (yhat_i - y_i)^2,               yhat_i = sum_{j != i} p_ij y_j                        (minimised)
             LMNN  reg * sum_{i, j in T(i)} ||L(x_i - x_j)||^2
                   + (1 - reg) * sum_{i, j in T(i), l: y_l != y_i} [1 + ||L(x_i - x_j)||^2 - ||L(x_i - x_l)||^2]_+   (minimised)
                   T(i) = the k Euclidean nearest same-class neighbours of x_i in INPUT space
  gradient   the returned gradient equals a central finite difference of the independent objective (LMNN: only where no
             hinge changes side inside the difference stencil)
  fit        objective(components_) is never worse than objective(documented initialisation); the function handed to
             scipy.optimize.minimize is the (negated, for NCA) documented objective and starts at the documented
             initialisation; LMNN's accepted iterates have non-increasing objective
  zero       zero optimiser iterations (NCA/MLKR max_iter = 0, LMNN max_iter <= 2) => components_ is exactly the
             documented initialisation (metric_learn._util._initialize_components with the same arguments)
"""
import contextlib
import warnings

import numpy as np

from .common import repo

T_NCA_LG = 'nca:NCA._loss_grad_lbfgs'
T_NCA_FIT = 'nca:NCA.fit'
T_MLKR_LG = 'mlkr:MLKR._loss'
T_MLKR_FIT = 'mlkr:MLKR.fit'
T_LMNN_LG = 'lmnn:LMNN._loss_grad'
T_LMNN_FIT = 'lmnn:LMNN.fit'
ALL_TAGS = (T_NCA_LG, T_NCA_FIT, T_MLKR_LG, T_MLKR_FIT, T_LMNN_LG, T_LMNN_FIT)

VAL_RTOL = 1e-7      # value comparison: the library uses the ||a||^2+||b||^2-2ab expansion and logsumexp, the oracle explicit differences
GRAD_RTOL = 1e-5     # gradient vs central finite difference
DESC_RTOL = 1e-9     # "not worse" comparisons of independently evaluated objectives
# NCA / MLKR: read "max_iter = 0" as "zero optimiser iterations" (the quantifier says max_iter >= 0, DESIGN.md assumes the
# L-BFGS-B contract maxiter=0 => x_out = x0).  scipy's L-BFGS-B performs one iteration when maxiter=0, so this clause fires on
# the unchanged tree under its own clause name / signature ('<learner> max_iter=0: components_ != initialisation ...').
# With False only the literal statement is demanded: optimiser reports nit = 0 => components_ == initialisation.
STRICT_MAX_ITER0 = False


# ----------------------------------------------------------------------------------------------------------------------
# independent evaluation of the documented objectives (explicit differences, explicit leave-one-out softmax)
# ----------------------------------------------------------------------------------------------------------------------
def sqdist(Z):
  diff = Z[:, None, :] - Z[None, :, :]
  return (diff * diff).sum(axis=2)


def loo_softmax(D):
  """P[i, j] = exp(-D[i, j]) / sum_{l != i} exp(-D[i, l]) for j != i, P[i, i] = 0"""
  n = D.shape[0]
  off = ~np.eye(n, dtype=bool)
  m = np.where(off, D, np.inf).min(axis=1, keepdims=True)
  W = np.where(off, np.exp(-(D - m)), 0.0)
  return W / W.sum(axis=1, keepdims=True)


def nca_objective(L, X, y):
  X = np.asarray(X, dtype=float)          # the documented objective is about the VALUES of the points, whatever their storage dtype
  P = loo_softmax(sqdist(X.dot(L.T)))
  same = (y[:, None] == y[None, :]) & ~np.eye(len(y), dtype=bool)
  return float(P[same].sum())


def mlkr_objective(L, X, y):
  X = np.asarray(X, dtype=float)
  P = loo_softmax(sqdist(X.dot(L.T)))
  yhat = P.dot(y)
  return float(((yhat - y) ** 2).sum())


def lmnn_targets(X, y, k):
  """-> (list of index arrays T(i), ambiguous?)  ambiguous: the k-th and (k+1)-th same-class neighbour are (nearly) tied,
  so 'the k nearest' is not a well-defined set: such data are skipped"""
  X = np.asarray(X, dtype=float)
  D = sqdist(X)
  T = []
  ambiguous = False
  for i in range(len(y)):
    cand = np.array([j for j in range(len(y)) if j != i and y[j] == y[i]], dtype=int)
    cand = cand[np.argsort(D[i, cand], kind='stable')]
    if len(cand) > k and D[i, cand[k]] - D[i, cand[k - 1]] <= 1e-9 * (1.0 + D[i, cand[k]]):
      ambiguous = True
    T.append(cand[:k])
  return T, ambiguous


def lmnn_objective(L, X, y, T, reg):
  """-> (objective, boolean vector: which hinges are active, smallest |hinge argument|)"""
  X = np.asarray(X, dtype=float)
  D = sqdist(X.dot(L.T))
  pull = 0.0
  push = 0.0
  act = []
  for i in range(len(y)):
    other = np.nonzero(y != y[i])[0]
    for j in T[i]:
      pull += D[i, j]
      arg = 1.0 + D[i, j] - D[i, other]
      a = arg > 0
      push += arg[a].sum()
      act.append(a)
  act = np.concatenate(act) if act else np.zeros(0, dtype=bool)
  return float(reg * pull + (1.0 - reg) * push), act


def fd_gradient(f, L, h):
  g = np.zeros_like(L)
  for idx in np.ndindex(*L.shape):
    Lp = L.copy()
    Lm = L.copy()
    Lp[idx] += h
    Lm[idx] -= h
    g[idx] = (f(Lp) - f(Lm)) / (Lp[idx] - Lm[idx])
  return g


def close(a, b, rtol, atol=0.0):
  return abs(a - b) <= rtol * max(abs(a), abs(b)) + atol


def grad_close(g, fd, fval):
  scale = max(np.abs(g).max(), np.abs(fd).max())
  err = np.abs(g - fd).max()
  return err <= GRAD_RTOL * scale + 1e-7 * (1.0 + abs(fval)), err, scale


# ----------------------------------------------------------------------------------------------------------------------
# generated inputs
# ----------------------------------------------------------------------------------------------------------------------
def datasets(tier, seed):
  """well-formed (X, y_class, y_real); d in 2..5, n in 4d..30, 2..4 classes each with >= 4 members (so that LMNN with
  n_neighbors <= 3 has k same-class neighbours for every point).  Variants: isotropic, anisotropic features, shifted
  class means, non-contiguous / negative labels, one duplicated point (NCA/MLKR only)"""
  rng = np.random.RandomState(1000003 * (seed + 1) % (2 ** 31 - 1))
  n_data = 7 if tier == 'quick' else 21
  for t in range(n_data):
    d = 2 + t % 4
    n = int(rng.randint(4 * d, 31)) if 4 * d < 30 else 30
    n = max(n, 4 * d)
    n_classes = 2 + int(rng.randint(0, 3))
    while 4 * n_classes > n:
      n_classes -= 1
    ycls = np.concatenate([np.repeat(np.arange(n_classes), 4), rng.randint(0, n_classes, n - 4 * n_classes)])
    rng.shuffle(ycls)
    X = rng.randn(n, d)
    variant = ('isotropic', 'anisotropic', 'separated', 'relabelled', 'duplicate', 'uint8', 'outliers')[t % 7]
    if variant == 'uint8':
      # 8-bit data (grey levels): differences of such numbers leave the dtype's range unless the learner computes in floating point
      X = np.clip(np.round(120 + 60 * X), 0, 255).astype(np.uint8)
    if variant == 'outliers':
      # a few isolated points far from everything else (squared embedded distances of order 1e3 - 1e4): the leave-one-out softmax of the
      # documented objectives is defined for them too
      X[:2] = X[:2] * 3 + np.array([60.0, -45.0, 30.0, 80.0, -70.0])[:d]
    if variant == 'anisotropic':
      X = X * np.array([3.0, 0.3, 1.0, 2.0, 0.5])[:d]
    if variant == 'separated':
      X = X + 1.5 * rng.randn(n_classes, d)[ycls]
    if variant == 'relabelled':
      ycls = np.array([7, -2, 40, 3])[ycls]
    dup = False
    if variant == 'duplicate':
      X[1] = X[0]
      dup = True
    yreal = X.dot(rng.randn(d)) + 0.5 * rng.randn(n)
    if t % 3 == 2:
      yreal = rng.randn(n) * 3.0
    yield dict(idx=t, desc='data#%d[%s n=%d d=%d classes=%d]' % (t, variant, n, d, n_classes), X=X, y=ycls, yreal=yreal,
               d=d, n=n, n_classes=n_classes, dup=dup, k=1 + t % 3, reg=(0.5, 0.2, 0.8, 0.35)[t % 4])


def transformations(rng, d, count):
  """random L in R^{k x d}, k in 1..d (low rank included), entries N(0, s^2), s in {0.1, 0.5, 1, 2}; plus the truncated
  identity and the zero matrix"""
  for t in range(count):
    k = 1 + (t * 7 + 3) % d if t % 2 else d
    if t == 0:
      yield '#0 identity[%dx%d]' % (k, d), np.eye(k, d)
    elif t == 1:
      yield '#1 zero[%dx%d]' % (k, d), np.zeros((k, d))
    else:
      s = (0.1, 0.5, 1.0, 2.0)[t % 4]
      yield '#%d randn*%g[%dx%d]' % (t, s, k, d), rng.randn(k, d) * s


def jsonable(**kw):
  return {k: (v.tolist() if isinstance(v, np.ndarray) else v) for k, v in kw.items()}


def guarded(fn, tag):
  def thunk():
    with warnings.catch_warnings():
      warnings.simplefilter('ignore')
      with np.errstate(all='ignore'):
        return fn()
  return thunk


# ----------------------------------------------------------------------------------------------------------------------
# value and gradient at random L
# ----------------------------------------------------------------------------------------------------------------------
def check_nca_point(ml, ds, lname, L, sign):
  X, y = ds['X'], ds['y']
  est = ml.NCA()
  est.n_iter_ = 0
  mask = y[:, np.newaxis] == y[np.newaxis, :]
  inp = jsonable(learner='NCA', X=X, y=y, L=L, sign=sign)
  if not hasattr(est, '_loss_grad_lbfgs'):
    return None        # the function that drives the optimiser is no longer reachable under its known (private) name: this clause is then
                       # observed only through the fit-level cases (value / gradient handed to scipy.optimize.minimize)
  try:
    loss, grad = est._loss_grad_lbfgs(L.ravel().copy(), X, mask, sign)
  except Exception as e:
    return dict(tag='nca.loss-is-documented-objective', observed='%s: %s' % (type(e).__name__, e), input=inp,
                signature='NCA._loss_grad_lbfgs raises')
  want = sign * nca_objective(L, X, y)
  if not close(float(loss), want, VAL_RTOL, 1e-9):
    return dict(tag='nca.loss-is-documented-objective', input=inp,
                observed='_loss_grad_lbfgs value %r, sign * (sum_i sum_{j!=i, y_j=y_i} p_ij) = %r' % (float(loss), want),
                signature='NCA loss value differs from the documented objective')
  h = 1e-6 * max(1.0, np.abs(L).max())
  fd = fd_gradient(lambda M: sign * nca_objective(M, X, y), L, h)
  ok, err, scale = grad_close(np.asarray(grad).reshape(L.shape), fd, want)
  if not ok:
    return dict(tag='nca.gradient-is-derivative', input=inp,
                observed='max |gradient - finite difference| = %.3g (gradient scale %.3g); gradient[0]=%r fd[0]=%r'
                         % (err, scale, float(np.ravel(grad)[0]), float(fd.ravel()[0])),
                signature='NCA gradient differs from the derivative of the documented objective')
  return None


def check_mlkr_point(ml, ds, lname, L):
  X, y = ds['X'], ds['yreal']
  est = ml.MLKR()
  est.n_iter_ = 0
  inp = jsonable(learner='MLKR', X=X, y=y, L=L)
  if not hasattr(est, '_loss'):
    return None        # (as for NCA: private name not found -> point-wise clause not evaluated)
  try:
    cost, grad = est._loss(L.ravel().copy(), X, y)
  except Exception as e:
    return dict(tag='mlkr.loss-is-documented-objective', observed='%s: %s' % (type(e).__name__, e), input=inp,
                signature='MLKR._loss raises')
  want = mlkr_objective(L, X, y)
  if not close(float(cost), want, VAL_RTOL, 1e-9):
    return dict(tag='mlkr.loss-is-documented-objective', input=inp,
                observed='_loss value %r, leave-one-out kernel regression squared error = %r' % (float(cost), want),
                signature='MLKR loss value differs from the documented objective')
  h = 1e-6 * max(1.0, np.abs(L).max())
  fd = fd_gradient(lambda M: mlkr_objective(M, X, y), L, h)
  ok, err, scale = grad_close(np.asarray(grad).reshape(L.shape), fd, want)
  if not ok:
    return dict(tag='mlkr.gradient-is-derivative', input=inp,
                observed='max |gradient - finite difference| = %.3g (gradient scale %.3g); gradient[0]=%r fd[0]=%r'
                         % (err, scale, float(np.ravel(grad)[0]), float(fd.ravel()[0])),
                signature='MLKR gradient differs from the derivative of the documented objective')
  return None


def as_given(init):
  """the init array as a user may hand it over: for every other array in column-major memory order (np.asfortranarray, a transposed
  view, data loaded from a .mat file are ndarrays too) -- the documented initialisation is its VALUE"""
  if not isinstance(init, np.ndarray):
    return init
  if int(abs(float(init.flat[0])) * 1e6) % 2 == 0:
    return np.asfortranarray(init)
  return init.copy()


def lmnn_recorder(ml):
  class RecordingLMNN(ml.LMNN):
    """the real LMNN; every call of the real _loss_grad is recorded (L, returned objective, the other arguments)"""
    def _loss_grad(self, X, L, dfG, k, reg, target_neighbors, label_inds):
      out = ml.LMNN._loss_grad(self, X, L, dfG, k, reg, target_neighbors, label_inds)
      self.__dict__.setdefault('_c10_calls', []).append(
          dict(L=np.array(L, dtype=float, copy=True), objective=float(out[1]),
               args=(X, dfG, k, reg, target_neighbors, label_inds)))
      return out
  RecordingLMNN.__name__ = 'LMNN'
  return RecordingLMNN


_LMNN_CTX = {}


def lmnn_context(ml, ds):
  """what fit hands to _loss_grad for this dataset (captured from a real fit with zero optimiser iterations)"""
  key = (id(ml), ds['idx'], ds['desc'])
  if key not in _LMNN_CTX:
    est = lmnn_recorder(ml)(init='identity', n_neighbors=ds['k'], regularization=ds['reg'], max_iter=2)
    est.fit(ds['X'], ds['y'])
    T, ambiguous = lmnn_targets(ds['X'], ds['y'], ds['k'])
    _LMNN_CTX[key] = (est, est._c10_calls[0]['args'], T, ambiguous)
  return _LMNN_CTX[key]


def check_lmnn_point(ml, ds, lname, L):
  X, y, k, reg = ds['X'], ds['y'], ds['k'], ds['reg']
  inp = jsonable(learner='LMNN', X=X, y=y, L=L, n_neighbors=k, regularization=reg)
  if not hasattr(ml.LMNN, '_loss_grad'):
    return None        # (private name not found -> point-wise clause not evaluated)
  try:
    est, (Xc, dfG, kc, regc, tn, label_inds), T, ambiguous = lmnn_context(ml, ds)
    if ambiguous:
      return None
    G, objective, total_active = ml.LMNN._loss_grad(est, Xc, L.copy(), dfG, kc, regc, tn, label_inds)
  except Exception as e:
    return dict(tag='lmnn.loss-is-documented-objective', observed='%s: %s' % (type(e).__name__, e), input=inp,
                signature='LMNN._loss_grad raises')
  want, act = lmnn_objective(L, X, y, T, reg)
  if not close(float(objective), want, VAL_RTOL, 1e-9):
    return dict(tag='lmnn.loss-is-documented-objective', input=inp,
                observed='_loss_grad objective %r (active %d), reg*pull + (1-reg)*push over the k Euclidean target neighbours = %r (active %d)'
                         % (float(objective), int(total_active), want, int(act.sum())),
                signature='LMNN objective value differs from the documented pull + hinge push')
  # derivative, only where the objective is differentiable on the whole stencil (no hinge changes side)
  h = 1e-6 * max(1.0, np.abs(L).max())
  smooth = [True]

  def f(M):
    v, a = lmnn_objective(M, X, y, T, reg)
    if not np.array_equal(a, act):
      smooth[0] = False
    return v
  fd = fd_gradient(f, L, h)
  if not smooth[0]:
    return None
  ok, err, scale = grad_close(np.asarray(G).reshape(L.shape), fd, want)
  if not ok:
    return dict(tag='lmnn.gradient-is-derivative', input=inp,
                observed='max |gradient - finite difference| = %.3g (gradient scale %.3g); gradient[0]=%r fd[0]=%r'
                         % (err, scale, float(np.ravel(G)[0]), float(fd.ravel()[0])),
                signature='LMNN gradient differs from the derivative of the documented objective')
  return None


# ----------------------------------------------------------------------------------------------------------------------
# fit: never worse than the initialisation, zero iterations give the initialisation
# ----------------------------------------------------------------------------------------------------------------------
def init_options(ds, rng, with_lda):
  """(name, init argument, n_components) allowed by the documentation for this dataset"""
  d = ds['d']
  low = 1 + int(rng.randint(0, d - 1)) if d > 1 else 1      # some k < d
  opts = [('identity', 'identity', None), ('identity', 'identity', low), ('pca', 'pca', None), ('pca', 'pca', low),
          ('random', 'random', None), ('random', 'random', low), ('auto', 'auto', None), ('auto', 'auto', low),
          ('array', rng.randn(d, d), d), ('array', rng.randn(low, d) * 0.5, low)]
  if with_lda:
    top = min(d, ds['n_classes'] - 1)
    opts.append(('lda', 'lda', top))
    if top > 1:
      opts.append(('lda', 'lda', 1))
  return opts


@contextlib.contextmanager
def recorded_minimize(module):
  """wrap the module-level name `minimize` of nca.py / mlkr.py: record what fit hands to the optimiser and what comes back"""
  real = module.minimize
  log = []

  def wrapper(*a, **kw):
    rec = dict(fun=kw.get('fun', a[0] if len(a) > 0 else None), x0=np.array(kw.get('x0', a[1] if len(a) > 1 else None), dtype=float, copy=True),
               args=tuple(kw.get('args', a[2] if len(a) > 2 else ())))
    res = real(*a, **kw)
    rec['nit'] = int(getattr(res, 'nit', -1))
    rec['x'] = np.array(res.x, dtype=float, copy=True)
    log.append(rec)
    return res
  module.minimize = wrapper
  try:
    yield log
  finally:
    module.minimize = real


def check_lbfgs_fit(ml, learner, ds, iname, init, n_components, max_iter, rs, probe_L):
  import importlib
  from metric_learn._util import _initialize_components
  X = ds['X']
  if learner == 'NCA':
    y, module, objective, better = ds['y'], importlib.import_module('metric_learn.nca'), nca_objective, (lambda a, b: a >= b)
    word, drive_sign = 'expected number of correctly classified points (maximised)', -1.0
  else:
    y, module, objective, better = ds['yreal'], importlib.import_module('metric_learn.mlkr'), mlkr_objective, (lambda a, b: a <= b)
    word, drive_sign = 'leave-one-out regression squared error (minimised)', 1.0
  low = learner.lower()
  inp = jsonable(learner=learner, X=X, y=y, init=init, n_components=n_components, max_iter=max_iter, random_state=rs)
  nc = ds['d'] if n_components is None else n_components
  init0 = _initialize_components(nc, X, y, init.copy() if isinstance(init, np.ndarray) else init, False, rs,
                                 has_classes=(learner == 'NCA'))
  init0 = np.array(init0, dtype=float, copy=True)
  est = getattr(ml, learner)(init=as_given(init), n_components=n_components,
                             max_iter=max_iter, random_state=rs)
  try:
    with recorded_minimize(module) as log:
      est.fit(X, y)
  except Exception as e:
    return dict(tag='%s.fit-not-worse-than-init' % low, observed='fit raised %s: %s' % (type(e).__name__, e), input=inp,
                signature='%s.fit raises on well-formed input (init=%s)' % (learner, iname))
  comp = np.asarray(est.components_, dtype=float)
  if len(log) == 1:
    rec = log[0]
    # the optimiser starts at the documented initialisation and its result is what is stored
    if rec['x0'].size != init0.size or not np.array_equal(rec['x0'].ravel(), init0.ravel()):
      return dict(tag='%s.zero-iterations-give-init' % low, input=inp,
                  observed='x0 handed to minimize differs from the documented initialisation: max diff %r'
                           % (float(np.abs(rec['x0'].ravel() - init0.ravel()).max()) if rec['x0'].size == init0.size else 'shape'),
                  signature='%s.fit does not start the optimiser at the documented initialisation' % learner)
    # the function that drives the optimiser is the (negated) documented objective
    for M in (init0, probe_L):
      v = float(rec['fun'](M.ravel().copy(), *rec['args'])[0])
      want = drive_sign * objective(M, X, y)
      if not close(v, want, VAL_RTOL, 1e-9):
        return dict(tag='%s.fit-minimises-documented-objective' % low, input=dict(inp, L=M.tolist()),
                    observed='function handed to minimize returns %r, %s documented objective is %r' % (v, 'the negated' if drive_sign < 0 else 'the', want),
                    signature='%s.fit hands the optimiser a function that is not the %sdocumented objective' % (learner, 'negated ' if drive_sign < 0 else ''))
  o_init, o_fit = objective(init0, X, y), objective(comp, X, y)
  slack = DESC_RTOL * (1.0 + abs(o_init))
  if not better(o_fit + (slack if learner == 'NCA' else -slack), o_init):
    return dict(tag='%s.fit-not-worse-than-init' % low, input=inp,
                observed='%s: at components_ %r, at the documented initialisation %r' % (word, o_fit, o_init),
                signature='%s.fit returns a transformation worse than the initialisation' % learner)
  if len(log) == 1:
    rec = log[0]
    if rec['nit'] == 0 and not np.array_equal(comp, init0):
      return dict(tag='%s.zero-iterations-give-init' % low, input=inp,
                  observed='optimiser reports nit=0 but components_ differs from the initialisation by %r' % float(np.abs(comp - init0).max()),
                  signature='%s zero reported iterations but components_ != initialisation' % learner)
  if STRICT_MAX_ITER0 and max_iter == 0 and (comp.shape != init0.shape or not np.array_equal(comp, init0)):
    import scipy
    nit = log[0]['nit'] if len(log) == 1 else None
    return dict(tag='%s.max_iter0-gives-init' % low, input=inp,
                observed='max_iter=0: components_ differs from the documented initialisation (max |diff| %.3g); the optimiser (scipy %s L-BFGS-B, maxiter=0) reports nit=%r'
                         % (float(np.abs(comp - init0).max()) if comp.shape == init0.shape else float('nan'), scipy.__version__, nit),
                signature='%s max_iter=0: components_ != initialisation (L-BFGS-B ran nit=%r)' % (learner, nit))
  return None


class _Trace(object):
  """stdout stand-in: remembers, for every printed line, how many _loss_grad calls had been made when it was printed"""
  def __init__(self, est):
    self.est = est
    self.buf = ''
    self.events = []

  def write(self, s):
    self.buf += s
    while '\n' in self.buf:
      line, self.buf = self.buf.split('\n', 1)
      self.events.append((len(self.est.__dict__.get('_c10_calls', [])) - 1, line))
    return len(s)

  def flush(self):
    pass


def check_lmnn_fit(ml, ds, iname, init, n_components, max_iter, learn_rate, rs):
  from metric_learn._util import _initialize_components
  X, y, k, reg = ds['X'], ds['y'], ds['k'], ds['reg']
  inp = jsonable(learner='LMNN', X=X, y=y, init=init, n_components=n_components, max_iter=max_iter, learn_rate=learn_rate,
                 n_neighbors=k, regularization=reg, random_state=rs)
  T, ambiguous = lmnn_targets(X, y, k)
  nc = ds['d'] if n_components is None else n_components
  init0 = np.array(_initialize_components(nc, X, y, init.copy() if isinstance(init, np.ndarray) else init, False, rs), dtype=float, copy=True)
  est = lmnn_recorder(ml)(init=as_given(init), n_components=n_components, max_iter=max_iter,
                          learn_rate=learn_rate, n_neighbors=k, regularization=reg, random_state=rs, verbose=True)
  trace = _Trace(est)
  raised = None
  try:
    with contextlib.redirect_stdout(trace):
      est.fit(X, y)
  except Exception as e:
    raised = '%s: %s' % (type(e).__name__, e)
  calls = est.__dict__.get('_c10_calls', [])
  # accepted iterates: the initial point, then the last evaluated point before each per-iteration line of the verbose output
  accepted = [0] if calls else []
  printed = [None]
  for idx, line in trace.events:
    parts = line.split()
    if len(parts) == 5 and parts[0].isdigit():
      try:
        printed.append(float(parts[1]))
      except ValueError:
        continue
      accepted.append(idx)
  lib = [calls[i]['objective'] for i in accepted]
  for a in range(1, len(lib)):
    if not (lib[a] <= lib[a - 1] + 1e-12 * (1.0 + abs(lib[a - 1]))):
      return dict(tag='lmnn.accepted-iterates-non-increasing', input=inp,
                  observed='iteration %d accepted with objective %r after %r (values returned by _loss_grad)' % (a + 1, lib[a], lib[a - 1]),
                  signature='LMNN accepts an iterate with a larger objective')
  if not ambiguous:
    ind = [lmnn_objective(calls[i]['L'], X, y, T, reg)[0] for i in accepted]
    for a in range(1, len(ind)):
      if not (ind[a] <= ind[a - 1] + DESC_RTOL * (1.0 + abs(ind[a - 1]))):
        return dict(tag='lmnn.accepted-iterates-non-increasing', input=inp,
                    observed='iteration %d accepted with documented objective %r after %r (independent evaluation at the accepted L)' % (a + 1, ind[a], ind[a - 1]),
                    signature='LMNN accepts an iterate with a larger objective')
    for a in range(1, len(ind)):
      if printed[a] is not None and not close(printed[a], ind[a], VAL_RTOL, 1e-9):
        return dict(tag='lmnn.loss-is-documented-objective', input=inp,
                    observed='iteration %d: printed objective %r, documented objective at the accepted L %r' % (a + 1, printed[a], ind[a]),
                    signature='LMNN objective value differs from the documented pull + hinge push')
  if raised is not None:
    return dict(tag='lmnn.fit-not-worse-than-init', input=inp, observed='fit raised ' + raised,
                signature='LMNN.fit raises on well-formed input (init=%s)' % iname)
  comp = np.asarray(est.components_, dtype=float)
  if max_iter <= 2:
    if comp.shape != init0.shape or not np.array_equal(comp, init0):
      return dict(tag='lmnn.zero-iterations-give-init', input=inp,
                  observed='max_iter=%d (no optimiser iteration): components_ differs from the documented initialisation by %r'
                           % (max_iter, float(np.abs(comp - init0).max()) if comp.shape == init0.shape else 'shape'),
                  signature='LMNN max_iter<=2: components_ != initialisation')
    if len(calls) != 1:
      return dict(tag='lmnn.zero-iterations-give-init', input=inp, observed='max_iter=%d but %d objective evaluations' % (max_iter, len(calls)),
                  signature='LMNN max_iter<=2 runs optimiser iterations')
  if calls and not np.array_equal(calls[0]['L'], init0):
    return dict(tag='lmnn.zero-iterations-give-init', input=inp,
                observed='first evaluated L differs from the documented initialisation by %r' % float(np.abs(calls[0]['L'] - init0).max()),
                signature='LMNN.fit does not start at the documented initialisation')
  if not ambiguous:
    o_init, o_fit = lmnn_objective(init0, X, y, T, reg)[0], lmnn_objective(comp, X, y, T, reg)[0]
    if not (o_fit <= o_init + DESC_RTOL * (1.0 + abs(o_init))):
      return dict(tag='lmnn.fit-not-worse-than-init', input=inp,
                  observed='documented objective at components_ %r, at the documented initialisation %r' % (o_fit, o_init),
                  signature='LMNN.fit returns a transformation worse than the initialisation')
  return None


# ----------------------------------------------------------------------------------------------------------------------
# interface
# ----------------------------------------------------------------------------------------------------------------------
def cases(tier, seed):
  ml = repo()
  quick = tier == 'quick'
  n_L = 16 if quick else 50
  for ds in datasets(tier, seed):
    rng = np.random.RandomState((seed * 7919 + ds['idx'] * 104729 + 17) % (2 ** 31 - 1))
    # value and gradient at random L
    for t, (lname, L) in enumerate(transformations(rng, ds['d'], n_L)):
      sign = -1.0 if t % 2 == 0 else 1.0
      yield ('NCA value+gradient %s L=%s sign=%+d' % (ds['desc'], lname, sign), (T_NCA_LG,),
             guarded(lambda ds=ds, lname=lname, L=L, sign=sign: check_nca_point(ml, ds, lname, L, sign), T_NCA_LG))
      yield ('MLKR value+gradient %s L=%s' % (ds['desc'], lname), (T_MLKR_LG,),
             guarded(lambda ds=ds, lname=lname, L=L: check_mlkr_point(ml, ds, lname, L), T_MLKR_LG))
      if not ds['dup']:
        yield ('LMNN value+gradient %s k=%d reg=%g L=%s' % (ds['desc'], ds['k'], ds['reg'], lname), (T_LMNN_LG,),
               guarded(lambda ds=ds, lname=lname, L=L: check_lmnn_point(ml, ds, lname, L), T_LMNN_LG))
    # fit
    opts = init_options(ds, rng, with_lda=True)
    if quick:
      opts = [o for i, o in enumerate(opts) if (i + ds['idx']) % 2 == 0 or o[0] == 'lda'][:7]
    for j, (iname, init, ncomp) in enumerate(opts):
      rs = 11 + j
      probe = rng.randn(ds['d'] if ncomp is None else ncomp, ds['d'])
      for max_iter in ((0, 25) if quick else (0, 1, 5, 40)):
        yield ('NCA fit %s init=%s n_components=%s max_iter=%d' % (ds['desc'], iname, ncomp, max_iter), (T_NCA_FIT, T_NCA_LG),
               guarded(lambda ds=ds, iname=iname, init=init, ncomp=ncomp, max_iter=max_iter, rs=rs, probe=probe:
                       check_lbfgs_fit(ml, 'NCA', ds, iname, init, ncomp, max_iter, rs, probe), T_NCA_FIT))
        if iname != 'lda':
          yield ('MLKR fit %s init=%s n_components=%s max_iter=%d' % (ds['desc'], iname, ncomp, max_iter), (T_MLKR_FIT, T_MLKR_LG),
                 guarded(lambda ds=ds, iname=iname, init=init, ncomp=ncomp, max_iter=max_iter, rs=rs, probe=probe:
                         check_lbfgs_fit(ml, 'MLKR', ds, iname, init, ncomp, max_iter, rs, probe), T_MLKR_FIT))
      if ds['dup']:
        continue
      for max_iter in (0, 1, 2):
        if quick and max_iter != (j % 3):
          continue
        yield ('LMNN fit %s init=%s n_components=%s max_iter=%d (no optimiser iteration)' % (ds['desc'], iname, ncomp, max_iter), (T_LMNN_FIT,),
               guarded(lambda ds=ds, iname=iname, init=init, ncomp=ncomp, max_iter=max_iter, rs=rs:
                       check_lmnn_fit(ml, ds, iname, init, ncomp, max_iter, 1e-7, rs), T_LMNN_FIT))
      rates = ((1e-7, 1e-2, 1.0), (1e-3, 1e-1, 10.0))[j % 2]
      if quick:
        rates = rates[1:]
      for lr in rates:
        max_iter = 12 if quick else (12, 60)[j % 2]
        yield ('LMNN fit %s init=%s n_components=%s max_iter=%d learn_rate=%g' % (ds['desc'], iname, ncomp, max_iter, lr), (T_LMNN_FIT, T_LMNN_LG),
               guarded(lambda ds=ds, iname=iname, init=init, ncomp=ncomp, max_iter=max_iter, lr=lr, rs=rs:
                       check_lmnn_fit(ml, ds, iname, init, ncomp, max_iter, lr, rs), T_LMNN_FIT))


def run(tier, seed):
  try:      # tiny matrices: BLAS threads only cost time
    from threadpoolctl import threadpool_limits
  except Exception:
    return _run(tier, seed)
  with threadpool_limits(limits=1):
    return _run(tier, seed)


def _run(tier, seed):
  n = 0
  vio = []
  per_sig = {}
  samples = []
  distinct = set()
  for desc, tags, thunk in cases(tier, seed):
    n += 1
    distinct.add(desc)
    if n % 173 == 1 and len(samples) < 8:
      samples.append(desc)
    bad = thunk()
    if bad:
      sig = bad.get('signature', desc)
      per_sig[sig] = per_sig.get(sig, 0) + 1
      if per_sig[sig] <= 2 and len(vio) < 40:
        vio.append(dict(clause='runtime/C10/%s' % bad['tag'], input=bad['input'], observed=bad['observed'], signature=sig))
  quick = tier == 'quick'
  return dict(cases=n, distinct_nontrivial=len(distinct),
              rule='generated well-formed datasets (isotropic / anisotropic / separated classes / non-contiguous labels / one duplicated point) x '
                   '{NCA, MLKR, LMNN} x {value and gradient of the function that drives the optimiser at random L in R^{k x d}, k = 1..d, scales 0.1..2, '
                   'plus truncated identity and zero, against an independent O(n^2 k) evaluation of the documented objective and its central finite difference; '
                   'fit with init in {identity, pca, lda, random, auto, array} x n_components in {None, k<d} x max_iter (0 and small): never worse than the '
                   'documented initialisation, optimiser driven by the documented objective from the documented initialisation, zero iterations give the '
                   'initialisation exactly; LMNN accepted iterates (observed through the wrapped _loss_grad and the verbose trace) non-increasing for '
                   'learn_rate 1e-7..10}; distinct = distinct (learner, dataset, L or fit configuration); all are non-trivial (n >= 8 points, >= 2 classes)',
              bound='%d datasets, d in 2..5, n in 4d..30, 2..4 classes, n_neighbors 1..3, regularization in {0.2, 0.35, 0.5, 0.8}, %d transformations per dataset and learner; '
                    'fits with max_iter <= %d; gradient tolerance %g relative (central differences), value tolerance %g relative'
                    % (6 if quick else 20, 16 if quick else 50, 25 if quick else 60, GRAD_RTOL, VAL_RTOL),
              standin_samples=samples, violations=vio)


def replay_clause(cid, fail, seed):
  """first failing case that exercises the function named in cid (else any failing case of the property)"""
  target = cid.split('[')[0].split('/')[0]
  only = [t for t in ALL_TAGS if t == target or t.split(':')[1] == target or target.endswith(t.split(':')[1])]
  first_other = None
  for desc, tags, thunk in cases('quick', seed):
    if only and not (set(tags) & set(only)):
      continue
    bad = thunk()
    if bad:
      return dict(failing_input=bad['input'], observed='%s: %s' % (bad['tag'], bad['observed']))
  if only:
    for desc, tags, thunk in cases('quick', seed):
      if set(tags) & set(only):
        continue
      bad = thunk()
      if bad:
        return dict(failing_input=bad['input'], observed='%s: %s' % (bad['tag'], bad['observed']))
  return dict(note='no failing input among the quick stand-in cases')
