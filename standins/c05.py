"""C05 bounded stand-in / replay: indicators + preprocessor are interchangeable with formed points / tuples, on the
REAL code.  bounded -- not proved.

Three groups of cases
* query time (no solver): every one of the 17 estimator classes gets its fitted state set directly
  (common.make_fitted), its `preprocessor` parameter set to {float ndarray, integer ndarray, Fortran-ordered ndarray,
  nested list, callable} and `preprocessor_` derived by the real `_check_preprocessor`; every data-taking method
  (transform, pair_distance, pair_score, and predict / decision_function / score / calibrate_threshold where the class has
  them) is called (a) with indicators, (b) with the formed data X[indicators] on an estimator WITHOUT preprocessor and
  (c) with the formed data on an estimator WITH the preprocessor.  Oracle: the three results are bit-for-bit equal
  (np.array_equal, NaN == NaN), and in (c) a callable preprocessor has been called 0 times.
* fit: all 17 estimators are really fitted (small data, small max_iter, fixed random_state) under (a), (b), (c);
  components_ (and threshold_ of pairs learners) and the transform of fresh data must be bit-for-bit equal.
* errors: an exception of any Exception subclass raised by a callable preprocessor, or an IndexError raised inside the
  array indexer (index out of range), must surface from every data-taking method (and fit) as
  metric_learn.exceptions.PreprocessorError.
Index arrays: int8/16/32/64, uint8/16/32/64, intp, python list; permutations, draws with repeats, reversed, sorted,
nearly constant; 1-D for points, (n, 2/3/4) for tuples.
"""
import inspect
import warnings

import numpy as np

from .common import repo, PUBLIC, KIND, make_fitted, transformations

D = 3
F_TUPLES = ('_util:check_input', '_util:check_input_tuples', '_util:preprocess_tuples')
F_POINTS = ('_util:check_input', '_util:check_input_classic', '_util:preprocess_points')
F_ARRAY = ('_util:ArrayIndexer.__init__', '_util:ArrayIndexer.__call__', 'base_metric:BaseMetricLearner._check_preprocessor')
F_CALLABLE = ('base_metric:BaseMetricLearner._check_preprocessor',)
F_PREPARE = ('base_metric:BaseMetricLearner._prepare_inputs',)

PREPS = ('ndarray', 'ndarray-int', 'ndarray-F', 'list', 'callable', 'ndarray-nanrows')
DTYPES = ('int8', 'int16', 'int32', 'int64', 'uint8', 'uint16', 'uint32', 'uint64', 'intp', 'pylist', 'int64-F', 'int32-T')
PATTERNS = ('permutation', 'repeats', 'reversed', 'sorted', 'nearly-constant')
LKINDS = ('random', 'lowrank-2', 'rank-deficient', 'identity', 'lowrank-1')
CALIB = (('accuracy', {}), ('f_beta', dict(beta=1.0)), ('max_tpr', dict(min_rate=0.5)), ('max_tnr', dict(min_rate=0.5)))


# ----------------------------------------------------------------------------------------------- helpers

def make_prep(kind, pool):
  """-> (preprocessor object to give the estimator, numpy view of the pool the oracle indexes, call log or None)"""
  if kind == 'ndarray':
    return pool.copy(), pool, None
  if kind == 'ndarray-int':
    Xi = np.round(pool * 3).astype(np.int64)
    return Xi.copy(), Xi, None
  if kind == 'ndarray-F':
    return np.asfortranarray(pool), pool, None
  if kind == 'list':
    return pool.tolist(), pool, None
  if kind == 'ndarray-nanrows':
    # a table with incomplete records that NO indicator refers to (they sit after the last referenced row): only the selected rows matter
    junk = np.full((3, pool.shape[1]), np.nan)
    junk[1, 0] = np.inf
    return np.vstack([pool, junk]), pool, None
  log = []
  Xc = pool.copy()

  def preprocessor(indicators):
    log.append(np.shape(indicators))
    return Xc[indicators]
  return preprocessor, pool, log


def index_array(rng, pattern, m, n, t):
  """indicators in [0, m): 1-D of length n (t None) or (n, t)"""
  size = n if t is None else n * t
  if pattern == 'permutation':
    flat = np.concatenate([rng.permutation(m) for _ in range(size // m + 1)])[:size]
  elif pattern == 'repeats':
    flat = rng.randint(0, m, size=size)
  elif pattern == 'reversed':
    flat = (np.arange(size)[::-1] * 5 + 3) % m
  elif pattern == 'sorted':
    flat = np.sort(rng.randint(0, m, size=size))
  else:
    flat = np.full(size, int(rng.randint(m)))
    flat[rng.randint(size)] = (flat[0] + 1 + rng.randint(m - 1)) % m
    flat[-1] = (flat[0] + 1) % m
  flat = flat.astype(np.int64)
  return flat if t is None else flat.reshape(n, t)


def as_dtype(idx, dt):
  if dt == 'pylist':
    return idx.tolist()
  if dt.endswith('-F'):       # the same indicators in column-major memory order
    return np.asfortranarray(np.asarray(idx).astype(dt[:-2]))
  if dt.endswith('-T'):       # a transposed view (what np.array([left, right]).T gives)
    a = np.asarray(idx).astype(dt[:-2])
    return np.ascontiguousarray(a.T).T if a.ndim == 2 else a
  return idx.astype(dt)


def single_thread():
  """tiny problems: the BLAS / OpenMP pools of scikit-learn's KMeans and k-NN cost 100x more than they save"""
  try:
    from threadpoolctl import threadpool_limits
    return threadpool_limits(limits=1)
  except Exception:
    import contextlib
    return contextlib.nullcontext()


def same(a, b):
  a, b = np.asarray(a), np.asarray(b)
  if a.shape != b.shape:
    return False
  try:
    return bool(np.array_equal(a, b, equal_nan=True))
  except TypeError:
    return bool(np.array_equal(a, b))


def fitted(ml, cls, L, prep):
  """directly-set fitted state; preprocessor_ is derived from the `preprocessor` parameter by the real code"""
  est = make_fitted(ml, cls, L)
  est.preprocessor = prep
  est._check_preprocessor()
  return est


def methods_of(cls):
  """(method, tuple size of its data argument or None for points)"""
  kind, t = KIND[cls]
  m = [('transform', None), ('pair_distance', 2), ('pair_score', 2)]
  if kind == 'pairs':
    m += [('predict', 2), ('decision_function', 2), ('score', 2)] + [('calibrate_threshold:%d' % i, 2) for i in range(len(CALIB))]
  elif kind in ('triplets', 'quadruplets'):
    m += [('predict', t), ('decision_function', t), ('score', t)]
  return m


def call(est, method, data, y):
  if method.startswith('calibrate_threshold'):
    strategy, kw = CALIB[int(method.split(':')[1])]
    r = est.calibrate_threshold(data, y, strategy=strategy, **kw)
    return np.array([est.threshold_])
  if method == 'score' and KIND[type(est).__name__][0] == 'pairs':
    return est.score(data, y)
  return getattr(est, method)(data)


def outcome(fn):
  """('ok', value) or ('raised', exception type name, message)"""
  with warnings.catch_warnings():
    warnings.simplefilter('ignore')
    with np.errstate(all='ignore'):
      try:
        return ('ok', fn())
      except Exception as e:
        return ('raised', type(e).__name__, str(e)[:300])


def describe(o):
  if o[0] == 'ok':
    return 'returned %s' % (np.array2string(np.asarray(o[1]), threshold=20, precision=17) if not isinstance(o[1], str) else o[1])
  return 'raised %s: %s' % (o[1], o[2])


def equal_outcomes(o1, o2):
  if o1[0] != o2[0]:
    return False
  if o1[0] == 'raised':
    return o1[1] == o2[1]
  return same(o1[1], o2[1])


# ----------------------------------------------------------------------------------------------- query-time oracle

def check_query(ml, cls, lname, L, prepkind, pool, idx, dt, method, seed):
  prep_i, Xnp, _ = make_prep(prepkind, pool)
  prep_c, _, log = make_prep(prepkind, pool)
  formed = Xnp[idx]
  arg = as_dtype(idx, dt)
  y = None
  if KIND[cls][0] == 'pairs' and (method == 'score' or method.startswith('calibrate')):
    y = np.where(np.random.RandomState(seed).rand(len(idx)) < 0.5, 1, -1)
    y[0], y[1] = 1, -1
  o_idx = outcome(lambda: call(fitted(ml, cls, L, prep_i), method, arg, y))
  o_formed = outcome(lambda: call(fitted(ml, cls, L, None), method, formed, y))
  o_pf = outcome(lambda: call(fitted(ml, cls, L, prep_c), method, formed, y))
  inp = dict(estimator=cls, components_=np.asarray(L).tolist(), transformation=lname, preprocessor=prepkind, pool=Xnp.tolist(),
             indicators=np.asarray(idx).tolist(), indicator_dtype=dt, method=method, y=None if y is None else y.tolist())
  m = method.split(':')[0]
  # (if the method rejects the formed data, equivalence only asks for the same rejection under the other representation)
  if not equal_outcomes(o_idx, o_formed):
    return dict(tag=m + '/indicators-equal-formed', observed='with indicators: %s; with formed data: %s' % (describe(o_idx), describe(o_formed)), input=inp)
  if log is not None and len(log) != 0:
    return dict(tag=m + '/preprocessor-not-consulted-on-formed-data', observed='callable preprocessor was called %d time(s) with shapes %r on formed data' % (len(log), log), input=inp)
  if not equal_outcomes(o_pf, o_formed):
    return dict(tag=m + '/preprocessor-not-consulted-on-formed-data',
                observed='formed data, estimator with preprocessor: %s; without: %s' % (describe(o_pf), describe(o_formed)), input=inp)
  return None


# ----------------------------------------------------------------------------------------------- error surfacing

class _Custom(Exception):
  pass


def raising_preps(pool):
  def mk(exc):
    def preprocessor(indicators):
      raise exc
    return preprocessor

  def zero_div(indicators):
    return pool[indicators] / (1 // 0)

  def key_err(indicators):
    return {}[0]
  yield 'callable raising ValueError', mk(ValueError('boom')), None
  yield 'callable raising TypeError', mk(TypeError('boom')), None
  yield 'callable raising RuntimeError', mk(RuntimeError('boom')), None
  yield 'callable raising IndexError', mk(IndexError('boom')), None
  yield 'callable raising custom Exception subclass', mk(_Custom('boom')), None
  yield 'callable raising OSError', mk(OSError('boom')), None
  yield 'callable hitting ZeroDivisionError', zero_div, None
  yield 'callable hitting KeyError', key_err, None
  yield 'ndarray indexed out of range', pool.copy(), len(pool) + 5
  yield 'list indexed out of range', pool.tolist(), len(pool)


def check_error(ml, cls, L, pdesc, prep, bad_index, idx, method, fit_args=None):
  from metric_learn.exceptions import PreprocessorError
  idx = idx.copy()
  if bad_index is not None:
    idx.flat[idx.size // 2] = bad_index
  y = None
  if KIND[cls][0] == 'pairs' and (method == 'score' or method.startswith('calibrate')):
    y = np.array(([1, -1] * len(idx))[:len(idx)])
  inp = dict(estimator=cls, preprocessor=pdesc, indicators=idx.tolist(), method=method)
  with warnings.catch_warnings():
    warnings.simplefilter('ignore')
    try:
      if method == 'fit':
        est = new_estimator(ml, cls, prep)
        est.fit(idx, *fit_args)
      else:
        call(fitted(ml, cls, L, prep), method, idx, y)
    except PreprocessorError:
      return None
    except Exception as e:
      return dict(tag=method.split(':')[0] + '/preprocessor-exception-surfaces-as-PreprocessorError', observed='%s: %s' % (type(e).__name__, str(e)[:200]), input=inp)
  return dict(tag=method.split(':')[0] + '/preprocessor-exception-surfaces-as-PreprocessorError', observed='no exception', input=inp)


# ----------------------------------------------------------------------------------------------- real fits

FIT_PARAMS = dict(LMNN=dict(max_iter=10, min_iter=2, n_neighbors=2), NCA=dict(max_iter=5), MLKR=dict(max_iter=5),
                  RCA_Supervised=dict(n_chunks=10, chunk_size=2), ITML=dict(max_iter=10), ITML_Supervised=dict(max_iter=10, n_constraints=30),
                  MMC=dict(max_iter=5), MMC_Supervised=dict(max_iter=5, n_constraints=30), SDML=dict(prior='identity', balance_param=1e-5),
                  SDML_Supervised=dict(prior='identity', balance_param=1e-5, n_constraints=30), LSML=dict(max_iter=10),
                  LSML_Supervised=dict(max_iter=10, n_constraints=30), SCML=dict(max_iter=100, n_basis=20, output_iter=25),
                  SCML_Supervised=dict(max_iter=60, n_basis=20, output_iter=20, k_genuine=2, k_impostor=3))


def new_estimator(ml, cls, prep):
  klass = getattr(ml, cls)
  kw = dict(FIT_PARAMS.get(cls, {}))
  if 'random_state' in inspect.signature(klass.__init__).parameters:
    kw['random_state'] = 42
  return klass(preprocessor=prep, **kw)


def fit_problem(rng, cls, pattern):
  """pool of 3 gaussian clusters; indicators (with repeats / arbitrary order) and the extra fit arguments"""
  centers = np.array([[0, 0, 0], [4, 0, 1], [0, 4, -1.0]])
  pool = np.vstack([centers[k] + rng.randn(14, D) for k in range(3)])
  lab = np.repeat([0, 1, 2], 14)
  m = len(pool)
  kind, t = KIND[cls]

  def same_(i):
    return rng.choice(np.where(lab == lab[i])[0])

  def diff_(i):
    return rng.choice(np.where(lab != lab[i])[0])
  if kind == 'points':
    if pattern == 'repeats':
      idx = rng.permutation(m)[:30]
      idx = np.concatenate([idx, idx[:6]])[rng.permutation(36)]
    elif pattern == 'sorted':
      idx = np.sort(np.concatenate([np.arange(m), rng.randint(0, m, size=4)]))
    else:
      idx = rng.permutation(m)
    y = lab[idx]
    if cls == 'Covariance':
      args = ()
    elif cls == 'RCA':
      args = (np.where(np.arange(len(idx)) % 4 == 0, -1, y),)
    elif cls == 'MLKR':
      args = (y.astype(float) + 0.25 * rng.randn(len(y)),)
    else:
      args = (y,)
    return pool, idx, args
  A = rng.randint(0, m, size=24) if pattern != 'sorted' else np.sort(rng.randint(0, m, size=24))
  if t == 2:
    idx = np.array([[a, same_(a)] if k % 2 else [a, diff_(a)] for k, a in enumerate(A)])
    return pool, idx, (np.where(lab[idx[:, 0]] == lab[idx[:, 1]], 1, -1),)
  if t == 3:
    return pool, np.array([[a, same_(a), diff_(a)] for a in A]), ()
  B = rng.randint(0, m, size=24)
  return pool, np.array([[a, same_(a), b, diff_(b)] for a, b in zip(A, B)]), ()


def fit_outcome(ml, cls, prep, data, args, test_points, test_arg):
  def go():
    est = new_estimator(ml, cls, prep)
    with single_thread():
      est.fit(data, *args)
    out = dict(components_=np.array(est.components_))
    if KIND[cls][0] == 'pairs':
      out['threshold_'] = np.array([est.threshold_])
    out['transform(fresh)'] = est.transform(test_arg if prep is not None else test_points)
    return out
  return outcome(go)


def check_fit(ml, cls, prepkind, pattern, dt, seed, cache):
  rng = np.random.RandomState(seed)
  pool, idx, args = fit_problem(rng, cls, pattern)
  test_idx = rng.randint(0, len(pool), size=7)
  prep_i, Xnp, _ = make_prep(prepkind, pool)
  prep_c, _, log = make_prep(prepkind, pool)
  formed = Xnp[idx]
  key = (cls, pattern, seed)
  if key not in cache:
    cache[key] = fit_outcome(ml, cls, None, formed, args, Xnp[test_idx], None)
  o_formed = cache[key]
  o_idx = fit_outcome(ml, cls, prep_i, as_dtype(idx, dt), args, Xnp[test_idx], as_dtype(test_idx, dt))
  o_pf = fit_outcome(ml, cls, prep_c, formed, args, Xnp[test_idx], Xnp[test_idx])
  inp = dict(estimator=cls, params=dict(FIT_PARAMS.get(cls, {}), random_state=42), preprocessor=prepkind, pool=Xnp.tolist(),
             indicators=np.asarray(idx).tolist(), indicator_dtype=dt, fit_args=[np.asarray(a).tolist() for a in args])
  if o_formed[0] == 'raised':
    # the solver failed on the formed data: equivalence then only asks for the same failure under the other representation
    if o_idx[0] == 'raised' and o_idx[1] == o_formed[1]:
      return None
    return dict(tag='fit/indicators-equal-formed', observed='formed data: %s; indicators: %s' % (describe(o_formed), describe(o_idx)), input=inp)
  for name, other, tag in (('indicators + preprocessor', o_idx, 'fit/indicators-equal-formed'),
                           ('formed data on an estimator with a preprocessor', o_pf, 'fit/preprocessor-not-consulted-on-formed-data')):
    if other[0] == 'raised':
      return dict(tag=tag, observed='%s: %s, but fit on formed data succeeded' % (name, describe(other)), input=inp)
    for attr, ref in o_formed[1].items():
      if not same(other[1][attr], ref):
        return dict(tag=tag, observed='%s differs -- %s: %r; formed data without preprocessor: %r'
                    % (attr, name, np.asarray(other[1][attr]).tolist(), np.asarray(ref).tolist()), input=inp)
  if log is not None and len(log) != 0:
    return dict(tag='fit/preprocessor-not-consulted-on-formed-data', observed='callable preprocessor called %d time(s) (shapes %r) by fit/transform on formed data' % (len(log), log), input=inp)
  return None


def check_switch(ml, cls, kind_a, kind_b, seed, cache):
  """the SAME estimator object is used with preprocessor A, then given preprocessor B through set_params and used again with
  indicators: everything it then computes must equal what it computes from the formed data B[indicators]
  ("indices plus a preprocessor are interchangeable with explicitly formed points / tuples" -- for the preprocessor it has)"""
  rng = np.random.RandomState(seed)
  pool, idx, args = fit_problem(rng, cls, 'repeats')
  # the second pool keeps the cluster structure (labels stay meaningful) but is a different array: an affine image of the first
  Q = np.array([[0.8, -0.6, 0.0], [0.6, 0.8, 0.0], [0.0, 0.0, 1.0]])
  pool_b = (pool * np.array([1.0, 2.0, 0.5])).dot(Q) + np.array([3.0, -1.0, 2.0])
  test_idx = rng.randint(0, len(pool), size=7)
  prep_a, _, _ = make_prep(kind_a, pool)
  prep_b, Xb, _ = make_prep(kind_b, pool_b)
  key = (cls, 'switch', seed)
  if key not in cache:
    cache[key] = fit_outcome(ml, cls, None, Xb[idx], args, Xb[test_idx], None)
  o_formed = cache[key]

  def go():
    est = new_estimator(ml, cls, prep_a)
    with single_thread():
      est.fit(idx, *args)
      est.set_params(preprocessor=prep_b)
      est.fit(idx, *args)
    out = dict(components_=np.array(est.components_))
    if KIND[cls][0] == 'pairs':
      out['threshold_'] = np.array([est.threshold_])
    out['transform(fresh)'] = est.transform(test_idx)
    return out
  o_sw = outcome(go)
  inp = dict(estimator=cls, params=dict(FIT_PARAMS.get(cls, {}), random_state=42), first_preprocessor=kind_a, second_preprocessor=kind_b,
             history='fit(indicators) with A; set_params(preprocessor=B); fit(indicators)', pool_A=pool.tolist(), pool_B=pool_b.tolist(),
             indicators=np.asarray(idx).tolist(), fit_args=[np.asarray(a).tolist() for a in args])
  tag = 'fit/indicators-equal-formed-after-preprocessor-replaced'
  if o_formed[0] == 'raised':
    return None if (o_sw[0] == 'raised' and o_sw[1] == o_formed[1]) else \
        dict(tag=tag, observed='formed data: %s; after the switch: %s' % (describe(o_formed), describe(o_sw)), input=inp)
  if o_sw[0] == 'raised':
    return dict(tag=tag, observed='%s, but fit on the formed data B[indicators] succeeded' % describe(o_sw), input=inp)
  for attr, ref in o_formed[1].items():
    if not same(o_sw[1][attr], ref):
      return dict(tag=tag, observed='%s differs from the fit on B[indicators] (the estimator still resolves indicators against its earlier preprocessor?)' % attr, input=inp)
  return None


# ----------------------------------------------------------------------------------------------- cases

def _tags(t, prepkind, extra=()):
  return (F_TUPLES if t else F_POINTS) + (F_CALLABLE if prepkind.startswith('callable') else F_ARRAY) + tuple(extra)


def _guard(fn, tag, desc):
  def thunk():
    try:
      return fn()
    except Exception as e:
      import traceback
      return dict(tag=tag + '/oracle-completed', observed='%s: %s' % (type(e).__name__, e), input=dict(case=desc, traceback=traceback.format_exc()[-800:]))
  return thunk


def cases(tier, seed):
  ml = repo()
  quick = tier == 'quick'
  rng = np.random.RandomState(seed)
  Ls = {name: L for name, L in transformations(rng, D)}
  m, n = 23, 9
  # ---- query time
  for ci, cls in enumerate(PUBLIC):
    for pi, prepkind in enumerate(PREPS):
      for di, dt in enumerate(DTYPES):
        pats = (PATTERNS[(ci + pi + di) % len(PATTERNS)],) if quick else PATTERNS
        for pattern in pats:
          lname = LKINDS[(ci + di + PATTERNS.index(pattern)) % len(LKINDS)]
          L = Ls[lname]
          pool = rng.randn(m, D) * (1.0 if (ci + pi) % 2 else 100.0)
          s = int(rng.randint(2 ** 31))
          idxs = {t: index_array(rng, pattern, m, n, t) for t in (None, 2, 3, 4)}
          for method, t in methods_of(cls):
            desc = '%s.%s prep=%s indicators=%s/%s%s L=%s' % (cls, method.replace(':', '#'), prepkind, dt, pattern, '' if t is None else ' x%d' % t, lname)
            yield (desc, _tags(t, prepkind, F_PREPARE if method.startswith('calibrate') else ()),
                   _guard(lambda cls=cls, lname=lname, L=L, prepkind=prepkind, pool=pool, idx=idxs[t], dt=dt, method=method, s=s:
                          check_query(ml, cls, lname, L, prepkind, pool, idx, dt, method, s), method.split(':')[0], desc))
  # ---- errors
  pool = rng.randn(m, D)
  for cls in PUBLIC:
    for pdesc, prep, bad_index in raising_preps(pool):
      idxs = {t: index_array(rng, 'repeats', m, 6, t) for t in (None, 2, 3, 4)}
      for method, t in methods_of(cls):
        if method.startswith('calibrate') and not method.endswith(':0'):
          continue
        desc = '%s.%s prep=%s' % (cls, method.split(':')[0], pdesc)
        yield (desc, _tags(t, pdesc),
               _guard(lambda cls=cls, pdesc=pdesc, prep=prep, bad_index=bad_index, idx=idxs[t], method=method:
                      check_error(ml, cls, Ls['random'], pdesc, prep, bad_index, idx, method), method.split(':')[0], desc))
      p, idx, args = fit_problem(np.random.RandomState(seed + 7), cls, 'repeats')
      prep_fit = prep if callable(prep) else (p.copy() if isinstance(prep, np.ndarray) else p.tolist())
      desc = '%s.fit prep=%s' % (cls, pdesc)
      yield (desc, _tags(KIND[cls][1], pdesc, F_PREPARE),
             _guard(lambda cls=cls, pdesc=pdesc, prep_fit=prep_fit, bad_index=(None if bad_index is None else len(p) + 3), idx=idx, args=args:
                    check_error(ml, cls, None, pdesc, prep_fit, bad_index, idx, 'fit', args), 'fit', desc))
  # ---- real fits
  cache = {}
  variants = (('repeats', 'int32'), ('permutation', 'uint8'), ('sorted', 'int64'), ('repeats', 'pylist'), ('permutation', 'int64-F'), ('repeats', 'int32-T')) if quick else \
      tuple((p, dt) for p in ('repeats', 'permutation', 'sorted') for dt in ('int8', 'int32', 'int64', 'uint8', 'uint64', 'pylist', 'int64-F', 'int32-T'))
  for cls in PUBLIC:
    for vi, (pattern, dt) in enumerate(variants):
      for prepkind in ('ndarray', 'list', 'callable') + (('ndarray-nanrows',) if vi == 0 else ()):
        s = seed * 100 + (vi if quick else vi % 6)
        desc = '%s.fit prep=%s indicators=%s/%s seed=%d' % (cls, prepkind, dt, pattern, s)
        yield (desc, _tags(KIND[cls][1], prepkind, F_PREPARE),
               _guard(lambda cls=cls, prepkind=prepkind, pattern=pattern, dt=dt, s=s: check_fit(ml, cls, prepkind, pattern, dt, s, cache), 'fit', desc))
  # ---- the preprocessor is replaced on a used estimator
  yield from _switch_cases(ml, tier, seed, cache)
  # ---- one integer feature
  for cls in ('Covariance', 'LMNN'):
    for prepkind in ('ndarray', 'list', 'callable'):
      desc = '%s formed (n, 1) integer points, preprocessor=%s' % (cls, prepkind)
      yield (desc, F_POINTS + (F_CALLABLE if prepkind == 'callable' else F_ARRAY),
             _guard(lambda cls=cls, prepkind=prepkind: check_single_feature(ml, cls, prepkind, seed + 77), 'fit', desc))


def check_single_feature(ml, cls, prepkind, seed):
  """formed data with ONE feature and integer dtype, on an estimator that has a preprocessor: (n, 1) points / (n, t, 1) tuples are formed
  data (not indicators) -- same results as without preprocessor, and the preprocessor is not consulted"""
  rng = np.random.RandomState(seed)
  n = 14
  X = rng.permutation(n).reshape(n, 1).astype(np.int64)          # values that would all be valid row numbers of the pool
  pool = rng.randn(n, 1) * 5.0
  prep, _, log = make_prep(prepkind, pool)
  inp = dict(estimator=cls, preprocessor=prepkind, formed_points=X.tolist(), note='one integer feature; every value is a valid row number')
  with single_thread():
    if cls == 'Covariance':
      a = ml.Covariance().fit(X)
      b = ml.Covariance(preprocessor=prep).fit(X)
      outs = [('components_', a.components_, b.components_), ('transform', a.transform(X), b.transform(X))]
    else:
      y = np.arange(n) % 2
      a = ml.LMNN(n_neighbors=2, max_iter=3, random_state=0).fit(X, y)
      b = ml.LMNN(n_neighbors=2, max_iter=3, random_state=0, preprocessor=prep).fit(X, y)
      P = np.stack([X[:6], X[6:12]], axis=1)
      outs = [('components_', a.components_, b.components_), ('transform', a.transform(X), b.transform(X)), ('pair_distance', a.pair_distance(P), b.pair_distance(P))]
  for nm, u, v in outs:
    if not same(u, v):
      return dict(tag='fit/preprocessor-not-consulted-on-formed-data', observed='%s of the estimator with a preprocessor differs on formed single-feature integer data: %r vs %r'
                  % (nm, np.asarray(v).ravel()[:6].tolist(), np.asarray(u).ravel()[:6].tolist()), input=inp)
  if log is not None and len(log) != 0:
    return dict(tag='fit/preprocessor-not-consulted-on-formed-data', observed='callable preprocessor called %d time(s) on formed data' % len(log), input=inp)
  return None


def _switch_cases(ml, tier, seed, cache):
  pairs_ = (('ndarray', 'ndarray'), ('callable', 'ndarray')) if tier == 'quick' else \
      (('ndarray', 'ndarray'), ('callable', 'ndarray'), ('list', 'ndarray-F'), ('ndarray', 'callable'), ('ndarray', 'list'))
  for cls in PUBLIC:
    for ka, kb in pairs_:
      s = seed * 100 + 50
      desc = '%s.fit prep=%s then set_params(preprocessor=%s) and refit seed=%d' % (cls, ka, kb, s)
      yield (desc, _tags(KIND[cls][1], kb, F_PREPARE),
             _guard(lambda cls=cls, ka=ka, kb=kb, s=s: check_switch(ml, cls, ka, kb, s, cache), 'fit', desc))


def _signature(desc, tag):
  """class of failing input, stable across seeds: estimator.method + clause + preprocessor kind"""
  head = desc.split(' ')[0].split('#')[0]
  prep = desc.split('prep=')[1].split(' indicators=')[0] if 'prep=' in desc else ''
  size = ''
  for t in (2, 3, 4):
    if ' x%d' % t in desc:
      size = ' tuples of %d' % t
  return '%s %s prep=%s%s' % (head, tag.split('/', 1)[1], prep, size)


def run(tier, seed):
  n = 0
  vio, samples, distinct, seen_sig = [], [], set(), set()
  total_bad = 0
  for desc, tags, thunk in cases(tier, seed):
    n += 1
    distinct.add(desc)
    if n % 613 == 1 and len(samples) < 8:
      samples.append(desc)
    bad = thunk()
    if bad:
      total_bad += 1
      sig = _signature(desc, bad['tag'])
      if sig in seen_sig or len(vio) >= 60:
        continue
      seen_sig.add(sig)
      vio.append(dict(clause='runtime/C05/%s' % bad['tag'], input=bad['input'], observed=bad['observed'], signature=sig, case=desc))
  return dict(cases=n, distinct_nontrivial=len(distinct),
              rule='(query) 17 estimator classes with directly-set fitted state x preprocessor {float ndarray, int ndarray, Fortran ndarray, nested list, callable} '
                   'x indicator dtype {int8..int64, uint8..uint64, intp, python list} x pattern {permutation, repeats, reversed, sorted, nearly constant} x every '
                   'data-taking method (points: 1-D indicators; tuples: (n,2)/(n,3)/(n,4)), each evaluated with indicators, with formed data without preprocessor and '
                   'with formed data with preprocessor; (errors) 17 classes x 10 failing preprocessors x every method + fit; (fit) 17 real fits x {ndarray, list, callable} '
                   'x indicator variants; distinct = distinct (class, method, preprocessor kind, dtype, pattern, transformation); %d failing cases in total' % total_bad,
              bound='n_features 3; pool of 23 points (fit: 42), 9 points / tuples per call (fit: 24-46); %s'
                    % ('one pattern per (class, preprocessor, dtype), 4 fit variants' if tier == 'quick' else 'all 5 patterns, 18 fit variants'),
              standin_samples=samples, violations=vio)


def replay_clause(cid, fail, seed):
  """first failing quick case exercising the function named in cid (else any failing case of the property)"""
  target = cid.split('[')[0]
  known = set(F_TUPLES + F_POINTS + F_ARRAY + F_PREPARE)
  method = None
  if target.startswith('runtime/C05/'):
    method = target[len('runtime/C05/'):].split('/')[0]
    target = None
  elif target not in known:
    target = None
  for restrict in ((True, False) if (target or method) else (False,)):
    for desc, tags, thunk in cases('quick', seed):
      if restrict and target and target not in tags:
        continue
      if restrict and method and ('.%s ' % method) not in desc.replace('#', ' '):
        continue
      bad = thunk()
      if bad:
        return dict(failing_input=bad['input'], observed='%s: %s' % (bad['tag'], bad['observed']), case=desc)
  return dict(note='no failing input among the quick stand-in cases')
