"""C01 bounded stand-in / replay: run-time contract of the property on the REAL observers for constructed fitted
estimators (any L, incl. rank-deficient) and query triples at magnitudes 1e-100..1e100.  bounded -- not proved.
Covers what the real-arithmetic proof cannot: finiteness and the rounding slack of the triangle inequality;
the identities d(x,x)=0 and d(x,y)=d(y,x) are checked bit-exactly."""
import numpy as np

from .common import repo, PUBLIC, make_fitted, transformations, first_failure

TAG_PD = 'base_metric:MahalanobisMixin.pair_distance'
TAG_PS = 'base_metric:MahalanobisMixin.pair_score'
TAG_MF = 'base_metric:MahalanobisMixin.get_metric.metric_fun'


def triples(rng, d, n):
  mags = [1e-100, 1e-30, 1e-8, 1.0, 1e8, 1e30, 1e100]
  for k in range(n):
    m = mags[k % len(mags)]
    x, y, z = (rng.randn(d) * m for _ in range(3))
    kind = k % 5
    if kind == 1:
      y = x.copy()
    elif kind == 2:
      z = y.copy()
    elif kind == 3:
      y = x + rng.randn(d) * m * 1e-12
    elif kind == 4:
      x, y, z = x * 1e3, y, z * 1e-3
    yield m, x, y, z


def check_triple(est, L, x, y, z, m):
  """-> None or description of the violated clause"""
  P = np.array([[x, y], [y, x], [y, z], [x, z], [x, x]])
  with np.errstate(all='ignore'):
    d = est.pair_distance(P)
    s = est.pair_score(P)
    f = est.get_metric()
    g = np.array([f(x, y), f(y, x), f(y, z), f(x, z), f(x, x)])
  scale = np.abs(L).max() * m if np.abs(L).max() > 0 else 0.0
  overflow = scale > 1e150      # squared coordinates overflow: outside the property's quantifier
  for name, v in (('pair_distance', d), ('get_metric', g)):
    tag = TAG_PD if name == 'pair_distance' else TAG_MF
    if not overflow and not np.all(np.isfinite(v)):
      return tag, '%s not finite: %r' % (name, v)
    if overflow:
      continue
    if np.any(v < 0):
      return tag, '%s negative: %r' % (name, v)
    if v[0] != v[1]:
      return tag, '%s not exactly symmetric: d(x,y)=%r d(y,x)=%r' % (name, v[0], v[1])
    if v[4] != 0:
      return tag, '%s(x,x) = %r != 0' % (name, v[4])
    slack = 1e-9 * max(v[0] + v[2], 1e-300) + 1e-300
    if v[3] > v[0] + v[2] + slack:
      return tag, '%s violates the triangle inequality: d(x,z)=%r > %r + %r' % (name, v[3], v[0], v[2])
  if not overflow:
    if not np.array_equal(s, -d):
      return TAG_PS, 'pair_score != -pair_distance: %r vs %r' % (s, d)
    if not np.allclose(d, g, rtol=1e-9, atol=0):
      return TAG_PD, 'pair_distance and get_metric disagree: %r vs %r' % (d, g)
  return None


def check_mixed(est, d, rng):
  """query points given in different (exactly convertible) representations: integer ndarray, python list of ints, float32, float64.
  All coordinates are multiples of 1/4 (exact in every one of them), so d(u, v) must not depend on which argument has which dtype:
  exact symmetry, and the same value as with both arguments in float64"""
  xi = rng.randint(-8, 9, size=d)                       # integers
  yf = rng.randint(-32, 33, size=d) / 4.0               # quarters (float64)
  forms = [('int64 ndarray', xi.astype(np.int64)), ('int32 ndarray', xi.astype(np.int32)), ('list of ints', [int(v) for v in xi]),
           ('float32 ndarray', xi.astype(np.float32))]
  f = est.get_metric()
  with np.errstate(all='ignore'):
    ref = f(xi.astype(float), yf)
    for name, u in forms:
      for a, b, order in ((u, yf, '(%s, float64)' % name), (yf, u, '(float64, %s)' % name)):
        for sq in (False, True):
          got = f(a, b, squared=sq)
          want = ref ** 2 if sq else ref
          if not (np.isfinite(got) and abs(got - want) <= 1e-12 * max(1.0, abs(want))):
            return TAG_MF, 'get_metric()%s%s = %r but both points in float64 give %r' % (order, ' squared' if sq else '', got, want), \
                dict(u=np.asarray(xi).tolist(), v=yf.tolist(), representation=order)
  return None


def check_narrow(est, L, d, rng):
  """query points held in a narrow floating-point dtype (float32 at magnitude 2^73 ~ 1e22, float16 at magnitude ~ 1e3): the coordinates and
  their differences are exactly representable in that dtype, the distances are far from the float64 overflow threshold, so the distance is
  finite and equals the float64 computation on the same numbers"""
  for name, dt, unit in (('float32', np.float32, 2.0 ** 73), ('float16', np.float16, 32.0)):
    k = rng.randint(-30, 31, size=(6, 2, d))
    k[0, 1] = k[0, 0]                                        # one pair of identical points
    pairs64 = k.astype(float) * unit
    pairs = pairs64.astype(dt)
    if not np.array_equal(pairs.astype(float), pairs64):
      continue
    with np.errstate(all='ignore'):
      want = np.sqrt(np.sum(((pairs64[:, 1] - pairs64[:, 0]).dot(L.T)) ** 2, axis=1))
      got = np.asarray(est.pair_distance(pairs), dtype=float)
      sc = np.asarray(est.pair_score(pairs), dtype=float)
    inp = dict(pairs=pairs64.tolist(), dtype=name)
    if not np.all(np.isfinite(want)):
      continue
    if not np.all(np.isfinite(got)) or np.any(got < 0):
      return TAG_PD, 'pair_distance of %s points is not finite / non-negative: %r (float64 computation: %r)' % (name, got.tolist(), want.tolist()), inp
    if got[0] != 0:
      return TAG_PD, 'd(x, x) = %r for a %s point' % (got[0], name), inp
    if not np.allclose(got, want, rtol=1e-6, atol=0):
      return TAG_PD, 'pair_distance of %s points %r differs from the float64 computation %r' % (name, got.tolist(), want.tolist()), inp
    if not np.array_equal(sc, -got):
      return TAG_PS, 'pair_score != -pair_distance for %s points: %r vs %r' % (name, sc.tolist(), got.tolist()), inp
  return None


def cases(tier, seed):
  ml = repo()
  rng = np.random.RandomState(seed)
  n = 30 if tier == 'quick' else 600
  for cls in PUBLIC:
    for d in ((3,) if tier == 'quick' else (2, 3, 8)):
      for lname, L in transformations(rng, d):
        est = make_fitted(ml, cls, L)
        for m, x, y, z in triples(rng, d, n if cls in ('Covariance', 'ITML', 'SCML', 'LSML') else max(5, n // 6)):
          def thunk(est=est, L=L, x=x, y=y, z=z, m=m, cls=cls, lname=lname):
            try:
              bad = check_triple(est, L, x, y, z, m)
            except Exception as e:
              return dict(tag=TAG_PD, observed='%s: %s' % (type(e).__name__, e),
                          input=dict(estimator=cls, components_=L.tolist(), x=x.tolist(), y=y.tolist(), z=z.tolist()))
            if bad:
              return dict(tag=bad[0], observed=bad[1],
                          input=dict(estimator=cls, components_=L.tolist(), x=x.tolist(), y=y.tolist(), z=z.tolist()))
            return None
          yield '%s L=%s |x|~%g' % (cls, lname, m), (TAG_PD, TAG_PS, TAG_MF), thunk
        sub = np.random.RandomState(rng.randint(2 ** 31 - 1))

        def thunk_mixed(est=est, L=L, d=d, sub=sub, cls=cls):
          st_ = sub.get_state()
          try:
            bad = check_mixed(est, d, sub)
          except Exception as e:
            bad = (TAG_MF, '%s: %s' % (type(e).__name__, e), {})
          finally:
            sub.set_state(st_)
          if bad:
            return dict(tag=bad[0], observed=bad[1], input=dict(estimator=cls, components_=L.tolist(), **bad[2]))
          return None
        yield '%s L=%s mixed argument dtypes' % (cls, lname), (TAG_MF,), thunk_mixed

        def thunk_narrow(est=est, L=L, d=d, sub=sub, cls=cls):
          st_ = sub.get_state()
          try:
            bad = check_narrow(est, L, d, sub)
          except Exception as e:
            bad = (TAG_PD, '%s: %s' % (type(e).__name__, e), {})
          finally:
            sub.set_state(st_)
          if bad:
            return dict(tag=bad[0], observed=bad[1], input=dict(estimator=cls, components_=L.tolist(), **bad[2]))
          return None
        yield '%s L=%s narrow floating-point query points' % (cls, lname), (TAG_PD, TAG_PS), thunk_narrow


def run(tier, seed):
  n = 0
  vio = []
  samples = []
  distinct = set()
  for desc, tags, thunk in cases(tier, seed):
    n += 1
    distinct.add(desc)
    if n % 401 == 1 and len(samples) < 6:
      samples.append(desc)
    bad = thunk()
    if bad:
      vio.append(dict(clause='runtime/C01/%s' % bad['tag'], input=bad['input'], observed=bad['observed'], signature=desc))
      if len(vio) > 5:
        break
  return dict(cases=n, distinct_nontrivial=len(distinct), rule='17 estimator classes x transformations {identity, random, low-rank, rank-deficient, tiny, huge, zero} x '
              'query triples at magnitudes 1e-100..1e100 (duplicates, near-duplicates, mixed scales); distinct = (class, L kind, magnitude)',
              bound='n_features 3 (quick) / 2,3,8 (thorough); %s triples per configuration' % ('<=30' if tier == 'quick' else '<=600'),
              standin_samples=samples, violations=vio)


def replay_clause(cid, fail, seed):
  target = cid.split('[')[0]
  only = [target] if target in (TAG_PD, TAG_PS, TAG_MF) else None
  for desc, tags, thunk in cases('quick', seed):
    bad = thunk()
    if bad and (only is None or bad['tag'] in only or True):
      return dict(failing_input=bad['input'], observed=bad['observed'])
  return dict(note='no failing input among the quick stand-in cases')
