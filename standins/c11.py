"""C11 bounded stand-in / replay: run-time KKT certificate of ITML on the REAL solver.  bounded -- not proved.

Each generated instance is fitted with the real `ITML.fit` / `ITML_Supervised.fit`; the solver-local state (`_lambda`,
`pos_bhat`, `neg_bhat`, `A`, `pos_vv`, `neg_vv`, `num_pos`, `conv`, the prepared `pairs`/`y`) is read from the frame of
`_BaseITML._fit` at its 'return' event through `sys.setprofile` -- no source change.  The prior M0 is obtained from the
real `_initialize_metric_mahalanobis` called with the same arguments.  The oracle then evaluates, independently of the
solver's own formulas, exactly the clauses of the property:

  spd               M = get_mahalanobis_matrix() is symmetric positive definite            (every iteration budget)
  dual-nonnegative  lambda_i >= 0                                                           (every iteration budget)
  inverse-identity  inv(M) == inv(M0) + sum_pos lambda_i v v^T - sum_neg lambda_i v v^T     (every iteration budget)
  converged-kkt     only when the solver left through `conv < tol`: every constraint is inactive (lambda_i = 0 and its
                    slack-adjusted bound xi_i satisfied) or tight (v^T M v = xi_i), to a tolerance derived from the
                    stopping rule.  xi_i is NOT taken from the solver: it is the slack stationarity condition of the
                    documented problem  min D_ld(M, M0) + gamma * D_ld(diag xi, diag xi0),
                    1/xi_i = 1/u - lambda_i/gamma (similar pairs), 1/xi_i = 1/l + lambda_i/gamma (dissimilar pairs);
                    the solver's pos_bhat/neg_bhat must agree with it.
  prior-fixpoint    if M0 satisfies all bounds (similar: v^T M0 v <= bounds_[0], dissimilar: >= bounds_[1]) then M == M0.

Not this property's concern, noted only: finding F4a (property C17) -- `_fit` wrote 1e-9 into the CALLER's `bounds` array when
it contained 0; explicit bounds are passed here as fresh lists and never contain 0.
Observed and NOT counted as a violation: the default bounds are the 5th/95th percentile of `pairwise_distances(X)` INCLUDING the
zero self-distances, so with fewer than 20 distinct points bounds_[0] is 0 -> 1e-9; similar pairs are then forced to distance
~1e-9, cond(M) exceeds 1/eps and the solver's matrix can lose definiteness by rounding (NonPSDError).  In exact arithmetic the
property holds there; such instances are reported as 'numerically unresolvable' in `rule`, never as a pass or a violation.
"""
import sys
import time
import warnings

import numpy as np

from .common import repo

TAG_FIT = 'itml:_BaseITML._fit'
PRIORS = ('identity', 'covariance', 'random', 'array')
GAMMAS = (0.01, 0.1, 1.0, 10.0, 1e3, 1e6)
GRAB = ('_lambda', 'lambdaold', 'pos_bhat', 'neg_bhat', 'A', 'pos_vv', 'neg_vv', 'num_pos', 'pairs', 'y', 'conv', 'it')
K_TOL = 200.0      # safety factor between the solver's stopping quantity and the KKT residual that is accepted


class FitFrame:
  """captures the locals of metric_learn/itml.py:_fit at its return event (no source change)"""

  def __init__(self, filename_suffix='itml.py', funcname='_fit', names=GRAB):
    self.suffix, self.funcname, self.names = filename_suffix, funcname, names
    self.locals = None

  def _cb(self, frame, event, arg):
    if event == 'return' and frame.f_code.co_name == self.funcname and frame.f_code.co_filename.endswith(self.suffix):
      loc = frame.f_locals
      self.locals = {k: (np.array(loc[k], copy=True) if isinstance(loc[k], np.ndarray) else loc[k])
                     for k in self.names if k in loc}

  def __enter__(self):
    self.prev = sys.getprofile()
    sys.setprofile(self._cb)
    return self

  def __exit__(self, *exc):
    sys.setprofile(self.prev)
    return False


def definiteness(M, scale=0.0):
  """'pd' (resolved in double precision), 'unresolved' (smallest eigenvalue within the rounding level of the solver's
  history: relative to the largest eigenvalue / the scale of the prior / the asymmetry the updates left behind), or 'indefinite'"""
  w = np.linalg.eigvalsh((M + M.T) / 2)
  ref = max(w[-1], scale)
  if w[0] > 1e-13 * ref:
    return 'pd'
  if w[-1] > 0 and w[0] >= -max(1e-10 * ref, 100 * np.abs(M - M.T).max()):
    return 'unresolved'
  return 'indefinite'


def spd_from(rng, d, cond):
  Q, _ = np.linalg.qr(rng.randn(d, d))
  w = np.exp(rng.uniform(0, np.log(cond), d)) if d > 1 else np.array([1.5])
  M = (Q * w).dot(Q.T)
  return (M + M.T) / 2


def instances(tier, seed):
  """deterministic list of instance descriptions (plain dicts of json-able values)"""
  rng = np.random.RandomState(seed)
  n = 48 if tier == 'quick' else 200
  out = []
  budgets = [(1, 1e-3), (5, 1e-3), (1000, 1e-3), (1000, 1e-6), (5, 1e-9), (1000, 1e-9), (3000, 1e-10), (1, 1e-6)]
  bound_kinds = ['default', 'quantiles', 'crossing', 'prior-feasible', 'default', 'quantiles']
  for k in range(n):
    d = (1, 2, 3, 4, 5, 6, 2, 3)[k % 8] if k % 16 else 6
    supervised = (k % 7 == 3)
    prior = PRIORS[k % 4]
    gamma = GAMMAS[(k // 4) % len(GAMMAS)]
    max_iter, tol = budgets[(k // 2) % len(budgets)]
    bkind = bound_kinds[(k // 3) % len(bound_kinds)]
    scale = (1.0, 0.1, 10.0)[k % 3]
    if k % 16 == 4 and not supervised:
      # data recorded in small units: squared distances -- and therefore legitimate, strictly positive bounds -- of the order of 1e-9
      scale, bkind = 3e-6, 'quantiles'
    big = (bkind == 'default' and k % 2 == 0)      # enough distinct points for a non-zero 5th percentile of the default bounds
    n_pts = 34 if big else d + 3 + rng.randint(0, 8)
    X = rng.randn(n_pts, d).dot(rng.randn(d, d)) * scale
    inst = dict(k=k, d=d, prior=prior, gamma=gamma, max_iter=max_iter, tol=tol, bounds_kind=bkind, supervised=supervised,
                random_state=int(rng.randint(0, 2 ** 31 - 1)), X=X.tolist())
    if prior == 'array':
      inst['prior_array'] = spd_from(rng, d, (10.0, 1e3)[k % 2]).tolist()
    if supervised:
      ncls = 2 + (k % 2)
      lab = np.arange(n_pts) % ncls
      rng.shuffle(lab)
      inst['labels'] = lab.tolist()
      inst['n_constraints'] = int(rng.randint(3, 13))
    else:
      cover = (d + 3) // 2                          # the first pairs use 2*cover >= d+2 distinct points (definite covariance)
      m = 16 if big else int(rng.randint(max(2, cover), 14))
      idx = [(2 * i, 2 * i + 1) for i in range(m if big else cover)]
      while len(idx) < m:
        i, j = rng.randint(0, n_pts, 2)
        if i != j:
          idx.append((int(i), int(j)))
      y = np.where(rng.rand(m) < 0.5, 1, -1)
      y[0], y[1] = 1, -1              # both labels present
      inst['pair_idx'] = idx
      inst['y'] = y.tolist()
    inst['u'] = float(rng.uniform(0.1, 0.9))
    out.append(inst)
  return out


def describe(inst):
  return 'ITML%s d=%d prior=%s gamma=%g bounds=%s max_iter=%d tol=%g' % (
      '_Supervised' if inst['supervised'] else '', inst['d'], inst['prior'], inst['gamma'], inst['bounds_kind'],
      inst['max_iter'], inst['tol'])


def signature(inst, clause):
  return '%s: ITML%s prior=%s bounds=%s %s' % (clause, '_Supervised' if inst['supervised'] else '', inst['prior'], inst['bounds_kind'],
                                               'gamma>=1e3' if inst['gamma'] >= 1e3 else 'gamma<=10')


def prior_arg(inst):
  if inst['prior'] != 'array':
    return inst['prior']
  A = np.array(inst['prior_array'])
  # the same SPD matrix, for every other instance in column-major memory order (np.asfortranarray / a transposed view are ndarrays too)
  return np.asfortranarray(A) if inst['k'] % 2 else A


def explicit_bounds(inst, ml_util, pairs, y):
  """explicit bounds (a fresh list), chosen relative to the squared distances under the prior; None for default"""
  kind = inst['bounds_kind']
  if kind == 'default':
    return None
  M0 = ml_util._initialize_metric_mahalanobis(pairs, prior_arg(inst), inst['random_state'], strict_pd=True, matrix_name='prior')
  v = pairs[:, 0, :] - pairs[:, 1, :]
  p = np.einsum('ij,jk,ik->i', v, M0, v)
  if kind == 'quantiles':
    lo, hi = np.percentile(p, [25, 75])
    return [float(lo), float(max(hi, lo * 1.0001))]
  if kind == 'crossing':      # upper bound of similar pairs ABOVE the lower bound of dissimilar pairs
    lo, hi = np.percentile(p, [30 + 40 * inst['u'], 30 * inst['u']])
    return [float(lo), float(hi)]
  if kind == 'prior-feasible':
    pos, neg = p[y == 1], p[y == -1]
    return [float(pos.max() * (1 + inst['u'])), float(neg.min() * (1 - 0.9 * inst['u']))]
  raise ValueError(kind)


def fit_instance(ml, inst):
  """run the real fit; -> dict(est=, frame=, error=, bounds=)"""
  from metric_learn import _util
  X = np.array(inst['X'])
  kw = dict(gamma=inst['gamma'], max_iter=inst['max_iter'], tol=inst['tol'], prior=prior_arg(inst),
            random_state=inst['random_state'])
  with warnings.catch_warnings():
    warnings.simplefilter('ignore')
    with np.errstate(all='ignore'):
      if inst['supervised']:
        labels = np.array(inst['labels'])
        bounds = None
        if inst['bounds_kind'] != 'default':
          # learn the generated pairs first (deterministic in random_state), to place the bounds relative to them
          probe = ml.ITML_Supervised(n_constraints=inst['n_constraints'], **dict(kw, max_iter=1))
          with FitFrame() as g0:
            try:
              probe.fit(X, labels)
            except Exception as e:
              return dict(est=None, frame=g0.locals, error=e, bounds=None, pre=True)
          if not g0.locals or 'pairs' not in g0.locals:
            return dict(est=None, frame=None, error=RuntimeError('no _fit frame seen'), bounds=None, pre=True)
          yy = np.asarray(g0.locals['y'])
          if not ((yy == 1).any() and (yy == -1).any()):
            return dict(skip='supervised constraint generation produced a single label')
          try:
            bounds = explicit_bounds(inst, _util, g0.locals['pairs'], yy)
          except np.linalg.LinAlgError:
            return dict(skip='prior not strictly positive definite')
        est = ml.ITML_Supervised(n_constraints=inst['n_constraints'], **kw)
        args = (X, labels)
      else:
        idx = np.array(inst['pair_idx'])
        pairs = X[idx]
        y = np.array(inst['y'])
        try:
          bounds = explicit_bounds(inst, _util, pairs, y)
        except np.linalg.LinAlgError:
          return dict(skip='prior not strictly positive definite')
        est = ml.ITML(**kw)
        args = (pairs, y)
      with FitFrame() as g:
        try:
          est.fit(*args, bounds=bounds)
          err = None
        except Exception as e:
          err = e
  return dict(est=est, frame=g.locals, error=err, bounds=bounds)


def bad(inst, clause, observed, **extra):
  i = {k: v for k, v in inst.items()}
  i.update(extra)
  return dict(tag=clause, observed=observed, input=i)


def check_instance(ml, inst, stats=None):
  """-> None (property holds on this instance / instance outside the quantifier) or a violation dict"""
  from metric_learn import _util
  r = fit_instance(ml, inst)
  if 'skip' in r:
    if stats is not None:
      stats['skipped'] = r['skip']
    return None
  fr = r['frame'] or {}
  err = r['error']
  pairs = fr.get('pairs')
  # the prior, from the real initialiser with the same arguments
  M0 = None
  if pairs is not None and np.ndim(pairs) == 3:
    try:
      with warnings.catch_warnings():
        warnings.simplefilter('ignore')
        M0 = _util._initialize_metric_mahalanobis(np.asarray(pairs), prior_arg(inst), inst['random_state'], strict_pd=True,
                                                  matrix_name='prior')
    except Exception as e0:
      if err is not None and type(e0) is type(err):
        if stats is not None:
          stats['skipped'] = 'prior not strictly positive definite'
        return None                  # the prior is not strictly PD on this input: outside the quantifier
      raise
  if M0 is not None and inst['prior'] == 'covariance' and pairs is not None and np.ndim(pairs) == 3:
    # independent of the initialiser: the documented meaning of the option, inverse covariance of the DISTINCT training points
    pts = np.unique(np.asarray(pairs, dtype=float).reshape(-1, np.shape(pairs)[2]), axis=0)
    Cp = np.atleast_2d(np.cov(pts, rowvar=False))
    cond_prior = float(np.linalg.cond(Cp))
    if cond_prior < 1e10:
      M0 = np.linalg.inv(Cp)
      inst = dict(inst, _cond_prior=cond_prior)
  if err is not None:
    A = fr.get('A')
    if isinstance(A, np.ndarray) and np.all(np.isfinite(A)) and definiteness(A, np.linalg.norm(M0, 2) if M0 is not None else 0.0) == 'unresolved':
      if stats is not None:
        stats['unresolved'] = True
      return None                    # rounding made a matrix of condition > 1/eps numerically indefinite: cannot be resolved
    return bad(inst, 'spd', 'fit raised %s: %s' % (type(err).__name__, str(err)[:200]), bounds=r.get('bounds'))
  if M0 is None or fr.get('y') is None:
    if stats is not None:
      stats['skipped'] = 'training pairs of _fit not observable'
    return None                      # (the parameters pairs / y of _fit could not be observed: nothing to evaluate the clauses against)
  est = r['est']
  y = np.asarray(fr['y'])
  if not ((y == 1).any() and (y == -1).any()):
    if stats is not None:
      stats['skipped'] = 'single label'
    return None                      # single-label pair set: outside the quantifier
  M = est.get_mahalanobis_matrix()
  # constraint vectors in the solver's order (similar pairs first): from the solver frame when its local names are the known ones,
  # otherwise recomputed from the prepared pairs -- the oracle must not depend on how the body names its temporaries
  P = np.asarray(pairs, dtype=float)
  pos, neg = P[y == 1], P[y == -1]
  npos = len(pos)
  V = np.vstack([pos[:, 0] - pos[:, 1], neg[:, 0] - neg[:, 1]])
  lam_from_frame = '_lambda' in fr and np.shape(fr['_lambda']) == (len(V),)
  if lam_from_frame:
    lam = np.asarray(fr['_lambda'], dtype=float)
  else:
    # the dual variables are not observable: recover them as the non-negative solution of
    #   sum_i y_i lambda_i v_i v_i^T = inv(M) - inv(M0)     (exists and is >= 0 exactly when the clause of the property holds)
    from scipy.optimize import nnls
    sg = np.r_[np.ones(npos), -np.ones(len(V) - npos)]
    Amat = np.stack([(s_ * np.outer(v_, v_)).ravel() for s_, v_ in zip(sg, V)], axis=1)
    try:
      rhs = (np.linalg.inv(M) - np.linalg.inv(M0)).ravel()
      lam, _res = nnls(Amat, rhs, maxiter=50 * Amat.shape[1])
    except Exception:
      if stats is not None:
        stats['unresolved'] = True
      return None
  sgn = np.r_[np.ones(npos), -np.ones(len(V) - npos)]
  info = dict(bounds_=est.bounds_.tolist(), n_iter_=int(est.n_iter_), lambda_=lam.tolist())

  # ---- spd ----
  if not np.all(np.isfinite(M)):
    return bad(inst, 'spd', 'M is not finite: %r' % M.tolist(), **info)
  if not np.allclose(M, M.T, rtol=1e-10, atol=1e-13 * np.abs(M).max()):
    return bad(inst, 'spd', 'M is not symmetric: max |M - M^T| = %g' % np.abs(M - M.T).max(), **info)
  w = np.linalg.eigvalsh((M + M.T) / 2)
  dM = definiteness(M, np.linalg.norm(M0, 2))
  if dM != 'pd':
    if dM == 'unresolved':
      # cond(M) beyond double precision (typically bounds_[0] = 1e-9 from the default percentile rule on < 20 points):
      # definiteness and the inverse identity cannot be resolved numerically -- not counted either way
      if stats is not None:
        stats['unresolved'] = True
      return None
    return bad(inst, 'spd', 'M is not positive definite: eigenvalues %r' % w.tolist(), **info)
  # ---- dual-nonnegative ----
  if not np.all(np.isfinite(lam)) or lam.min() < 0:
    return bad(inst, 'dual-nonnegative', 'min lambda = %r' % lam.min(), **info)
  # ---- inverse-identity ----
  M0inv = np.linalg.inv(M0)
  S = (V * (sgn * lam)[:, None]).T.dot(V)
  Minv_pred = M0inv + S
  Minv = np.linalg.inv(M)
  scale = max(np.abs(Minv).max(), np.abs(M0inv).max(), np.abs((V * lam[:, None]).T.dot(V)).max())
  cond = w[-1] / w[0]
  e1 = np.abs(Minv - Minv_pred).max() / scale
  # second, better conditioned form of the same identity:  M (inv(M0) + S) == I
  e2 = np.abs(M.dot(Minv_pred) - np.eye(len(M))).max()
  # rounding: N rank-one updates leave an absolute error ~ N * eps * max|A| in A, i.e. rho relative in inv(M)
  n_upd = (int(est.n_iter_) + 1) * len(V)
  rho = (1e-13 + 4 * np.finfo(float).eps * n_upd) * max(np.linalg.norm(M0, 2), w[-1]) / w[0]
  tol_id = 1e-6 + rho
  if rho > 1e-2:
    if stats is not None:
      stats['unresolved'] = True
    return None                      # conditioning x update count beyond what double precision resolves
  if stats is not None:
    stats.update(e1=e1, e2=e2, cond=cond, n_iter=int(est.n_iter_), conv=fr.get('conv'))
  if not (e1 <= tol_id or e2 <= tol_id):
    return bad(inst, 'inverse-identity', 'inv(M) - inv(M0) is not sum_i y_i lambda_i v_i v_i^T: relative error %.3g '
               '(|M (inv(M0)+S) - I| = %.3g, cond(M) = %.3g)' % (e1, e2, cond), **info)
  # ---- prior-fixpoint ----
  u, l = float(est.bounds_[0]), float(est.bounds_[1])
  if r.get('bounds') is not None:
    # explicit bounds are the ones of the documented problem (an exact zero is replaced by 1e-9, as documented in the code): the solver
    # must have used THEM, however small they are
    gu, gl = (float(b) if float(b) != 0.0 else 1e-9 for b in np.ravel(r['bounds'])[:2])
    if not (u == gu and l == gl):
      return bad(inst, 'converged-kkt', 'the solver replaced the given bounds %r by %r: it solves another problem than the one it was given'
                 % ([gu, gl], [u, l]), **info)
  p0 = np.einsum('ij,jk,ik->i', V, M0, V)
  if np.all(p0[:npos] <= u) and np.all(p0[npos:] >= l):
    if stats is not None:
      stats['prior_feasible'] = True
    # (for 'covariance' the reference prior comes from another inversion algorithm than the library's: agreement to 1e-9 relative)
    # two inversion algorithms agree to about cond * eps
    if not np.allclose(M, M0, rtol=0, atol=(max(1e-9, 1e3 * np.finfo(float).eps * inst.get('_cond_prior', 1.0)) if inst['prior'] == 'covariance' else 1e-12) * np.abs(M0).max()):
      return bad(inst, 'prior-fixpoint', 'the prior satisfies all bounds but max |M - M0| = %g' % np.abs(M - M0).max(), **info)
  # ---- converged-kkt ----
  conv = fr.get('conv')
  if conv is not None and np.isfinite(conv) and conv < inst['tol']:
    gamma = float(inst['gamma'])
    if not lam_from_frame or 'pos_bhat' not in fr or 'neg_bhat' not in fr:
      return None                    # the stopping state of the solver is not observable under its known names: clause not evaluated
    lold = np.asarray(fr.get('lambdaold', lam), dtype=float)
    normsum = np.linalg.norm(lam) + np.linalg.norm(lold)
    b0 = np.where(sgn > 0, u, l)
    inv_xi = 1.0 / b0 - sgn * lam / gamma              # slack stationarity of the documented problem
    p = np.einsum('ij,jk,ik->i', V, M, V)
    # signed residual in reciprocal (dual) units: >= 0 <=> the slack-adjusted bound is satisfied
    res = sgn * (1.0 / p - inv_xi)
    gproj = gamma / (gamma + 1.0)
    tau_l = K_TOL * inst['tol'] * normsum + 1e-12 * max(1.0, lam.max())
    tau_r = tau_l / gproj + (1e-9 + rho) * (np.abs(inv_xi) + 1.0 / p)      # stopping rule + rounding of v^T M v
    tight = np.abs(res) <= tau_r
    inactive = (lam <= tau_l) & (res >= -tau_r)
    xi_solver = np.r_[fr['pos_bhat'], fr['neg_bhat']]
    slack_ok = np.abs(1.0 / xi_solver - inv_xi) <= 1e-7 * (np.abs(inv_xi) + 1.0 / b0) + tau_r
    if stats is not None:
      pend = np.minimum(np.abs(res), np.where(res > 0, lam / gproj, np.inf))      # pending dual step of each constraint / gproj
      stats.update(converged=True, margin=float((pend / tau_r).max()))
    okc = tight | inactive
    if not np.all(okc):
      i = int(np.argmin(okc))
      return bad(inst, 'converged-kkt', 'solver stopped with conv=%.3g < tol but constraint %d (y=%+d) is neither inactive nor tight: '
                 'lambda=%.6g, v^T M v=%.9g, slack-adjusted bound xi=%.9g, 1/p-1/xi=%.3g (accepted %.3g)'
                 % (conv, i, int(sgn[i]), lam[i], p[i], 1.0 / inv_xi[i], sgn[i] * res[i], tau_r[i]), **info)
    if not np.all(slack_ok):
      i = int(np.argmin(slack_ok))
      return bad(inst, 'converged-kkt', 'slack-adjusted bound of constraint %d (y=%+d) is %.9g, the slack stationarity condition '
                 '1/xi = 1/bound - y*lambda/gamma gives %.9g' % (i, int(sgn[i]), xi_solver[i], 1.0 / inv_xi[i]), **info)
  return None


def safe_check(ml, inst, stats=None):
  with warnings.catch_warnings():
    warnings.simplefilter('ignore')
    try:
      with np.errstate(all='ignore'):
        return check_instance(ml, inst, stats)
    except Exception as e:       # an exception of the oracle itself must not be mistaken for a pass
      return bad(inst, 'stand-in-error', 'the stand-in raised %s: %s' % (type(e).__name__, str(e)[:300]))


def rerun(failing_input):
  """re-evaluate a recorded failing input (the `input` of a violation) on the current tree"""
  return safe_check(repo(), failing_input)


def cases(tier, seed):
  ml = repo()
  for inst in instances(tier, seed):
    def thunk(inst=inst):
      return safe_check(ml, inst)
    yield describe(inst), (TAG_FIT,), thunk


def run(tier, seed):
  ml = repo()
  t0 = time.time()
  n = 0
  vio, samples = [], []
  distinct = set()
  nconv = nfix = nunres = nskip = 0
  seen_sig = set()
  for inst in instances(tier, seed):
    n += 1
    desc = describe(inst)
    st = {}
    b = safe_check(ml, inst, st)
    if st.get('unresolved'):
      nunres += 1
    elif st.get('skipped'):
      nskip += 1
    else:
      distinct.add(desc)
    nconv += bool(st.get('converged'))
    nfix += bool(st.get('prior_feasible'))
    if n % 7 == 1 and len(samples) < 6:
      samples.append(desc)
    if b:
      sig = signature(inst, b['tag'])
      if sig in seen_sig:
        continue
      seen_sig.add(sig)
      vio.append(dict(clause='runtime/C11/%s' % b['tag'], input=b['input'], observed=b['observed'], signature=sig))
  return dict(cases=n, distinct_nontrivial=len(distinct),
              rule='generated pair sets over a shared point pool (both labels, distinct points) x priors {identity, covariance, random, SPD array} x '
                   'gamma in %s x bounds {default, quantiles of prior distances, crossing (upper > lower), prior-feasible} x (max_iter, tol) budgets '
                   '{(1,1e-3),(5,1e-3),(1000,1e-3),(1000,1e-6),(5,1e-9),(1000,1e-9),(3000,1e-10),(1,1e-6)}; ITML and ITML_Supervised; solver duals read from the '
                   '_fit frame via sys.setprofile; distinct = distinct configuration string among the instances evaluated in full; %d instances left through '
                   'conv < tol (KKT clause evaluated), %d had a prior satisfying all bounds (fix-point clause evaluated), %d were numerically unresolvable '
                   '(condition of M x update count beyond double precision; not counted either way), %d outside the quantifier'
                   % (list(GAMMAS), nconv, nfix, nunres, nskip),
              bound='n_features <= 6, <= 16 pairs over <= 34 points, %d instances' % n,
              standin_samples=samples, violations=vio, seconds=round(time.time() - t0, 1))


def replay_clause(cid, fail, seed):
  want = cid.split('/')[-1] if cid.startswith('runtime/') else None
  first = None
  for tier in ('quick', 'thorough'):
    for desc, tags, thunk in cases(tier, seed):
      b = thunk()
      if b:
        if first is None:
          first = b
        if want is None or b['tag'] == want:
          return dict(failing_input=b['input'], observed=b['observed'])
    if first is not None:
      return dict(failing_input=first['input'], observed=first['observed'])
  return dict(note='no failing input among the stand-in instances')
