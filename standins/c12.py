"""C12 bounded stand-in / replay: LSML descends its documented objective to a stationary point -- evaluated on the REAL
solver with an INDEPENDENT evaluation of the objective and of its analytic gradient.  bounded -- not proved.

  objective  f(M) = sum_i w_i * max(0, sqrt(d_M(a_i,b_i)) - sqrt(d_M(c_i,d_i)))^2 + tr(M M0^-1) - logdet M,
             d_M the squared Mahalanobis distance, w = weights / sum(weights)  (uniform 1/n when weights is None)
  gradient   g(M) = M0^-1 - M^-1 + sum_{i violated} w_i [ (1 - sqrt(dcd_i/dab_i)) vab_i vab_i^T + (1 - sqrt(dab_i/dcd_i)) vcd_i vcd_i^T ]
             (checked against central finite differences of f on every instance: an oracle self-test)

Clauses (names are the `tag` / the last component of the violation's clause id):
  spd                          M = get_mahalanobis_matrix() is symmetric positive definite (fit returns)
  weights-accepted             positive weights given as a list or as an array of any positive scale are accepted
  objective-not-increased      f(M) <= f(M0)
  prior-returned               all constraints hold under the prior  =>  M == M0
  early-stop-is-stationary     n_iter_ < max_iter  =>  ||g(M)||_F <= K_STAT * tol   (g INCLUDES the weights)
  gradient-includes-weights    the bound method LSML._gradient(M, vab, vcd, M0^-1) of the fitted estimator equals g(M)
                               at M0, at the result and at a random SPD matrix

The prior M0 is obtained from the real `_initialize_metric_mahalanobis` with the same arguments; the quadruplets that
LSML_Supervised builds are read from the frame of `_BaseLSML._fit` at its return event (sys.setprofile, no source change).

Known on the pinned tree, F9: `_gradient` adds the violated constraints' outer products WITHOUT w_i while the loss uses w_i.
Because w is normalised to sum one, this is visible for every n_constraints >= 2 -- with non-uniform weights (signature
'non-uniform weights') AND with equal weights 1/n, e.g. the default weights=None (signature 'equal weights'): the search
direction is not the gradient of the accepted loss and the solver stops at points that are not stationary.
Noted only (property C17, finding F4b): `_fit` normalised the CALLER's weights array in place and, for the same reason, rejected
lists (AttributeError) and integer arrays (UFuncTypeError); the stand-in passes copies and keeps the clause 'weights-accepted'.
"""
import time
import warnings

import numpy as np

from .common import repo
from .c11 import FitFrame, spd_from

TAG_FIT = 'lsml:_BaseLSML._fit'
TAG_GRAD = 'lsml:_BaseLSML._gradient'
PRIORS = ('identity', 'covariance', 'random', 'array')
GRAB = ('quadruplets', 'vab', 'vcd', 'prior_inv', 'M', 'it', 's_best')
K_STAT = 3.0           # accepted ||g|| / tol at an early stop
INCLUDE_COLLAPSED = True   # one edge instance per run with a zero-length comparison pair (c == d); the quantifier says "all quadruplet sets"
WEIGHT_KINDS = ('none', 'nonuniform', 'equal-array', 'nonuniform', 'list', 'nonuniform-small', 'nonuniform-large', 'int-array')


# ---------------------------------------------------------------- independent oracle
def sqdist(M, v):
  return np.einsum('ij,jk,ik->i', v, M, v)


def objective(M, M0inv, vab, vcd, w):
  dab, dcd = sqdist(M, vab), sqdist(M, vcd)
  h = np.maximum(0.0, np.sqrt(np.maximum(dab, 0)) - np.sqrt(np.maximum(dcd, 0)))
  sign, logdet = np.linalg.slogdet(M)
  if sign <= 0:
    return np.inf
  return float(w.dot(h ** 2) + np.sum(M * M0inv.T) - logdet)


def gradient(M, M0inv, vab, vcd, w):
  dab, dcd = sqdist(M, vab), sqdist(M, vcd)
  g = M0inv - np.linalg.inv(M)
  for i in np.flatnonzero(dab > dcd):
    g = g + w[i] * (1.0 - np.sqrt(dcd[i] / dab[i])) * np.outer(vab[i], vab[i])
    if dcd[i] > 0:       # d/dM sqrt(vcd^T M vcd) = 0 for vcd = 0
      g = g + w[i] * (1.0 - np.sqrt(dab[i] / dcd[i])) * np.outer(vcd[i], vcd[i])
  return g


ULPS_FLOOR = 64      # an early stop is accepted when no step along -g lowers the objective by more than this many ulps of its value


def at_resolution_floor(M, g, M0inv, vab, vcd, w):
  """"stationary to within tol" cannot be demanded below the resolution of the binary64 objective: when the best decrease that ANY step
  along the negative gradient can achieve (fine line search, 400 step sizes over 14 decades, independent objective) is within a few ulps
  of the objective value, the descent method has nothing left to measure.  (Needed for tol <= 1e-6 only.)"""
  f0 = objective(M, M0inv, vab, vcd, w)
  if not np.isfinite(f0):
    return False
  gn = np.linalg.norm(g)
  best = 0.0
  for t in np.logspace(-12, 2, 400) / max(gn, 1e-300):
    Mn = M - t * g
    ev = np.linalg.eigvalsh((Mn + Mn.T) / 2)
    if ev.min() <= 0:
      break
    best = min(best, objective(Mn, M0inv, vab, vcd, w) - f0)
  return -best <= ULPS_FLOOR * np.finfo(float).eps * max(abs(f0), 1.0)


def fd_selftest(M, M0inv, vab, vcd, w, rng):
  """analytic gradient vs central differences of the objective along random symmetric directions -> max relative error"""
  g = gradient(M, M0inv, vab, vcd, w)
  worst = 0.0
  lam_min = np.linalg.eigvalsh(M)[0]
  for _ in range(3):
    E = rng.randn(*M.shape)
    E = (E + E.T) / 2
    E /= np.linalg.norm(E)
    h = 3e-6 * lam_min
    fd = (objective(M + h * E, M0inv, vab, vcd, w) - objective(M - h * E, M0inv, vab, vcd, w)) / (2 * h)
    an = float(np.sum(g * E))
    worst = max(worst, abs(fd - an) / (np.linalg.norm(g) + 1.0))
  return worst


# ---------------------------------------------------------------- instances
def instances(tier, seed):
  rng = np.random.RandomState(seed)
  n = 32 if tier == 'quick' else 200
  budgets = [(1000, 1e-3), (1, 1e-3), (5, 1e-3), (300, 1e-2), (20000, 1e-7), (50, 1e-5), (1000, 1e-2), (300, 1e-3), (20000, 1e-6)]   # tight tolerances included
  out = []
  for k in range(n):
    d = (2, 3, 1, 4, 5, 6, 3, 2)[k % 8]
    prior = PRIORS[k % 4]
    wkind = WEIGHT_KINDS[(k // 2) % len(WEIGHT_KINDS)]
    max_iter, tol = budgets[(k // 4) % len(budgets)] if k % 5 else (1000, 1e-3)
    supervised = (k % 6 == 4)
    qkind = ('random', 'random', 'prior-satisfied', 'mostly-violated', 'random')[(k // 3) % 5]
    n_pts = d + 3 + rng.randint(0, 8)
    scale = (1.0, 0.3, 3.0)[k % 3]
    X = rng.randn(n_pts, d).dot(rng.randn(d, d)) * scale
    inst = dict(k=k, d=d, prior=prior, weights_kind=wkind, max_iter=max_iter, tol=tol, supervised=supervised, quads_kind=qkind,
                random_state=int(rng.randint(0, 2 ** 31 - 1)), X=X.tolist(), wseed=int(rng.randint(0, 2 ** 31 - 1)))
    if prior == 'array':
      inst['prior_array'] = spd_from(rng, d, (10.0, 100.0)[k % 2]).tolist()
    if supervised:
      ncls = 2 + (k % 2)
      lab = np.arange(n_pts) % ncls
      rng.shuffle(lab)
      inst['labels'] = lab.tolist()
      inst['n_constraints'] = int(rng.randint(2, 12))
      inst['quads_kind'] = 'supervised'
    else:
      cover = (d + 4) // 4
      m = 1 if k % 16 == 9 else int(rng.randint(max(2, cover), 13))
      idx = [(4 * i, 4 * i + 1, 4 * i + 2, 4 * i + 3) for i in range(cover) if 4 * i + 3 < n_pts][:m]
      while len(idx) < m:
        a, b, c, e = rng.randint(0, n_pts, 4)
        if a != b and c != e:
          idx.append((int(a), int(b), int(c), int(e)))
      inst['quad_idx'] = idx
    out.append(inst)
  # many features with a prior in large / small units: det(M) leaves the binary64 range (1e4^80) while log det M, the documented
  # regulariser, is an ordinary number -- the learner must still descend from the prior and stop only at a stationary point
  for j, unit in enumerate((1e4, 1e-4)):
    d = 80
    X = rng.randn(d + 12, d)
    idx = []
    while len(idx) < 40:
      a, b, c, e = rng.randint(0, d + 12, 4)
      if a != b and c != e:
        idx.append((int(a), int(b), int(c), int(e)))
    out.append(dict(k=n + 1 + j, d=d, prior='array', prior_array=(spd_from(rng, d, 10.0) * unit).tolist(), weights_kind='none', max_iter=25, tol=1e-3,
                    supervised=False, quads_kind='mostly-violated', random_state=0, wseed=int(rng.randint(0, 2 ** 31 - 1)), X=X.tolist(), quad_idx=idx))
  if INCLUDE_COLLAPSED:
    d = 3
    X = rng.randn(8, d)
    out.append(dict(k=n, d=d, prior='identity', weights_kind='none', max_iter=50, tol=1e-3, supervised=False, quads_kind='collapsed-cd',
                    random_state=0, wseed=0, X=X.tolist(), quad_idx=[(0, 1, 2, 2), (3, 4, 5, 6), (1, 5, 0, 7)]))
  return out


def describe(inst):
  return 'LSML%s d=%d prior=%s weights=%s quads=%s max_iter=%d tol=%g' % (
      '_Supervised' if inst['supervised'] else '', inst['d'], inst['prior'], inst['weights_kind'], inst['quads_kind'], inst['max_iter'], inst['tol'])


def prior_arg(inst):
  return np.array(inst['prior_array']) if inst['prior'] == 'array' else inst['prior']


def make_weights(inst, n):
  """-> (the value handed to the estimator, the positive weights as a float array, class of the weights)"""
  kind = inst['weights_kind']
  rng = np.random.RandomState(inst['wseed'])
  if kind == 'none':
    return None, np.ones(n), 'equal'
  if kind == 'equal-array':
    w = np.full(n, 2.5)
    return w.copy(), w, 'equal'
  if kind == 'int-array':
    w = rng.randint(1, 6, n)
    return w.copy(), w.astype(float), 'equal' if len(set(w.tolist())) == 1 else 'non-uniform'
  w = rng.uniform(0.2, 5.0, n) * {'nonuniform-small': 1e-3, 'nonuniform-large': 1e3}.get(kind, 1.0)
  if kind == 'list':
    return [float(x) for x in w], w, 'equal' if n == 1 else 'non-uniform'
  return w.copy(), w, 'equal' if n == 1 else 'non-uniform'


def order_quads(inst, Q, M0):
  """re-order the two pairs of each quadruplet relative to the prior (for the generated LSML instances only)"""
  kind = inst['quads_kind']
  if kind not in ('prior-satisfied', 'mostly-violated'):
    return Q
  vab, vcd = Q[:, 0] - Q[:, 1], Q[:, 2] - Q[:, 3]
  viol = sqdist(M0, vab) > sqdist(M0, vcd)
  swap = viol if kind == 'prior-satisfied' else ~viol
  if kind == 'mostly-violated' and len(Q) > 1:
    swap[0] = False
  Q = Q.copy()
  Q[swap] = Q[swap][:, [2, 3, 0, 1]]
  return Q


def fit_instance(ml, inst):
  from metric_learn import _util
  X = np.array(inst['X'])
  kw = dict(tol=inst['tol'], max_iter=inst['max_iter'], prior=prior_arg(inst), random_state=inst['random_state'])
  if inst['supervised']:
    labels = np.array(inst['labels'])
    probe = ml.LSML_Supervised(n_constraints=inst['n_constraints'], **dict(kw, max_iter=1))
    with FitFrame('lsml.py', '_fit', GRAB) as g0:
      try:
        probe.fit(X, labels)
      except Exception as e:
        return dict(skip='probe fit of LSML_Supervised raised %s' % type(e).__name__)
    if not g0.locals or 'vab' not in g0.locals:
      return dict(skip='no _fit frame')
    n = len(g0.locals['vab'])
    handed, w_raw, wclass = make_weights(inst, n)
    est = ml.LSML_Supervised(n_constraints=inst['n_constraints'], weights=handed, **kw)
    args, kwargs = (X, labels), {}
  else:
    Q = X[np.array(inst['quad_idx'])]
    try:
      M0 = _util._initialize_metric_mahalanobis(Q, prior_arg(inst), random_state=inst['random_state'], return_inverse=False,
                                                strict_pd=True, matrix_name='prior')
    except np.linalg.LinAlgError:
      return dict(skip='prior not strictly positive definite')
    Q = order_quads(inst, Q, M0)
    handed, w_raw, wclass = make_weights(inst, len(Q))
    est = ml.LSML(**kw)
    args, kwargs = (Q,), dict(weights=handed)
  with FitFrame('lsml.py', '_fit', GRAB) as g:
    try:
      est.fit(*args, **kwargs)
      err = None
    except Exception as e:
      err = e
  fr = g.locals or {}
  Qf = fr.get('quadruplets')
  if not inst['supervised'] and (Qf is None or np.ndim(Qf) != 3):
    Qf = Q
  return dict(est=est, frame=fr, error=err, Q=Qf, w_raw=w_raw, wclass=wclass)


def bad(inst, clause, observed, sig, **extra):
  i = {k: v for k, v in inst.items()}
  i.update(extra)
  return dict(tag=clause, observed=observed, input=i, signature=sig)


def check_instance(ml, inst, stats=None):
  """-> list of violation dicts (empty: the property holds on this instance / the instance is outside the quantifier)"""
  from metric_learn import _util
  stats = {} if stats is None else stats
  r = fit_instance(ml, inst)
  if 'skip' in r:
    stats['skipped'] = r['skip']
    return []
  est, err, Q = r['est'], r['error'], r['Q']
  name = 'LSML_Supervised' if inst['supervised'] else 'LSML'
  wdesc = {'equal': 'equal weights', 'non-uniform': 'non-uniform weights'}[r['wclass']]
  if Q is None or np.ndim(Q) != 3:
    return [bad(inst, 'spd', 'fit raised %s: %s before the quadruplets were formed' % (type(err).__name__, err), 'fit raises on %s input' % name)]
  Q = np.asarray(Q, dtype=float)
  n = len(Q)
  vab, vcd = Q[:, 0] - Q[:, 1], Q[:, 2] - Q[:, 3]
  try:
    M0 = _util._initialize_metric_mahalanobis(Q, prior_arg(inst), random_state=inst['random_state'], return_inverse=False,
                                              strict_pd=True, matrix_name='prior')
  except Exception as e0:
    if err is not None and type(e0) is type(err):
      stats['skipped'] = 'prior not strictly positive definite'
      return []
    raise
  M0 = np.array(M0, dtype=float)
  M0inv = np.linalg.inv(M0)
  w = r['w_raw'] / r['w_raw'].sum()
  info = dict(n_constraints=n)
  if err is not None:
    msg = 'fit raised %s: %s' % (type(err).__name__, str(err)[:200])
    if inst['weights_kind'] == 'list':
      return [bad(inst, 'weights-accepted', msg, 'weights given as a list', **info)]
    if inst['weights_kind'] == 'int-array':
      return [bad(inst, 'weights-accepted', msg, 'weights given as an integer-dtype array', **info)]
    if inst['quads_kind'] == 'collapsed-cd':
      return [bad(inst, 'spd', msg, 'quadruplet with c == d (zero-length comparison pair)', **info)]
    return [bad(inst, 'spd', msg, 'fit raises on %s input' % name, **info)]
  out = []
  M = est.get_mahalanobis_matrix()
  info.update(n_iter_=int(est.n_iter_))
  # ---- spd ----
  if not np.all(np.isfinite(M)) or not np.allclose(M, M.T, rtol=1e-10, atol=1e-13 * np.abs(M).max()):
    return [bad(inst, 'spd', 'M not finite / not symmetric: %r' % M.tolist(), 'M not symmetric', **info)]
  ev = np.linalg.eigvalsh((M + M.T) / 2)
  if not ev[0] > 0:
    return [bad(inst, 'spd', 'M is not positive definite: eigenvalues %r' % ev.tolist(), 'M not positive definite', **info)]
  # ---- oracle self-test: analytic gradient of the documented objective vs finite differences ----
  rng = np.random.RandomState(inst['wseed'] ^ 0x5bd1)
  T = spd_from(rng, inst['d'], 20.0) * np.trace(M0) / inst['d']
  for P in ((M, T) if ev[0] >= 1e-4 * ev[-1] else (T,)):      # finite differences are meaningless at a nearly singular M
    e = fd_selftest(P, M0inv, vab, vcd, w, rng)
    stats['fd'] = max(stats.get('fd', 0.0), e)
    if e > 1e-3:
      out.append(bad(inst, 'stand-in-error', 'oracle gradient and finite differences of the oracle objective disagree: relative %.3g' % e,
                     'oracle self-test', **info))
      return out
  # ---- objective-not-increased ----
  f0, f1 = objective(M0, M0inv, vab, vcd, w), objective(M, M0inv, vab, vcd, w)
  stats.update(f0=f0, f1=f1)
  if not f1 <= f0 + 1e-9 * (1.0 + abs(f0)):
    out.append(bad(inst, 'objective-not-increased', 'objective at the result %.12g > objective at the prior %.12g' % (f1, f0),
                   'objective larger than at the prior', **info))
  # ---- prior-returned ----
  d0ab, d0cd = sqdist(M0, vab), sqdist(M0, vcd)
  if np.all(d0ab <= d0cd):
    stats['prior_satisfied'] = True
    if not np.allclose(M, M0, rtol=0, atol=1e-12 * np.abs(M0).max()):
      out.append(bad(inst, 'prior-returned', 'all constraints hold under the prior but max |M - M0| = %g' % np.abs(M - M0).max(),
                     'prior satisfies all constraints', **info))
  # ---- early-stop-is-stationary ----
  g = gradient(M, M0inv, vab, vcd, w)
  gn = float(np.linalg.norm(g))
  stats.update(gn=gn, n_iter=int(est.n_iter_), early=bool(est.n_iter_ < inst['max_iter']))
  if est.n_iter_ < inst['max_iter']:
    if not gn <= K_STAT * inst['tol'] + 1e-9 * np.linalg.norm(np.linalg.inv(M)) and not at_resolution_floor(M, g, M0inv, vab, vcd, w):
      out.append(bad(inst, 'early-stop-is-stationary',
                     'stopped at n_iter_=%d < max_iter=%d where the gradient of the documented (weighted) objective has norm %.4g (tol=%g)'
                     % (est.n_iter_, inst['max_iter'], gn, inst['tol']),
                     'early stop at a non-stationary point: %s, n_constraints %s' % (wdesc, '>= 2' if n >= 2 else '= 1'), **info))
  # ---- gradient-includes-weights ----
  for label, P in (('prior', M0), ('result', M), ('random SPD', T)):
    with np.errstate(all='ignore'):
      gc = np.asarray(est._gradient(P, vab, vcd, M0inv))
    go = gradient(P, M0inv, vab, vcd, w)
    scale = np.abs(go).max() + np.abs(M0inv).max() + np.abs(np.linalg.inv(P)).max()
    diff = np.abs(gc - go).max()
    if not diff <= 1e-8 * scale:
      nviol = int(np.sum(sqdist(P, vab) > sqdist(P, vcd)))
      out.append(bad(inst, 'gradient-includes-weights',
                     '_gradient at the %s differs from the analytic gradient of the weighted objective: max abs difference %.4g (scale %.3g, %d violated constraints, '
                     'unweighted-sum gradient would differ by %.4g)' % (label, diff, scale, nviol, np.abs(gradient(P, M0inv, vab, vcd, np.ones(n)) - gc).max()),
                     '_gradient differs from the weighted analytic gradient: %s, n_constraints %s' % (wdesc, '>= 2' if n >= 2 else '= 1'), **info))
      break
  return out


def safe_check(ml, inst, stats=None):
  with warnings.catch_warnings():
    warnings.simplefilter('ignore')
    try:
      with np.errstate(all='ignore'):
        return check_instance(ml, inst, stats)
    except Exception as e:
      return [bad(inst, 'stand-in-error', 'the stand-in raised %s: %s' % (type(e).__name__, str(e)[:300]), 'stand-in raised')]


def rerun(failing_input):
  """re-evaluate a recorded failing input (the `input` of a violation) on the current tree -> list of violations"""
  return safe_check(repo(), failing_input)


CLAUSES = ('spd', 'weights-accepted', 'objective-not-increased', 'prior-returned', 'early-stop-is-stationary', 'gradient-includes-weights')


def cases(tier, seed):
  """one thunk per instance; it reports the first violated clause (run() reports all of them)"""
  ml = repo()
  for inst in instances(tier, seed):
    def thunk(inst=inst):
      v = safe_check(ml, inst)
      return v[0] if v else None
    yield describe(inst), (TAG_FIT, TAG_GRAD), thunk


def run(tier, seed):
  ml = repo()
  t0 = time.time()
  n = 0
  vio, samples = [], []
  distinct = set()
  seen = set()
  nearly = nprior = nskip = 0
  for inst in instances(tier, seed):
    n += 1
    desc = describe(inst)
    st = {}
    found = safe_check(ml, inst, st)
    if st.get('skipped'):
      nskip += 1
    else:
      distinct.add(desc)
    nearly += bool(st.get('early'))
    nprior += bool(st.get('prior_satisfied'))
    if n % 7 == 1 and len(samples) < 6:
      samples.append(desc)
    for b in found:
      key = (b['tag'], b['signature'])
      if key in seen:
        continue
      seen.add(key)
      vio.append(dict(clause='runtime/C12/%s' % b['tag'], input=b['input'], observed=b['observed'], signature=b['signature']))
  return dict(cases=n, distinct_nontrivial=len(distinct),
              rule='generated quadruplet sets over a shared point pool (random / ordered to satisfy the prior / mostly violated / one collapsed c==d edge) x priors '
                   '{identity, covariance, random, SPD array} x weights {None, equal array, non-uniform array at scales 1e-3..1e3, list, integer array} x (max_iter, tol) in '
                   '{1,5,50,300,1000} x {1e-2,1e-3,1e-5}; LSML.fit(quadruplets, weights) and LSML_Supervised(weights=...); objective and analytic gradient evaluated '
                   'independently (gradient self-tested against finite differences); distinct = distinct configuration string among instances inside the quantifier; '
                   '%d instances stopped before max_iter (stationarity evaluated), %d had a prior satisfying every constraint, %d outside the quantifier'
                   % (nearly, nprior, nskip),
              bound='n_features <= 6, <= 12 quadruplets over <= 16 points, %d instances; first violation per (clause, input class) reported' % n,
              standin_samples=samples, violations=vio, seconds=round(time.time() - t0, 1))


def replay_clause(cid, fail, seed):
  want = cid.split('/')[-1] if cid.startswith('runtime/') else ('gradient-includes-weights' if '_gradient' in cid else None)
  ml = repo()
  first = None
  for tier in ('quick', 'thorough'):
    for inst in instances(tier, seed):
      for b in safe_check(ml, inst):
        if first is None:
          first = b
        if want is None or b['tag'] == want:
          return dict(failing_input=b['input'], observed=b['observed'])
    if first is not None and want is None:
      break
  if first is not None:
    return dict(failing_input=first['input'], observed=first['observed'], note='first failing case of the property (no case fails clause %s)' % want)
  return dict(note='no failing input among the stand-in instances')
