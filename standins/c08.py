"""C08 bounded stand-in / replay: differential oracle on the REAL estimators.  bounded -- not proved.

Clause `refinement`: fitting X_Supervised(**hp, random_state=s) on (X, y) gives the same components_ as fitting the
weakly-supervised base algorithm with the same hyper-parameters on the constraints metric_learn.Constraints(y) yields
with the same random_state:
  ITML/MMC/SDML  base.fit(*wrap_pairs(X, Constraints(y).positive_negative_pairs(n_c, random_state=s)))
  LSML           LSML.fit(X[column_stack(Constraints(y).positive_negative_pairs(n_c, same_length=True, random_state=s))], weights)
  RCA            RCA.fit(X, Constraints(y).chunks(n_chunks, chunk_size, random_state=s))
  SCML           SCML.fit(X[Constraints(y).generate_knntriplets(X, k_genuine, k_impostor)])   (basis 'triplet_diffs'; for the
                 supervised-only basis 'lda' the base optimiser is given the basis the supervised helper builds, which is the
                 documented call `_fit(X[triplets], basis, n_basis)`)
with n_c = n_constraints, or 20 * n_classes**2 when None (n_classes counted with or without the unknown marker: either is
accepted, the property does not say).
Clause `unlabeled-points-contribute-nothing`: moving the points whose label is negative does not change the learned metric
(prior/init 'identity', so that nothing but the constraints reaches the learner).
Cases on which both fits raise the same exception type are vacuous (counted, not judged).
"""
import os
import warnings

import numpy as np

from .common import repo

ESTIMATORS = ('ITML_Supervised', 'MMC_Supervised', 'SDML_Supervised', 'LSML_Supervised', 'RCA_Supervised', 'SCML_Supervised')
TAGS = {'ITML_Supervised': 'itml:ITML_Supervised.fit', 'MMC_Supervised': 'mmc:MMC_Supervised.fit', 'SDML_Supervised': 'sdml:SDML_Supervised.fit',
        'LSML_Supervised': 'lsml:LSML_Supervised.fit', 'RCA_Supervised': 'rca:RCA_Supervised.fit', 'SCML_Supervised': 'scml:SCML_Supervised.fit'}
CONFIG = {'replay': dict(n_sets=6, n_seeds=1), 'quick': dict(n_sets=18, n_seeds=2), 'thorough': dict(n_sets=72, n_seeds=3)}
PATTERNS = ('none', 'first', 'last', 'middle', 'first-two', 'scattered', 'none', 'before-each-class', 'many')
VACUOUS = []
RTOL, ATOL = 1e-6, 1e-9      # on M = L^T L; ATOL relative to max |M|
D = 3


# ------------------------------------------------------------------------------------------------------ generation

def datasets(tier, seed):
  """(name, X, y, X2): clustered points, labels >= 0 with unknown (-1) labels at the positions the pattern names;
  X2 differs from X exactly in the rows whose label is negative"""
  cfg = CONFIG[tier]
  rng = np.random.RandomState(seed)
  out = []
  for i in range(cfg['n_sets']):
    k = 2 + (i + i // len(PATTERNS)) % 2
    per = rng.randint(3, 6, size=k)
    cls = np.repeat(np.arange(k), per)
    rng.shuffle(cls)
    names = np.array([[0, 1, 2], [1, 3, 7], [2, 0, 5]][i % 3])        # label values need not be 0..k-1
    pat = PATTERNS[i % len(PATTERNS)]
    m = len(cls)
    if pat == 'none':
      pos = []
    elif pat == 'first':
      pos = [0]
    elif pat == 'last':
      pos = [m]
    elif pat == 'middle':
      pos = [m // 2]
    elif pat == 'first-two':
      pos = [0, 0]
    elif pat == 'scattered':
      pos = sorted(rng.randint(0, m + 1, size=3).tolist())
    elif pat == 'before-each-class':
      pos = sorted(int(np.where(cls == c)[0][0]) for c in range(k))
    else:
      pos = sorted(rng.randint(0, m + 1, size=m // 2).tolist())
    y = names[cls].tolist()
    for p in reversed(pos):
      y.insert(p, -1)
    y = np.array(y)
    centers = rng.randn(k, D) * 3.0
    X = np.zeros((len(y), D))
    X[y >= 0] = centers[cls] + rng.randn(m, D)
    X[y < 0] = rng.randn(int((y < 0).sum()), D) * 3.0
    X2 = X.copy()
    X2[y < 0] = rng.randn(int((y < 0).sum()), D) * 4.0 + 5.0
    out.append(('#%d %s' % (i, pat), X, y, X2))
  return out


def grids(est):
  """hyper-parameter settings: (dict for the supervised constructor, usable for the unlabeled clause?)"""
  if est == 'ITML_Supervised':
    # bounds is the fit-time argument of both ITML_Supervised.fit and ITML.fit (None: percentiles of the pair points' distances)
    return [(dict(n_constraints=nc, gamma=g, max_iter=15, prior=p, bounds=b), p == 'identity')
            for nc, g, p, b in ((None, 1.0, 'identity', None), (5, 2.0, 'identity', (1.0, 20.0)), (12, 1.0, 'covariance', None), (3, 0.5, 'random', (0.5, 9.0)),
                                (8, 1.0, 'identity', (2.0, 30.0)))]
  if est == 'MMC_Supervised':
    # the full-matrix solver needs some iterations before it leaves the identity on this data
    return [(dict(n_constraints=nc, max_iter=mi, max_proj=mp, init='identity', diagonal=dg), True)
            for nc, dg, mi, mp in ((None, False, 50, 1000), (8, False, 50, 1000), (6, True, 5, 30))]
  if est == 'SDML_Supervised':
    return [(dict(n_constraints=nc, prior='identity', balance_param=bp, sparsity_param=0.01), True) for nc, bp in ((None, 1e-4), (8, 1e-3), (5, 3e-4))]      # small balance: the graphical-lasso input stays SPD on this data
  if est == 'LSML_Supervised':
    return [(dict(n_constraints=nc, prior=p, max_iter=5, weights=w), p == 'identity')
            for nc, p, w in ((None, 'identity', None), (6, 'identity', 'given'), (9, 'covariance', None))]
  if est == 'RCA_Supervised':
    # with dimensionality reduction RCA also uses the TOTAL covariance -- of the chunked points only ("unlabelled points contribute nothing")
    return ([(dict(n_chunks=nch, chunk_size=cs), True) for nch, cs in ((3, 2), (4, 2), (2, 3), (2, 2), (1, 3))]
            + [(dict(n_chunks=nch, chunk_size=cs, n_components=k), True) for nch, cs, k in ((3, 2, 2), (4, 2, 1), (2, 3, 2))])
  return ([(dict(k_genuine=kg, k_impostor=ki, basis='triplet_diffs', n_basis=nb, max_iter=40, output_iter=10, batch_size=4), True)
           for kg, ki, nb in ((1, 1, 6), (2, 2, 6), (3, 1, 8), (1, 3, 8), (2, 3, 6))]
          + [(dict(k_genuine=2, k_impostor=2, basis='lda', n_basis=6, max_iter=40, output_iter=10, batch_size=4), False)])


# --------------------------------------------------------------------------------------------------------- fitting

def outcome(f):
  """-> ('ok', components_) or ('exc', 'TypeName: message')"""
  with warnings.catch_warnings():
    warnings.simplefilter('ignore')
    with np.errstate(all='ignore'):
      try:
        return 'ok', np.array(f().components_)
      except Exception as e:
        return 'exc', '%s: %s' % (type(e).__name__, str(e)[:160])


def lsml_weights(ml, y, hp, s):
  """an explicit weight vector of the length the constraint generator yields for these settings"""
  cand = default_candidates(y, hp['n_constraints'])
  with warnings.catch_warnings():
    warnings.simplefilter('ignore')
    m = len(ml.Constraints(y).positive_negative_pairs(cand[0], same_length=True, random_state=s)[0])
  return np.linspace(0.5, 1.5, m)


def default_candidates(y, nc, has_nc=True):
  if not has_nc:
    return [None]
  if nc is not None:
    return [nc]
  c = [20 * len(np.unique(y)) ** 2]
  if (y < 0).any():
    c.append(20 * len(np.unique(y[y >= 0])) ** 2)
  return c


def fit_supervised(ml, est, hp, s, X, y):
  hp = dict(hp)
  if est == 'ITML_Supervised':
    b = hp.pop('bounds')
    return ml.ITML_Supervised(random_state=s, **hp).fit(X.copy(), y.copy(), bounds=None if b is None else np.array(b, dtype=float))
  return getattr(ml, est)(random_state=s, **hp).fit(X.copy(), y.copy())


def base_estimator(ml, est, hp, s):
  """the weakly-supervised base class constructed with the SAME hyper-parameters: every constructor parameter the two
  classes share is read from the supervised estimator (their defaults differ, e.g. tol of MMC vs MMC_Supervised)"""
  import inspect
  sup = getattr(ml, est)(random_state=s, **hp)
  params = sup.get_params(deep=False)
  cls = getattr(ml, est[:-len('_Supervised')])
  names = [k for k in inspect.signature(cls.__init__).parameters if k != 'self']
  return cls(**{k: params[k] for k in names if k in params})


def fit_base(ml, est, hp, s, X, y, nc):
  from metric_learn.constraints import wrap_pairs
  hp = dict(hp)
  C = ml.Constraints(y.copy())
  if est in ('ITML_Supervised', 'MMC_Supervised', 'SDML_Supervised'):
    pairs, lab = wrap_pairs(X, C.positive_negative_pairs(nc, random_state=s))
    if est == 'ITML_Supervised':
      b = hp.pop('bounds')
      return base_estimator(ml, est, hp, s).fit(pairs, lab, bounds=None if b is None else np.array(b, dtype=float))
    return base_estimator(ml, est, hp, s).fit(pairs, lab)
  if est == 'LSML_Supervised':
    quads = X[np.column_stack(C.positive_negative_pairs(nc, same_length=True, random_state=s))]
    return base_estimator(ml, est, hp, s).fit(quads, weights=hp['weights'])
  if est == 'RCA_Supervised':
    return base_estimator(ml, est, hp, s).fit(X.copy(), C.chunks(n_chunks=hp['n_chunks'], chunk_size=hp['chunk_size'], random_state=s))
  trip = X[C.generate_knntriplets(X, hp['k_genuine'], hp['k_impostor'])]
  if hp['basis'] == 'lda':
    basis, n_basis = getattr(ml, est)(random_state=s, **hp)._initialize_basis_supervised(X, y)
    base = base_estimator(ml, est, hp, s)
    base.set_params(basis='triplet_diffs')      # unused: the basis is handed to the optimiser, as SCML_Supervised.fit does
    return base._fit(trip, basis, n_basis)
  return base_estimator(ml, est, hp, s).fit(trip)


def metric(L):
  return L.T.dot(L)


def same(A, B):
  """the same metric: M = L^T L agrees up to rounding (two executions of the same arithmetic on differently aligned copies
  differ in the last bits, which an iterative solver and the final matrix square root amplify; a different constraint
  set or seed changes M in the leading digits)"""
  if A.shape[1:] != B.shape[1:]:
    return False
  MA, MB = metric(A), metric(B)
  with np.errstate(all='ignore'):
    scale = float(np.nanmax(np.abs(MA))) if MA.size and np.isfinite(MA).any() else 0.0
  return bool(np.allclose(MA, MB, rtol=RTOL, atol=ATOL * max(scale, 1e-300), equal_nan=True))


def diff(A, B):
  if A.shape[1:] != B.shape[1:]:
    return 'shapes %r vs %r' % (A.shape, B.shape)
  MA, MB = metric(A), metric(B)
  with np.errstate(all='ignore'):
    return 'components_ shapes %r / %r, max |M - M\'| = %.3g (max |M| = %.3g)' % (
        A.shape, B.shape, float(np.nanmax(np.abs(MA - MB))) if MA.size else 0.0, float(np.nanmax(np.abs(MA))) if MA.size else 0.0)


def describe(est, hp, s, X, y, **more):
  d = dict(estimator=est, hyper_parameters={k: (v if not isinstance(v, np.ndarray) else v.tolist()) for k, v in hp.items()},
           random_state=s, X=X.tolist(), y=y.tolist())
  d.update(more)
  return d


def sig(est, y):
  return '%s %s' % (est, 'with unknown labels' if (y < 0).any() else 'without unknown labels')


def check_refinement(ml, est, hp, s, X, y):
  hp = dict(hp)
  if hp.get('weights') == 'given':
    hp['weights'] = lsml_weights(ml, y, hp, s)
  hp_sup = dict(hp)
  if hp_sup.get('weights') is not None:
    hp_sup['weights'] = hp['weights'].copy()
  st, A = outcome(lambda: fit_supervised(ml, est, hp_sup, s, X, y))
  results = []
  for nc in default_candidates(y, hp.get('n_constraints'), 'n_constraints' in hp):
    hp_b = dict(hp)
    if hp_b.get('weights') is not None:
      hp_b['weights'] = hp['weights'].copy()
    results.append((nc,) + outcome(lambda: fit_base(ml, est, hp_b, s, X, y, nc)))
  if st == 'exc':
    if any(r[1] == 'exc' and r[2].split(':')[0] == A.split(':')[0] for r in results):
      VACUOUS.append((est, A.split(':')[0]))
      return None
    return dict(tag='refinement.same-outcome', signature=sig(est, y), input=describe(est, hp, s, X, y),
                observed='%s.fit raises %s; the base learner on the derived constraints returns a metric' % (est, A))
  if any(r[1] == 'ok' and same(A, r[2]) for r in results):
    return None
  ok = [r for r in results if r[1] == 'ok']
  if not ok and not np.isfinite(A).all():
    VACUOUS.append((est, 'non-finite metric'))      # degenerate fit: the public base fit goes on to calibrate a threshold and rejects it
    return None
  if not ok:
    return dict(tag='refinement.same-outcome', signature=sig(est, y), input=describe(est, hp, s, X, y),
                observed='%s.fit returns a metric; the base learner on the derived constraints raises %s' % (est, results[0][2]))
  return dict(tag='refinement.same-components', signature=sig(est, y), input=describe(est, hp, s, X, y),
              observed='components_ of %s differ from the base learner fitted on the constraints of Constraints(y) with random_state=%d: %s'
                       % (est, s, '; '.join(('n_constraints=%s: ' % r[0] if r[0] is not None else '') + diff(A, r[2]) for r in ok)))


def check_unlabeled(ml, est, hp, s, X, y, X2):
  hp = dict(hp)
  if hp.get('weights') == 'given':
    hp['weights'] = lsml_weights(ml, y, hp, s)
  hp2 = dict(hp)
  if hp.get('weights') is not None:
    hp2['weights'] = hp['weights'].copy()
    hp['weights'] = hp['weights'].copy()
  st, A = outcome(lambda: fit_supervised(ml, est, hp, s, X, y))
  st2, B = outcome(lambda: fit_supervised(ml, est, hp2, s, X2, y))
  if st == 'exc' and st2 == 'exc' and A.split(':')[0] == B.split(':')[0]:
    VACUOUS.append((est, A.split(':')[0]))
    return None
  rows = np.where(y < 0)[0].tolist()
  if st != st2 or st == 'exc':
    return dict(tag='unlabeled-points-contribute-nothing', signature=sig(est, y), input=describe(est, hp, s, X, y, X_moved=X2.tolist()),
                observed='moving the unlabeled rows %s changes the outcome of %s.fit: %s vs %s' % (rows, est, A if st == 'exc' else 'a metric', B if st2 == 'exc' else 'a metric'))
  if not same(A, B):
    return dict(tag='unlabeled-points-contribute-nothing', signature=sig(est, y), input=describe(est, hp, s, X, y, X_moved=X2.tolist()),
                observed='moving the unlabeled rows %s (labels -1) changes components_ of %s: %s' % (rows, est, diff(A, B)))
  return None


# ----------------------------------------------------------------------------------------------------------- cases

def int_seeds(tier, seed):
  extra = np.random.RandomState(seed + 1).randint(1, 2 ** 31 - 1, size=4).tolist()
  return ([0] + [int(v) for v in extra])[:CONFIG[tier]['n_seeds']]


def cases(tier, seed):
  ml = repo()
  seeds = int_seeds(tier, seed)
  data = datasets(tier, seed)
  for est in ESTIMATORS:
    for name, X, y, X2 in data:
      ys = ','.join(str(v) for v in y)
      for hp, ident in grids(est):
        hps = ' '.join('%s=%s' % kv for kv in sorted(hp.items()))
        for s in seeds:
          yield ('%s refinement data %s y=[%s] %s random_state=%d' % (est, name, ys, hps, s), (TAGS[est], 'refinement'),
                 lambda est=est, hp=hp, s=s, X=X, y=y: check_refinement(ml, est, hp, s, X, y))
          if ident and (y < 0).any():
            yield ('%s unlabeled data %s y=[%s] %s random_state=%d' % (est, name, ys, hps, s), (TAGS[est], 'unlabeled'),
                   lambda est=est, hp=hp, s=s, X=X, y=y, X2=X2: check_unlabeled(ml, est, hp, s, X, y, X2))


def single_thread():
  """tiny problems: one OpenMP/BLAS thread per process (the libraries must be loaded before threadpoolctl can reach them)"""
  os.environ.setdefault('OMP_NUM_THREADS', '1')
  repo()
  try:
    import sklearn.neighbors  # noqa: F401
    import sklearn.cluster    # noqa: F401
    import threadpoolctl
    return threadpoolctl.threadpool_limits(1)
  except Exception:
    return None


def _work(args):
  tier, seed, k, nproc = args
  limiter = single_thread()
  del VACUOUS[:]
  n = 0
  nontrivial = 0
  vio = {}
  samples = []
  per = {}
  for i, (desc, tags, thunk) in enumerate(cases(tier, seed)):
    if i % nproc != k:
      continue
    n += 1
    before = len(VACUOUS)
    b = thunk()
    key0 = '%s %s' % (desc.split(' ')[0], desc.split(' ')[1])
    c = per.setdefault(key0, [0, 0])
    c[0] += 1
    if len(VACUOUS) == before:
      nontrivial += 1
    else:
      c[1] += 1
    if k == 0 and n % 7 == 1 and len(samples) < 8:
      samples.append(desc)
    if b:
      key = (b['tag'], b['signature'])
      if key not in vio:
        vio[key] = [i, 0, dict(clause='runtime/C08/%s' % b['tag'], input=b['input'], observed=b['observed'], signature=b['signature'])]
      vio[key][1] += 1
  return dict(n=n, nontrivial=nontrivial, vio=list(vio.values()), samples=samples, per=per,
              vacuous=sorted({'%s: %s' % v for v in VACUOUS}))


def _parallel(tier, seed):
  try:
    ncpu = len(os.sched_getaffinity(0))
  except Exception:
    ncpu = os.cpu_count() or 1
  nproc = max(1, min(16, ncpu))
  if nproc > 1:
    try:
      import multiprocessing as mp
      with mp.get_context('fork').Pool(nproc) as pool:
        return pool.map(_work, [(tier, seed, k, nproc) for k in range(nproc)])
    except (ImportError, OSError, ValueError):
      pass
  return [_work((tier, seed, 0, 1))]


def run(tier, seed):
  cfg = CONFIG[tier]
  parts = _parallel(tier, seed)
  merged = {}
  for p in parts:
    for i, cnt, v in p['vio']:
      key = (v['clause'], v['signature'])
      if key not in merged:
        merged[key] = [i, 0, v]
      elif i < merged[key][0]:
        merged[key][0], merged[key][2] = i, v
      merged[key][1] += cnt
  vio = []
  for i, cnt, v in sorted(merged.values(), key=lambda t: t[0]):
    v = dict(v)
    v['failing_cases'] = cnt
    vio.append(v)
  per = {}
  for p in parts:
    for k, (a, b) in p['per'].items():
      c = per.setdefault(k, [0, 0])
      c[0] += a
      c[1] += b
  vac = sorted({v for p in parts for v in p['vacuous']})
  return dict(cases=sum(p['n'] for p in parts), distinct_nontrivial=sum(p['nontrivial'] for p in parts),
              rule='6 supervised estimators x data sets (2-3 clustered classes of 3-5 points, label values not necessarily 0..k-1, unknown labels absent / first / last / '
                   'middle / first two / scattered / before each class / many) x hyper-parameter settings x integer seeds; clause refinement on every case, clause '
                   'unlabeled (move the points labelled -1) where unknown labels are present and prior/init is identity; all descriptions distinct; non-trivial = at least '
                   'one of the two fits returned a metric.  cases (vacuous) per estimator and clause: %s.  vacuous because both fits raise: %s'
                   % ('; '.join('%s %d (%d)' % (k, a, b) for k, (a, b) in sorted(per.items())), '; '.join(vac) or 'none'),
              bound='%d data sets of <= 22 points in R^3, %d integer seeds, max_iter <= 50; M = components_^T components_ compared with rtol %g, atol %g * max|M|' % (cfg['n_sets'], cfg['n_seeds'], RTOL, ATOL),
              standin_samples=[s[:200] for s in parts[0]['samples']], violations=vio)


def replay_clause(cid, fail, seed):
  """first failing case exercising the supervised fit named in cid, else any failing case"""
  limiter = single_thread()
  target = cid.split('[')[0].split('/')[0]
  passes = [(target,), None] if target in TAGS.values() else [None]
  for only in passes:
    for desc, tags, thunk in cases('replay', seed):
      if only is not None and not (set(tags) & set(only)):
        continue
      b = thunk()
      if b:
        return dict(failing_input=b['input'], observed='%s: %s' % (b['tag'], b['observed']))
  return dict(note='no failing input among the replay-tier stand-in cases')
