"""runs one stand-in in a fresh interpreter (keeps the numeric code away from the verifier's heap) and prints its result as JSON"""
import importlib
import json
import os
import sys

# one BLAS/OpenMP thread per process: the stand-ins parallelise over cases themselves; nested thread pools only slow them down
for _v in ('OMP_NUM_THREADS', 'OPENBLAS_NUM_THREADS', 'MKL_NUM_THREADS'):
  os.environ.setdefault(_v, '1')

HERE = os.path.dirname(os.path.dirname(os.path.abspath(__file__)))
sys.path.insert(0, HERE)


def main():
  mode, prop, tier, seed = sys.argv[1], sys.argv[2], sys.argv[3], int(sys.argv[4])
  mod = importlib.import_module('standins.' + prop.lower())
  if mode == 'run':
    out = mod.run(tier, seed)
  else:
    cid = sys.argv[5]
    fail = json.loads(sys.argv[6]) if len(sys.argv) > 6 else {}
    out = mod.replay_clause(cid, fail, seed) if hasattr(mod, 'replay_clause') else None
  sys.stdout.write('\n@@RESULT@@' + json.dumps(out, default=str))


if __name__ == '__main__':
  main()
