"""C18 bounded stand-in / replay.  bounded -- not proved.
  * constructors run with sentinel objects: get_params / set_params identity, deprecated aliases (check_param, run)
  * unfitted-use-raises-NotFittedError: every query method of a never-fitted estimator, called with otherwise valid
    arguments (formed, and indices + preprocessor), raises sklearn.exceptions.NotFittedError
  * pickle-roundtrip: a fitted estimator and pickle.loads(pickle.dumps(est)) give bit-identical outputs of every query
    method on a query batch, and equal get_params()
  * clone-equivalent: clone(est) of an unfitted estimator with array / callable parameters has equal get_params() and,
    fitted with an integer random_state on the same data, the same model
  * clone-after-pickle: the sequences clone(pickle round-trip(est)) and pickle round-trip(clone(est)) work and keep the
    parameters (the property quantifies over set_params/clone/pickle sequences)
Configurations outside the quantifier or blocked by other findings are not generated: RCA n_components<d (F6),
SCML basis=<array> (F7), LFDA n_components<d (F11: not repeatable), partially labelled y (F3)."""
import contextlib
import inspect
import pickle
import warnings

import numpy as np

from .common import repo, PUBLIC, Sentinel, KIND

ALIASES = {'num_constraints': 'n_constraints', 'convergence_threshold': 'tol', 'num_chunks': 'n_chunks'}


def check_param(ml, cls_name, p):
  """-> None if ok, else a dict describing the failing input"""
  cls = getattr(ml, cls_name)
  s = Sentinel(p)
  kw = {p: s}
  if cls_name == 'LFDA' and p == 'embedding_type':
    s = 'plain'
    kw = {p: s}
  with warnings.catch_warnings(record=True) as w:
    warnings.simplefilter('always')
    try:
      est = cls(**kw)
    except Exception as e:
      # "every parameter x arbitrary values ... is stored untouched": a constructor that inspects / converts the value cannot store it untouched
      return dict(call='%s(%s=<sentinel object>)' % (cls_name, p), observed='the constructor raised %s: %s' % (type(e).__name__, str(e)[:120]))
  got = est.get_params(deep=False).get(p, '<absent>')
  if got is not s:
    return dict(call='%s(%s=<sentinel>)' % (cls_name, p), observed='get_params()[%r] = %r' % (p, got))
  s2 = Sentinel(p + '2') if not isinstance(s, str) else 'weighted'
  est.set_params(**{p: s2})
  if est.get_params(deep=False)[p] is not s2:
    return dict(call='%s().set_params(%s=<sentinel>)' % (cls_name, p), observed='get_params()[%r] = %r' % (p, est.get_params(deep=False)[p]))
  return None


def replay_clause(cid, fail, seed):
  # cid like 'scml:SCML_Supervised.__init__[SCML_Supervised]/ensures.roundtrip.gamma'
  ml = repo()
  try:
    cls_name = cid.split('[')[1].split(']')[0]
    clause = cid.split('/')[1]
  except IndexError:
    return None
  if clause.startswith('ensures.roundtrip.'):
    p = clause[len('ensures.roundtrip.'):]
    bad = check_param(ml, cls_name, p)
    if bad:
      return dict(failing_input=bad['call'], observed=bad['observed'])
  low = clause.lower()
  group = ('unfitted' if ('fitted' in low or 'guard' in low) else 'pickle' if 'pickle' in low else
           'clone' if 'clone' in low else None)
  if group:
    for pick in ((lambda d, t: group in t and cls_name in t and any('.%s[' % x in cid for x in t)),
                 (lambda d, t: group in t and cls_name in t), (lambda d, t: group in t)):
      for desc, tags, thunk in cases('quick', seed):
        if pick(desc, tags):
          bad = thunk()
          if bad:
            return dict(failing_input=bad['input'], observed=bad['observed'])
  return dict(note='no concrete failing input derived for ' + clause)


def run(tier, seed):
  ml = repo()
  cases = 0
  vio = []
  samples = []
  for cls_name in PUBLIC:
    cls = getattr(ml, cls_name)
    params = [p for p in inspect.signature(cls.__init__).parameters if p != 'self']
    for p in params:
      if p in ALIASES or (p == 'k' and cls_name == 'LMNN'):
        # alias: FutureWarning + mapped onto replacement
        s = Sentinel(p)
        with warnings.catch_warnings(record=True) as w:
          warnings.simplefilter('always')
          est = cls(**{p: s})
        cases += 1
        repl = ALIASES.get(p, 'n_neighbors')
        ok = any(issubclass(x.category, FutureWarning) for x in w) and est.get_params(deep=False).get(repl) is s
        if not ok:
          vio.append(dict(clause='runtime/%s.__init__/alias.%s' % (cls_name, p), input='%s(%s=<sentinel>)' % (cls_name, p),
                          observed='warnings=%s, %s=%r' % ([x.category.__name__ for x in w], repl, est.get_params(deep=False).get(repl))))
        continue
      cases += 1
      bad = check_param(ml, cls_name, p)
      if len(samples) < 5:
        samples.append('%s(%s=<sentinel>)' % (cls_name, p))
      if bad:
        vio.append(dict(clause='%s:%s.__init__[%s]/ensures.roundtrip.%s' % (owner_module(cls, ml), owner_name(cls), cls_name, p),
                        input=bad['call'], observed=bad['observed'], signature=''))
  n_ctor = cases
  seen = set()
  for desc, tags, thunk in globals()['cases'](tier, seed):
    cases += 1
    seen.add(desc)
    if cases % 53 == 0 and len(samples) < 9:
      samples.append(desc)
    bad = thunk()
    if bad:
      vio.append(dict(clause='runtime/C18/%s' % bad['tag'], input=bad['input'], observed=bad['observed'], signature=bad['signature']))
  return dict(cases=cases, distinct_nontrivial=n_ctor + len(seen),
              rule='one sentinel object per (estimator, constructor parameter): get_params / set_params identity; every query method '
                   'of a never-fitted estimator (formed arguments, and indices + array preprocessor) must raise NotFittedError; every '
                   'estimator fitted on a small dataset (formed, and indices + preprocessor) vs its pickle round trip: all query '
                   'outputs bit-identical, get_params equal; unfitted estimators with array/callable parameters vs clone(): equal '
                   'get_params, same model after fit with integer random_state; clone/pickle sequences; distinct = distinct descriptions',
              bound='17 estimators x every constructor parameter x 1 sentinel; 17 x <= 11 query methods x 2 unfitted variants; '
                    '17 x 2 fitted variants (n=24, d=3) x <= 10 outputs; 17 x 2 parameter configurations for clone; F6/F7/F11 configurations excluded',
              standin_samples=samples, violations=vio)


def owner_name(cls):
  for c in cls.__mro__:
    if '__init__' in vars(c):
      return c.__name__
  return cls.__name__


def owner_module(cls, ml):
  for c in cls.__mro__:
    if '__init__' in vars(c):
      return c.__module__.split('.')[-1]
  return '?'


# ------------------------------------------------------------------------------------------------------------------
# NotFittedError on unfitted use, pickle round trips, clone equivalence (run-time oracles on the real estimators)

QUERY_METHODS = ('transform', 'pair_distance', 'pair_score', 'score_pairs', 'get_metric', 'get_mahalanobis_matrix',
                 'predict', 'decision_function', 'score', 'set_threshold', 'calibrate_threshold')

FAST = {   # small, fast, valid settings with an integer random_state wherever there is one
  'Covariance': {}, 'LFDA': {}, 'RCA': {},
  'LMNN': dict(n_neighbors=2, max_iter=8, random_state=3),
  'NCA': dict(max_iter=8, random_state=3),
  'MLKR': dict(max_iter=8, random_state=3),
  'RCA_Supervised': dict(n_chunks=5, chunk_size=2, random_state=3),
  'ITML': dict(max_iter=15, random_state=3),
  'ITML_Supervised': dict(max_iter=15, n_constraints=12, random_state=3),
  'MMC': dict(max_iter=5, max_proj=500, random_state=3),
  'MMC_Supervised': dict(max_iter=5, max_proj=500, n_constraints=12, random_state=3),
  'SDML': dict(balance_param=1e-5, random_state=3),
  'SDML_Supervised': dict(balance_param=1e-5, n_constraints=12, random_state=3),
  'LSML': dict(max_iter=8, random_state=3),
  'LSML_Supervised': dict(max_iter=8, n_constraints=12, random_state=3),
  'SCML': dict(n_basis=20, max_iter=200, output_iter=100, random_state=3),
  'SCML_Supervised': dict(n_basis=12, max_iter=200, output_iter=100, k_genuine=2, k_impostor=3, random_state=3),
}


class IndexInto:
  """a picklable callable preprocessor"""
  def __init__(self, X):
    self.X = X

  def __call__(self, indices):
    return self.X[np.asarray(indices)]


class _Data:
  pass


def small_data(seed, n=24, d=3):
  rng = np.random.RandomState([int(seed) % (2 ** 31), 18])
  D = _Data()
  D.n, D.d = n, d
  centers = rng.randn(3, d) * 4
  D.y = np.arange(n) % 3                                  # fully labelled
  D.X = centers[D.y] + rng.randn(n, d)
  D.yr = D.X.dot(rng.randn(d)) + 0.1 * rng.randn(n)
  D.chunks = np.where(np.arange(n) < 2 * n // 3, D.y, -1)
  P, T, Q = [], [], []
  while len(P) < 20:
    i, j = (int(v) for v in rng.randint(n, size=2))
    if i != j and (i, j) not in P and (D.y[i] == D.y[j]) == (len(P) % 2 == 0):
      P.append((i, j))
  while len(T) < 20:
    a, b, c = (int(v) for v in rng.randint(n, size=3))
    if a != b and D.y[a] == D.y[b] and D.y[a] != D.y[c] and (a, b, c) not in T:
      T.append((a, b, c))
  while len(Q) < 20:
    a, b, c, e = (int(v) for v in rng.randint(n, size=4))
    if a != b and D.y[a] == D.y[b] and D.y[c] != D.y[e] and (a, b, c, e) not in Q:
      Q.append((a, b, c, e))
  D.P, D.T, D.Q = np.array(P), np.array(T), np.array(Q)
  D.yp = np.array([1, -1] * 10)
  A = rng.randn(d, d)
  D.spd = A.dot(A.T) + d * np.eye(d)
  D.L = rng.randn(d, d)
  D.w = rng.rand(12) + 0.5
  D.Xq = centers[np.arange(5) % 3] + rng.randn(5, d)
  D.iq = np.array([0, 3, 7, 11, 2])
  return D


def _tuples(name, D):
  return {'pairs': D.P, 'triplets': D.T, 'quadruplets': D.Q}.get(KIND[name][0])


def fit_args(name, D, indexed):
  kind = KIND[name][0]
  if kind == 'points':
    X = np.arange(D.n) if indexed else D.X.copy()
    if name == 'Covariance':
      return (X,)
    return (X, {'MLKR': D.yr, 'RCA': D.chunks}.get(name, D.y).copy())
  t = _tuples(name, D)
  t = t.copy() if indexed else D.X[t]
  return (t, D.yp.copy()) if kind == 'pairs' else (t,)


def query_args(name, mname, D, indexed):
  """otherwise valid arguments of a query method (fresh arrays)"""
  kind = KIND[name][0]
  form = (lambda idx: idx.copy()) if indexed else (lambda idx: D.X[idx])
  if mname == 'transform':
    return (D.iq.copy() if indexed else D.Xq.copy(),)
  if mname in ('pair_distance', 'pair_score', 'score_pairs'):
    return (form(D.P[:6]),)
  if mname in ('get_metric', 'get_mahalanobis_matrix'):
    return ()
  if mname in ('predict', 'decision_function'):
    return (form(_tuples(name, D)[:6]),)
  if mname == 'score':
    return (form(D.P[:6]), D.yp[:6].copy()) if kind == 'pairs' else (form(_tuples(name, D)[:6]),)
  if mname == 'set_threshold':
    return (0.5,)
  if mname == 'calibrate_threshold':
    return (form(D.P[:10]), D.yp[:10].copy())
  raise ValueError(mname)


def bits(v):
  """bit-exact, comparable rendering of an output"""
  if isinstance(v, np.ndarray):
    return ('nd', v.dtype.str, v.shape, v.tobytes())
  if isinstance(v, np.generic):
    return ('np', v.dtype.str, v.tobytes())
  if isinstance(v, float):
    return ('float', np.float64(v).tobytes())
  return ('py', type(v).__name__, repr(v))


def outputs(ml, est, name, D, indexed):
  """{label: bits} of every query method the estimator has, on the query batch"""
  out = {}
  for m in QUERY_METHODS:
    if not hasattr(est, m) or m in ('set_threshold', 'calibrate_threshold'):
      continue
    if m == 'get_metric':
      f = est.get_metric()
      out['get_metric()(u, v)'] = bits(f(D.X[0], D.X[1]))
      out['get_metric()(u, v, squared=True)'] = bits(f(D.X[0], D.X[1], squared=True))
    else:
      out[m] = bits(getattr(est, m)(*query_args(name, m, D, indexed)))
  for a in ('threshold_', 'n_features_in_'):
    if hasattr(est, a):
      out[a] = bits(getattr(est, a))
  return out


def param_equal(a, b):
  if isinstance(a, np.ndarray) or isinstance(b, np.ndarray):
    return (isinstance(a, np.ndarray) and isinstance(b, np.ndarray) and a.dtype == b.dtype and a.shape == b.shape
            and bool(np.array_equal(a, b)))
  if isinstance(a, IndexInto) and isinstance(b, IndexInto):
    return param_equal(a.X, b.X)
  if a is b:
    return True
  try:
    return type(a) is type(b) and bool(a == b)
  except Exception:
    return False


def params_differ(e1, e2):
  p1, p2 = e1.get_params(deep=False), e2.get_params(deep=False)
  return sorted(k for k in set(p1) | set(p2) if k not in p1 or k not in p2 or not param_equal(p1[k], p2[k]))


def array_configs(name, D):
  """[(label, constructor parameters)] with array / callable parameter values (fresh arrays each call)"""
  fam = name.split('_')[0]
  a = dict(FAST[name], preprocessor=D.X.copy())
  b = dict(FAST[name], preprocessor=IndexInto(D.X.copy()))
  if name in ('LMNN', 'NCA', 'MLKR'):
    a['init'] = D.L.copy()
    b.update(init=D.L[:2].copy(), n_components=2)
  elif fam in ('ITML', 'SDML', 'LSML'):
    a['prior'] = D.spd.copy()
    b['prior'] = 'random'
  elif fam == 'MMC':
    a['init'] = D.spd.copy()
    b.update(init='random', diagonal=True)
  if name == 'LSML_Supervised':
    a['weights'] = D.w.copy()
  return [('array parameters', a), ('callable preprocessor', b)]


@contextlib.contextmanager
def _quiet():
  with contextlib.ExitStack() as stack:
    stack.enter_context(warnings.catch_warnings())
    warnings.simplefilter('ignore')
    stack.enter_context(np.errstate(all='ignore'))
    try:
      from threadpoolctl import threadpool_limits
      stack.enter_context(threadpool_limits(limits=1))     # bit-reproducible reductions (KMeans in SCML_Supervised)
    except ImportError:                                    # pragma: no cover
      pass
    yield


def _raised(e):
  return '%s: %s' % (type(e).__name__, str(e).replace('\n', ' ')[:160])


def cases(tier, seed):
  """generator of (description, tags, thunk) for the run-time groups (the constructor round trips are in run())"""
  from sklearn.base import clone
  from sklearn.exceptions import NotFittedError
  ml = repo()
  D = small_data(seed)

  # (i) unfitted use
  for name in PUBLIC:
    for indexed in (False, True):
      for m in QUERY_METHODS:
        if not hasattr(getattr(ml, name), m):
          continue
        call = '%s(%s).%s(<valid %s arguments>)' % (name, 'preprocessor=X' if indexed else '', m, 'index' if indexed else 'formed')

        def thunk(name=name, indexed=indexed, m=m, call=call):
          with _quiet():
            est = getattr(ml, name)(**({'preprocessor': D.X.copy()} if indexed else {}))
            try:
              r = getattr(est, m)(*query_args(name, m, D, indexed))
              got = 'returned %s' % type(r).__name__
            except NotFittedError:
              return None
            except Exception as e:
              got = 'raised ' + _raised(e)
          return dict(tag='unfitted-use-raises-NotFittedError', input=call, observed=got + ' (expected NotFittedError)',
                      signature='unfitted %s.%s' % (name, m))
        yield 'unfitted ' + call, ('unfitted', name, m), thunk

  # (ii) pickle round trip of a fitted estimator
  for name in PUBLIC:
    for indexed in (False, True):
      kw = dict(FAST[name], **({'preprocessor': D.X.copy()} if indexed else {}))
      desc = 'pickle %s(%s).fit(<%s data n=%d d=%d>)' % (name, ', '.join('%s=%s' % (k, 'X' if k == 'preprocessor' else repr(v)) for k, v in kw.items()),
                                                       'index' if indexed else 'formed', D.n, D.d)

      def thunk(name=name, indexed=indexed, kw=kw, desc=desc):
        with _quiet():
          try:
            est = getattr(ml, name)(**kw).fit(*fit_args(name, D, indexed))
          except Exception as e:
            return dict(tag='pickle-roundtrip', input=desc, observed='fit raised ' + _raised(e), signature='%s fit raises' % name)
          try:
            est2 = pickle.loads(pickle.dumps(est))
            o1, o2 = outputs(ml, est, name, D, indexed), outputs(ml, est2, name, D, indexed)
          except Exception as e:
            return dict(tag='pickle-roundtrip', input=desc, observed='raised ' + _raised(e), signature='%s pickle raises' % name)
          bad = [k for k in o1 if o1[k] != o2.get(k)] + ['get_params()[%r]' % k for k in params_differ(est, est2)]
        if bad:
          return dict(tag='pickle-roundtrip', input=desc, observed='differs after pickle.loads(pickle.dumps(est)): %s' % ', '.join(bad),
                      signature='%s pickle changes %s' % (name, bad[0]))
        return None
      yield desc, ('pickle', name), thunk

  # (iii) clone of an unfitted estimator with array / callable parameters; clone/pickle sequences
  for name in PUBLIC:
    for label, kw in array_configs(name, D):
      indexed = True
      desc = 'clone %s(<%s: %s>)' % (name, label, ', '.join(sorted(k for k, v in kw.items() if isinstance(v, (np.ndarray, IndexInto)))))

      def thunk(name=name, kw=kw, desc=desc, indexed=indexed):
        with _quiet():
          import copy
          snap = {k: copy.deepcopy(v) for k, v in kw.items() if isinstance(v, np.ndarray)}
          est = getattr(ml, name)(**kw)
          try:
            c = clone(est)
          except Exception as e:
            return dict(tag='clone-equivalent', input=desc, observed='clone raised ' + _raised(e), signature='%s clone raises' % name)
          bad = params_differ(est, c)
          if bad:
            return dict(tag='clone-equivalent', input=desc, observed='get_params() of the clone differs in %s' % bad,
                        signature='%s clone changes parameter %s' % (name, bad[0]))
          try:
            est.fit(*fit_args(name, D, indexed))
            c.fit(*fit_args(name, D, indexed))
            o1, o2 = outputs(ml, est, name, D, indexed), outputs(ml, c, name, D, indexed)
          except Exception as e:
            return dict(tag='clone-equivalent', input=desc, observed='fit/query raised ' + _raised(e), signature='%s fit of clone raises' % name)
          bad = [k for k in o1 if o1[k] != o2.get(k)]
          if bad or not np.array_equal(est.components_, c.components_):
            return dict(tag='clone-equivalent', input=desc, observed='estimator and its clone, fitted on the same data, differ in: %s'
                        % ', '.join(bad or ['components_']), signature='%s clone fits to another model' % name)
          # "the value passed at construction is stored UNTOUCHED and returned by get_params as the identical object": also after a fit
          after = est.get_params(deep=False)
          for k, v0 in snap.items():
            if after.get(k) is not kw[k]:
              return dict(tag='parameter-stored-untouched', input=desc, observed='after fit, get_params()[%r] is no longer the object passed' % k,
                          signature='%s.%s replaced by fit' % (name, k))
            if not (np.asarray(after[k]).shape == v0.shape and np.asarray(after[k]).tobytes() == v0.tobytes()):
              return dict(tag='parameter-stored-untouched', input=desc,
                          observed='after fit, get_params()[%r] no longer holds the values passed (max abs change %.3g)'
                          % (k, float(np.max(np.abs(np.asarray(after[k], dtype=float) - v0)))), signature='%s.%s changed by fit' % (name, k))
        return None
      yield desc, ('clone', name), thunk

    # a deprecated alias maps onto its replacement once: a later set_params of the replacement wins, and clone reproduces it
    for alias, repl in ALIASES.items():
      sig = inspect.signature(getattr(ml, name).__init__).parameters
      if alias not in sig or repl not in sig or (alias == 'k' and name != 'LMNN'):
        continue

      def alias_seq(name=name, alias=alias, repl=repl):
        v1, v2 = (0.5, 0.25) if repl == 'tol' else (7, 5)
        inp = '%s(%s=%r); set_params(%s=%r); clone' % (name, alias, v1, repl, v2)
        with _quiet():
          try:
            est = getattr(ml, name)(**{alias: v1})
            est.set_params(**{repl: v2})
            c = clone(est)
          except Exception as e:
            return dict(tag='clone-equivalent', input=inp, observed='raised ' + _raised(e), signature='%s alias %s then set_params(%s) then clone raises' % (name, alias, repl))
          if c.get_params(deep=False)[repl] != v2 or est.get_params(deep=False)[repl] != v2:
            return dict(tag='set_params-roundtrip', input=inp, observed='%s is %r in the estimator and %r in its clone (set_params gave %r)'
                        % (repl, est.get_params(deep=False)[repl], c.get_params(deep=False)[repl], v2), signature='%s alias %s overrides a later set_params' % (name, alias))
        return None
      yield 'alias %s then set_params(%s) then clone on %s' % (alias, repl, name), ('clone', 'set_params', name), alias_seq

    # an estimator whose fit RAISED (after its inputs were prepared) is still not fitted: queries raise NotFittedError
    bogus = {'LMNN': dict(init='bogus'), 'NCA': dict(init='bogus'), 'MLKR': dict(init='bogus'), 'MMC': dict(init='bogus'), 'MMC_Supervised': dict(init='bogus'),
             'LSML': dict(prior='bogus'), 'LSML_Supervised': dict(prior='bogus'), 'ITML': dict(prior='bogus'), 'ITML_Supervised': dict(prior='bogus'),
             'SDML': dict(prior='bogus'), 'SDML_Supervised': dict(prior='bogus'), 'LFDA': dict(n_components=D.d + 2), 'RCA': dict(n_components=D.d + 2),
             'RCA_Supervised': dict(n_components=D.d + 2)}.get(name)
    if bogus is not None:
      def failed_fit(name=name, bogus=bogus):
        with _quiet():
          est = getattr(ml, name)(**dict(FAST[name], **bogus))
          try:
            est.fit(*fit_args(name, D, False))
            return None                 # this configuration is accepted after all: nothing to observe
          except Exception:
            pass
          for m in QUERY_METHODS:
            if not hasattr(est, m) or m in ('set_threshold', 'calibrate_threshold'):
              continue                  # (setting a threshold does not use the learned metric)
            try:
              r = getattr(est, m)(*query_args(name, m, D, False))
              got = 'returned %s' % type(r).__name__
            except NotFittedError:
              continue
            except AttributeError as e:
              if m == 'predict' and 'threshold' in str(e):
                continue                # the documented answer of a pairs classifier that has no threshold (yet)
              got = 'raised ' + _raised(e)
            except Exception as e:
              got = 'raised ' + _raised(e)
            return dict(tag='unfitted-use-raises-NotFittedError', input='%s(%s).fit(...) raised; then .%s(<valid arguments>)' % (name, bogus, m),
                        observed=got + ' (expected NotFittedError)', signature='%s.%s after a failed fit' % (name, m))
        return None
      yield 'queries after a failed fit of %s(%s)' % (name, bogus), ('unfitted', name), failed_fit

    # set_params on a used estimator: the new value is what the estimator uses (it behaves like a clone built from its parameters)
    def swap(name=name):
      with _quiet():
        A = D.X.copy()
        B = D.X.dot(np.array([[0.6, -0.8, 0.0], [0.8, 0.6, 0.0], [0.0, 0.0, 1.0]])) * np.array([2.0, 1.0, 0.5]) + 1.0
        inp = 'est = %s(preprocessor=A, ...).fit(<indices>); est.set_params(preprocessor=B); est.fit(<indices>)  vs  clone(est).fit(<indices>)' % name
        try:
          est = getattr(ml, name)(**dict(FAST[name], preprocessor=A))
          est.fit(*fit_args(name, D, True))
          est.set_params(preprocessor=B)
          if est.get_params(deep=False)['preprocessor'] is not B:
            return dict(tag='set_params-roundtrip', input=inp, observed='get_params() does not return the object given to set_params', signature='%s set_params preprocessor' % name)
          c = clone(est)
          est.fit(*fit_args(name, D, True))
          c.fit(*fit_args(name, D, True))
        except Exception as e:
          return dict(tag='clone-equivalent', input=inp, observed='raised ' + _raised(e), signature='%s set_params sequence raises' % name)
        if not np.array_equal(est.components_, c.components_):
          return dict(tag='clone-equivalent', input=inp, observed='after set_params(preprocessor=B) the refitted estimator and its clone differ: max |dL| = %.3g'
                      % float(np.max(np.abs(est.components_ - c.components_))), signature='%s ignores set_params(preprocessor=...) after a fit' % name)
      return None
    yield 'set_params(preprocessor=...) on a fitted %s, then refit vs clone' % name, ('clone', 'set_params', name), swap

    def seq(name=name):
      with _quiet():
        est = getattr(ml, name)(**FAST[name])
        for what, make in (('clone(pickle.loads(pickle.dumps(est)))', lambda: clone(pickle.loads(pickle.dumps(est)))),
                           ('pickle.loads(pickle.dumps(clone(est)))', lambda: pickle.loads(pickle.dumps(clone(est)))),
                           ('clone(clone(est).set_params(**est.get_params()))', lambda: clone(clone(est).set_params(**est.get_params(deep=False))))):
          inp = 'est = %s(%s); %s' % (name, ', '.join('%s=%r' % kv for kv in FAST[name].items()), what)
          try:
            c = make()
          except Exception as e:
            return dict(tag='clone-after-pickle', input=inp, observed='raised ' + _raised(e), signature='%s %s raises' % (name, what.split('(')[0] + '-after-' + ('pickle' if what.startswith('clone(pickle') else 'clone')))
          bad = params_differ(est, c)
          if bad:
            return dict(tag='clone-after-pickle', input=inp, observed='parameters differ: %s' % bad, signature='%s clone/pickle sequence changes %s' % (name, bad[0]))
      return None
    yield 'clone/pickle sequences of %s(%s)' % (name, ', '.join('%s=%r' % kv for kv in FAST[name].items())), ('clone', 'pickle', name), seq
