"""C18 bounded stand-in / replay: run the real constructors with sentinel objects.  bounded -- not proved."""
import inspect
import warnings

from .common import repo, PUBLIC, Sentinel

ALIASES = {'num_constraints': 'n_constraints', 'convergence_threshold': 'tol', 'num_chunks': 'n_chunks'}


def check_param(ml, cls_name, p):
  """-> None if ok, else a dict describing the failing input"""
  cls = getattr(ml, cls_name)
  s = Sentinel(p)
  kw = {p: s}
  if cls_name == 'LFDA' and p == 'embedding_type':
    s = 'plain'
    kw = {p: s}
  with warnings.catch_warnings(record=True) as w:
    warnings.simplefilter('always')
    est = cls(**kw)
  got = est.get_params(deep=False).get(p, '<absent>')
  if got is not s:
    return dict(call='%s(%s=<sentinel>)' % (cls_name, p), observed='get_params()[%r] = %r' % (p, got))
  s2 = Sentinel(p + '2') if not isinstance(s, str) else 'weighted'
  est.set_params(**{p: s2})
  if est.get_params(deep=False)[p] is not s2:
    return dict(call='%s().set_params(%s=<sentinel>)' % (cls_name, p), observed='get_params()[%r] = %r' % (p, est.get_params(deep=False)[p]))
  return None


def replay_clause(cid, fail, seed):
  # cid like 'scml:SCML_Supervised.__init__[SCML_Supervised]/ensures.roundtrip.gamma'
  ml = repo()
  try:
    cls_name = cid.split('[')[1].split(']')[0]
    clause = cid.split('/')[1]
  except IndexError:
    return None
  if clause.startswith('ensures.roundtrip.'):
    p = clause[len('ensures.roundtrip.'):]
    bad = check_param(ml, cls_name, p)
    if bad:
      return dict(failing_input=bad['call'], observed=bad['observed'])
  return dict(note='no concrete failing input derived for ' + clause)


def run(tier, seed):
  ml = repo()
  cases = 0
  vio = []
  samples = []
  for cls_name in PUBLIC:
    cls = getattr(ml, cls_name)
    params = [p for p in inspect.signature(cls.__init__).parameters if p != 'self']
    for p in params:
      if p in ALIASES or (p == 'k' and cls_name == 'LMNN'):
        # alias: FutureWarning + mapped onto replacement
        s = Sentinel(p)
        with warnings.catch_warnings(record=True) as w:
          warnings.simplefilter('always')
          est = cls(**{p: s})
        cases += 1
        repl = ALIASES.get(p, 'n_neighbors')
        ok = any(issubclass(x.category, FutureWarning) for x in w) and est.get_params(deep=False).get(repl) is s
        if not ok:
          vio.append(dict(clause='runtime/%s.__init__/alias.%s' % (cls_name, p), input='%s(%s=<sentinel>)' % (cls_name, p),
                          observed='warnings=%s, %s=%r' % ([x.category.__name__ for x in w], repl, est.get_params(deep=False).get(repl))))
        continue
      cases += 1
      bad = check_param(ml, cls_name, p)
      if len(samples) < 5:
        samples.append('%s(%s=<sentinel>)' % (cls_name, p))
      if bad:
        vio.append(dict(clause='%s:%s.__init__[%s]/ensures.roundtrip.%s' % (owner_module(cls, ml), owner_name(cls), cls_name, p),
                        input=bad['call'], observed=bad['observed'], signature=''))
  return dict(cases=cases, distinct_nontrivial=cases, rule='one sentinel object per (estimator, constructor parameter); get_params / set_params identity',
              bound='17 estimators x every constructor parameter x 1 sentinel', standin_samples=samples, violations=vio)


def owner_name(cls):
  for c in cls.__mro__:
    if '__init__' in vars(c):
      return c.__name__
  return cls.__name__


def owner_module(cls, ml):
  for c in cls.__mro__:
    if '__init__' in vars(c):
      return c.__module__.split('.')[-1]
  return '?'
