"""C04 bounded stand-in / replay: the tuple classifiers of the REAL code decide exactly by comparing learned distances.
bounded -- not proved.

Estimators get their fitted state set directly (common.make_fitted: any transformation L, no solver), plus one small
real fit per learner so that thresholds produced by fit / calibrate_threshold are part of the histories.  Two oracles:

* distance-relative (any L, any finite data): the reference distances are what the estimator's own pair_distance returns
  for the *formed* pairs of the batch (T[:, :2], T[:, [0, 2]], T[:, 2:]); predict / decision_function / score must be
  exactly the documented function of those numbers.  Thresholds are placed ON observed distances (distance == threshold_),
  one ulp above and below, at 0, negative, +inf, ...
* exact-integer (integer L and integer points; every intermediate float is an exact integer): the squared distances are
  recomputed with integer arithmetic, so `d <= t`, `d(a,b) < d(a,c)` and `sign(d(c,d) - d(a,b))` are decided without
  any floating point, independently of pair_distance.

Batches always contain engineered ties: identical points, (a,b)/(b,a), (a,b,b), (a,b,a,b), (a,b,b,a), reflections,
translations.  Every batch is also presented as integer indices through an array preprocessor.
"""
import math
import warnings
from fractions import Fraction

import numpy as np

from .common import repo, make_fitted, transformations

P = 'base_metric:_PairsClassifierMixin.'
T3 = 'base_metric:_TripletsClassifierMixin.'
Q4 = 'base_metric:_QuadrupletsClassifierMixin.'
TAGS_PAIRS = (P + 'predict', P + 'decision_function', P + 'score', P + 'set_threshold')
TAGS_TRIP = (T3 + 'predict', T3 + 'decision_function', T3 + 'score')
TAGS_QUAD = (Q4 + 'predict', Q4 + 'decision_function', Q4 + 'score')

PAIRS = ('ITML', 'MMC', 'SDML')
STATS = dict(tie_cases=0, at_threshold_cases=0)


# ----------------------------------------------------------------------------------------------- data

def int_transformations(rng, d):
  yield 'int-identity', np.eye(d)
  yield 'int-diag', np.diag(np.arange(1, d + 1)).astype(float)
  yield 'int-matrix', rng.randint(-2, 3, size=(d, d)).astype(float)
  yield 'int-lowrank-1', np.eye(d)[:1]
  yield 'int-lowrank-2', rng.randint(-2, 3, size=(min(2, d), d)).astype(float)
  A = rng.randint(-2, 3, size=(d, d)).astype(float)
  A[-1] = A[0]
  yield 'int-rank-deficient', A


def all_transformations(rng, d):
  for name, L in int_transformations(rng, d):
    yield name, L, True
  for name, L in transformations(rng, d):
    yield name, L, name in ('identity', 'zero')


def points(rng, family, d, k):
  if family == 'int':
    return rng.randint(-3, 4, size=(k, d)).astype(float)
  if family == 'gauss':
    return rng.randn(k, d)
  return rng.randn(k, d) * 10.0 ** rng.randint(-3, 4, size=(k, 1))   # 'wide': mixed magnitudes 1e-3..1e3


def batch(rng, t, d, family, n):
  """formed tuples (n', t, d) with engineered ties, in shuffled order"""
  rows = [list(points(rng, family, d, t)) for _ in range(n)]
  a, b, c, e = points(rng, family, d, 4)
  if family == 'int':
    b345 = a + np.array(([3.0, 4.0] + [0.0] * d)[:d])     # distance exactly 5 under the identity (d >= 2)
  else:
    b345 = a + rng.randn(d) * 1e-12                       # near-duplicate
  if t == 2:
    rows += [[a, a], [a, b], [b, a], [c, c], [a, b345], [b345, a], [c, e], [e, c], [a + (c - e), a]]
  elif t == 3:
    rows += [[a, a, a], [a, b, b], [a, b, a], [a, a, b], [a, b, 2 * a - b], [a, 2 * a - b, b], [b, a, c], [b, c, a],
             [a, b345, b], [a, b, b345]]
  else:
    rows += [[a, a, a, a], [a, b, a, b], [a, b, b, a], [a, b, c, c + (b - a)], [a, a, c, e], [a, b, c, c], [c, e, a, b],
             [a, b, c, e], [a, b345, b345, a], [a, b, e, e + (a - b)]]
  T = np.array(rows, dtype=float)
  return T[rng.permutation(len(T))]


def pool_and_indices(rng, T):
  """a shuffled pool X of points and index tuples idx with X[idx] == T exactly"""
  n, t, d = T.shape
  flat = T.reshape(-1, d)
  perm = rng.permutation(len(flat))
  pool = flat[perm]
  inv = np.argsort(perm)
  idx = inv.reshape(n, t)
  assert np.array_equal(pool[idx], T)
  return pool, idx


def labels(rng, n, variant):
  y = np.where(rng.rand(n) < 0.5, 1, -1)
  y[0], y[1] = 1, -1                       # both classes present (roc_auc_score needs that)
  if variant == 1:
    y = y.astype(float)
  return y


def sq_int(L, A, B):
  """exact squared learned distances for integer L and integer points, as python ints"""
  Li = np.asarray(L).astype(np.int64)
  diff = (np.asarray(B) - np.asarray(A)).astype(np.int64)
  emb = diff.dot(Li.T)
  return [int(v) for v in (emb * emb).sum(axis=1)]


def auc_independent(y, s):
  """ROC-AUC as the Mann-Whitney statistic, O(n^2), half credit for ties"""
  pos = [v for v, l in zip(s, y) if l == 1]
  neg = [v for v, l in zip(s, y) if l != 1]
  num = Fraction(0)
  for p_ in pos:
    for q_ in neg:
      num += 1 if p_ > q_ else (Fraction(1, 2) if p_ == q_ else 0)
  return float(num / (len(pos) * len(neg)))


# ----------------------------------------------------------------------------------------------- oracles

def _inp(cls, lname, L, T, rep, extra=None):
  d = dict(estimator=cls, components_=np.asarray(L).tolist(), transformation=lname, tuples=np.asarray(T).tolist(),
           representation=rep)
  if extra:
    d.update(extra)
  return d


def _setup(ml, cls, L, T, rep, rng, threshold=None):
  if rep == 'indices':
    pool, idx = pool_and_indices(rng, T)
    return make_fitted(ml, cls, L, prep_X=pool, threshold=threshold), idx
  if rep == 'formed-F':
    # the same numbers in Fortran (column-major) memory order: a legitimate ndarray (np.asfortranarray, a .T view, data loaded from .mat)
    return make_fitted(ml, cls, L, threshold=threshold), np.asfortranarray(T)
  if rep == 'formed-view':
    # a non-contiguous view: every other row of a larger buffer, features reversed twice
    big = np.empty((2 * T.shape[0],) + T.shape[1:], dtype=T.dtype)
    big[::2] = T
    big[1::2] = -7.0
    return make_fitted(ml, cls, L, threshold=threshold), big[::2]
  return make_fitted(ml, cls, L, threshold=threshold), T


def threshold_specs(n, exact):
  """(name, how the threshold is derived from the batch distances D, how it is installed)"""
  ks = [0, n // 3, n // 2, n - 1]
  for k in ks:
    yield 'tie@%d' % k, (lambda D, k=k: D[k]), 'set_threshold'
    yield 'above@%d' % k, (lambda D, k=k: np.nextafter(D[k], np.inf)), 'direct'
    yield 'below@%d' % k, (lambda D, k=k: np.nextafter(D[k], -np.inf)), 'set_threshold'
  yield 'max', (lambda D: D.max()), 'direct'
  yield 'min', (lambda D: D.min()), 'direct'
  yield 'median', (lambda D: float(np.median(D))), 'set_threshold'
  for v in (0, 0.0, -1.0, 5e-324, float('inf'), np.float32(1.5), np.int64(3), 5, Fraction(5, 2), 2.5, 1, 10 ** 20):
    yield 'const %s %r' % (type(v).__name__, v), (lambda D, v=v: v), 'set_threshold'


def check_pairs_threshold(ml, cls, lname, L, exact, T, rep, spec, seed):
  name, derive, how = spec
  rng = np.random.RandomState(seed)
  est, arg = _setup(ml, cls, L, T, rep, rng)
  with np.errstate(all='ignore'):
    D = est.pair_distance(T)
  if not np.all(np.isfinite(D)):
    return None                         # outside the quantifier (finite tuples with finite learned distances)
  t_in = derive(D)
  if how == 'direct':
    est.threshold_ = float(t_in)
  else:
    r = est.set_threshold(t_in)
    if r is not est:
      return dict(tag=P + 'set_threshold/returns-self', observed='set_threshold returned %r' % (r,),
                  input=_inp(cls, lname, L, T, rep, dict(threshold=repr(t_in))))
    if type(est.threshold_) is not float or est.threshold_ != float(t_in):
      return dict(tag=P + 'set_threshold/stores-float', observed='threshold_ = %r after set_threshold(%r)' % (est.threshold_, t_in),
                  input=_inp(cls, lname, L, T, rep, dict(threshold=repr(t_in))))
  thr = est.threshold_
  pred = np.asarray(est.predict(arg))
  want = np.where(D <= thr, 1, -1)
  if np.any(D == thr):
    STATS['at_threshold_cases'] += 1
  if len(np.unique(D)) < len(D):
    STATS['tie_cases'] += 1
  inp = _inp(cls, lname, L, T, rep, dict(threshold_=repr(thr), threshold_spec=name))
  if pred.shape != want.shape or not np.array_equal(pred, want):
    bad = np.where(pred != want)[0][:3].tolist() if pred.shape == want.shape else None
    return dict(tag=P + 'predict/iff-distance-le-threshold',
                observed='predict=%r but distances=%r threshold_=%r (rows %r)' % (pred.tolist(), D.tolist(), thr, bad), input=inp)
  # monotone in the distance: no pair predicted -1 is at most as far as a pair predicted +1
  if np.any(pred == 1) and np.any(pred == -1) and D[pred == -1].min() <= D[pred == 1].max():
    return dict(tag=P + 'predict/monotone-in-distance', observed='predict=%r distances=%r' % (pred.tolist(), D.tolist()), input=inp)
  if exact and isinstance(t_in, (int, float, Fraction, np.integer, np.floating)) and how == 'set_threshold' \
     and name.startswith('const') and math.isfinite(float(t_in)):
    tq = Fraction(t_in) if not isinstance(t_in, (np.integer, np.floating)) else Fraction(float(t_in))
    d2 = sq_int(L, T[:, 0], T[:, 1])
    want2 = np.array([1 if (tq >= 0 and v <= tq * tq) else -1 for v in d2])
    if not np.array_equal(pred, want2):
      return dict(tag=P + 'predict/iff-distance-le-threshold',
                  observed='exact integer oracle: squared distances %r, threshold %s, predict=%r' % (d2, tq, pred.tolist()), input=inp)
  return None


def check_pairs_decision_score(ml, cls, lname, L, exact, T, rep, yvariant, seed):
  rng = np.random.RandomState(seed)
  est, arg = _setup(ml, cls, L, T, rep, rng)
  from sklearn.metrics import roc_auc_score
  with np.errstate(all='ignore'):
    D = est.pair_distance(T)
    if not np.all(np.isfinite(D)):
      return None
    dec = np.asarray(est.decision_function(arg))
  inp = _inp(cls, lname, L, T, rep)
  if dec.shape != D.shape or not np.array_equal(dec, -D):
    return dict(tag=P + 'decision_function/is-negated-distance', observed='decision_function=%r distances=%r' % (dec.tolist(), D.tolist()), input=inp)
  if exact:
    d2 = sq_int(L, T[:, 0], T[:, 1])
    ref = np.array([-math.sqrt(v) for v in d2])
    if not np.array_equal(dec, ref):
      return dict(tag=P + 'decision_function/is-negated-distance',
                  observed='exact integer oracle: squared distances %r, decision_function=%r' % (d2, dec.tolist()), input=inp)
  y = labels(rng, len(T), yvariant)
  inp['y'] = y.tolist()
  sc = est.score(arg, y)
  ref = roc_auc_score(y, -D)
  if sc != ref:
    return dict(tag=P + 'score/is-roc-auc-of-decision', observed='score=%r roc_auc_score(y, -distance)=%r' % (sc, ref), input=inp)
  ind = auc_independent(y, (-D).tolist())
  if abs(sc - ind) > 1e-12:
    return dict(tag=P + 'score/is-roc-auc-of-decision', observed='score=%r, Mann-Whitney AUC of -distance=%r' % (sc, ind), input=inp)
  return None


CALIB = (('accuracy', {}), ('f_beta', dict(beta=1.0)), ('f_beta', dict(beta=0.5)), ('max_tpr', dict(min_rate=0.5)),
         ('max_tnr', dict(min_rate=0.5)), ('max_tpr', dict(min_rate=0.0)), ('max_tnr', dict(min_rate=1.0)))


def check_pairs_calibrated(ml, cls, lname, L, T, T2, rep, strategy, kw, seed):
  """history: threshold_ produced by calibrate_threshold (it lies ON a validation distance, so ties are built in)"""
  rng = np.random.RandomState(seed)
  est, arg = _setup(ml, cls, L, T, rep, rng)
  y = labels(rng, len(T), 0)
  with np.errstate(all='ignore'):
    D = est.pair_distance(T)
    D2 = est.pair_distance(T2)
  if not (np.all(np.isfinite(D)) and np.all(np.isfinite(D2))):
    return None
  est.calibrate_threshold(arg, y, strategy=strategy, **kw)
  thr = est.threshold_
  inp = _inp(cls, lname, L, T, rep, dict(y=y.tolist(), history='calibrate_threshold(%s, %r)' % (strategy, kw), threshold_=repr(thr)))
  for which, data, dist in (('validation pairs', arg, D), ('fresh pairs', T2, D2)):
    pred = np.asarray(est.predict(data))
    want = np.where(dist <= thr, 1, -1)
    if np.any(dist == thr):
      STATS['at_threshold_cases'] += 1
    if not np.array_equal(pred, want):
      return dict(tag=P + 'predict/iff-distance-le-threshold',
                  observed='%s: predict=%r distances=%r threshold_=%r' % (which, pred.tolist(), dist.tolist(), thr), input=inp)
  return None


NUMBERS = (0, 1, -3, 2.5, -0.0, 1e-300, 1e300, float('inf'), np.float32(0.1), np.float64(7.25), np.float16(2.0), np.int8(-4),
           np.int64(10 ** 15), np.uint8(200), Fraction(7, 2), 10 ** 20, np.array(2.0))
NON_NUMBERS = (None, 'abc', '', [1.0, 2.0], (1.0,), {}, {1.0}, object(), np.array([1.0, 2.0]), np.array(['x']), b'\xff', lambda: 1.0)


def check_set_threshold(ml, cls, v, is_number):
  est = make_fitted(ml, cls, np.eye(2), threshold=123.0)
  try:
    r = est.set_threshold(v)
  except ValueError:
    if is_number:
      return dict(tag=P + 'set_threshold/stores-float', observed='ValueError for the number %r' % (v,), input=dict(estimator=cls, threshold=repr(v)))
    return None
  except Exception as e:
    return dict(tag=P + 'set_threshold/ValueError-on-non-number', observed='%s: %s' % (type(e).__name__, e), input=dict(estimator=cls, threshold=repr(v)))
  if not is_number:
    return dict(tag=P + 'set_threshold/ValueError-on-non-number', observed='no exception; threshold_=%r' % (est.threshold_,),
                input=dict(estimator=cls, threshold=repr(v)))
  if r is not est:
    return dict(tag=P + 'set_threshold/returns-self', observed='returned %r' % (r,), input=dict(estimator=cls, threshold=repr(v)))
  if type(est.threshold_) is not float or est.threshold_ != float(v) or math.copysign(1, est.threshold_) != math.copysign(1, float(v)):
    return dict(tag=P + 'set_threshold/stores-float', observed='threshold_=%r (%s)' % (est.threshold_, type(est.threshold_).__name__),
                input=dict(estimator=cls, threshold=repr(v)))
  return None


def check_triplets(ml, lname, L, exact, T, rep, seed, est=None):
  cls = 'SCML'
  rng = np.random.RandomState(seed)
  if est is None:
    est, arg = _setup(ml, cls, L, T, rep, rng)
  else:
    arg = T
  with np.errstate(all='ignore'):
    dab = est.pair_distance(T[:, :2])
    dac = est.pair_distance(T[:, [0, 2]])
    if not (np.all(np.isfinite(dab)) and np.all(np.isfinite(dac))):
      return None
    dec = np.asarray(est.decision_function(arg))
    pred = np.asarray(est.predict(arg))
    sc = est.score(arg)
    swapped = np.asarray(est.decision_function(arg[:, [0, 2, 1]]))
  inp = _inp(cls, lname, L, T, rep)
  if np.any(dab == dac):
    STATS['tie_cases'] += 1
  if dec.shape != dab.shape or not np.array_equal(dec, dac - dab):
    return dict(tag=T3 + 'decision_function/is-dac-minus-dab', observed='decision_function=%r d(a,b)=%r d(a,c)=%r' % (dec.tolist(), dab.tolist(), dac.tolist()), input=inp)
  want = np.where(dab < dac, 1, -1)
  if not np.array_equal(pred, want):
    return dict(tag=T3 + 'predict/iff-dab-lt-dac', observed='predict=%r d(a,b)=%r d(a,c)=%r' % (pred.tolist(), dab.tolist(), dac.tolist()), input=inp)
  if abs(sc - float(np.mean(want == 1))) > 1e-12:
    return dict(tag=T3 + 'score/is-fraction-predicted-plus-one', observed='score=%r, fraction with d(a,b)<d(a,c) = %r' % (sc, float(np.mean(want == 1))), input=inp)
  if not np.array_equal(swapped, -dec):
    return dict(tag=T3 + 'decision_function/swap-negates', observed='decision(a,c,b)=%r decision(a,b,c)=%r' % (swapped.tolist(), dec.tolist()), input=inp)
  if exact:
    ab, ac = sq_int(L, T[:, 0], T[:, 1]), sq_int(L, T[:, 0], T[:, 2])
    want2 = np.array([1 if u < v else -1 for u, v in zip(ab, ac)])
    if not np.array_equal(pred, want2):
      return dict(tag=T3 + 'predict/iff-dab-lt-dac', observed='exact integer oracle: d2(a,b)=%r d2(a,c)=%r predict=%r' % (ab, ac, pred.tolist()), input=inp)
    ref = np.array([math.sqrt(v) - math.sqrt(u) for u, v in zip(ab, ac)])
    if not np.array_equal(dec, ref):
      return dict(tag=T3 + 'decision_function/is-dac-minus-dab', observed='exact integer oracle: d2(a,b)=%r d2(a,c)=%r decision=%r' % (ab, ac, dec.tolist()), input=inp)
  return None


def check_quadruplets(ml, lname, L, exact, T, rep, seed, est=None):
  cls = 'LSML'
  rng = np.random.RandomState(seed)
  if est is None:
    est, arg = _setup(ml, cls, L, T, rep, rng)
  else:
    arg = T
  with np.errstate(all='ignore'):
    dab = est.pair_distance(T[:, :2])
    dcd = est.pair_distance(T[:, 2:])
    if not (np.all(np.isfinite(dab)) and np.all(np.isfinite(dcd))):
      return None
    dec = np.asarray(est.decision_function(arg))
    pred = np.asarray(est.predict(arg))
    sc = est.score(arg)
    swapped = np.asarray(est.decision_function(arg[:, [2, 3, 0, 1]]))
  inp = _inp(cls, lname, L, T, rep)
  if np.any(dab == dcd):
    STATS['tie_cases'] += 1
  if dec.shape != dab.shape or not np.array_equal(dec, dcd - dab):
    return dict(tag=Q4 + 'decision_function/is-dcd-minus-dab', observed='decision_function=%r d(a,b)=%r d(c,d)=%r' % (dec.tolist(), dab.tolist(), dcd.tolist()), input=inp)
  want = np.where(dab < dcd, 1, np.where(dab > dcd, -1, 0))
  if not np.array_equal(pred, want):
    return dict(tag=Q4 + 'predict/is-sign-of-decision', observed='predict=%r d(a,b)=%r d(c,d)=%r' % (pred.tolist(), dab.tolist(), dcd.tolist()), input=inp)
  # the property does not state the quadruplet score; its docstring says "fraction with the first pair more similar":
  # demand only that it lies between the strict and the non-strict fraction (equal when there is no tie)
  lo, hi = float(np.mean(dab < dcd)), float(np.mean(dab <= dcd))
  if not (lo - 1e-12 <= sc <= hi + 1e-12):
    return dict(tag=Q4 + 'score/is-fraction-in-right-order', observed='score=%r outside [%r, %r]' % (sc, lo, hi), input=inp)
  if not np.array_equal(swapped, -dec):
    return dict(tag=Q4 + 'decision_function/swap-negates', observed='decision(c,d,a,b)=%r decision(a,b,c,d)=%r' % (swapped.tolist(), dec.tolist()), input=inp)
  if exact:
    ab, cd = sq_int(L, T[:, 0], T[:, 1]), sq_int(L, T[:, 2], T[:, 3])
    want2 = np.array([(u < v) - (u > v) for u, v in zip(ab, cd)])
    if not np.array_equal(pred, want2):
      return dict(tag=Q4 + 'predict/is-sign-of-decision', observed='exact integer oracle: d2(a,b)=%r d2(c,d)=%r predict=%r' % (ab, cd, pred.tolist()), input=inp)
    ref = np.array([math.sqrt(v) - math.sqrt(u) for u, v in zip(ab, cd)])
    if not np.array_equal(dec, ref):
      return dict(tag=Q4 + 'decision_function/is-dcd-minus-dab', observed='exact integer oracle: d2(a,b)=%r d2(c,d)=%r decision=%r' % (ab, cd, dec.tolist()), input=inp)
  return None


# ----------------------------------------------------------------------------------------------- real fits (history: fit)

FIT_PARAMS = dict(ITML=dict(max_iter=10), MMC=dict(max_iter=5), SDML=dict(prior='identity', balance_param=1e-5),
                  LSML=dict(max_iter=10), SCML=dict(max_iter=100, n_basis=20, output_iter=25))


def fit_data(rng, t, n):
  d = 3
  centers = np.array([[0, 0, 0], [4, 0, 1], [0, 4, -1.0]])
  X = np.vstack([centers[k] + rng.randn(12, d) for k in range(3)])
  lab = np.repeat([0, 1, 2], 12)

  def same(i):
    return rng.choice(np.where(lab == lab[i])[0])

  def diff(i):
    return rng.choice(np.where(lab != lab[i])[0])
  A = rng.randint(0, len(X), size=n)
  if t == 2:
    idx = np.array([[a, same(a)] if k % 2 else [a, diff(a)] for k, a in enumerate(A)])
    y = np.where(lab[idx[:, 0]] == lab[idx[:, 1]], 1, -1)
  elif t == 3:
    idx, y = np.array([[a, same(a), diff(a)] for a in A]), None
  else:
    B = rng.randint(0, len(X), size=n)
    idx, y = np.array([[a, same(a), b, diff(b)] for a, b in zip(A, B)]), None
  return X, idx, y


def check_fitted(ml, cls, t, seed):
  rng = np.random.RandomState(seed)
  X, idx, y = fit_data(rng, t, 24)
  est = getattr(ml, cls)(random_state=seed, **FIT_PARAMS[cls])
  Ttrain = X[idx]
  try:
    est.fit(Ttrain, y) if t == 2 else est.fit(Ttrain)
  except Exception:
    return None                           # a solver failure is not this property's concern
  if not np.all(np.isfinite(est.components_)) or np.iscomplexobj(est.components_):
    return None
  Ttest = np.concatenate([Ttrain, batch(rng, t, 3, 'gauss', 10)])
  L = est.components_
  if t == 3:
    return check_triplets(ml, 'fit', L, False, Ttest, 'formed', seed, est=est)
  if t == 4:
    return check_quadruplets(ml, 'fit', L, False, Ttest, 'formed', seed, est=est)
  D = est.pair_distance(Ttest)
  thr = est.threshold_
  pred = np.asarray(est.predict(Ttest))
  dec = np.asarray(est.decision_function(Ttest))
  inp = _inp(cls, 'fit', L, Ttest, 'formed', dict(history='fit(random_state=%d, %r)' % (seed, FIT_PARAMS[cls]), threshold_=repr(thr)))
  if np.any(D == thr):
    STATS['at_threshold_cases'] += 1
  if not np.array_equal(pred, np.where(D <= thr, 1, -1)):
    return dict(tag=P + 'predict/iff-distance-le-threshold', observed='after fit: predict=%r distances=%r threshold_=%r' % (pred.tolist(), D.tolist(), thr), input=inp)
  if not np.array_equal(dec, -D):
    return dict(tag=P + 'decision_function/is-negated-distance', observed='after fit: decision=%r distances=%r' % (dec.tolist(), D.tolist()), input=inp)
  return None


# ----------------------------------------------------------------------------------------------- cases

def _guard(fn, tag, desc):
  def thunk():
    with warnings.catch_warnings():
      warnings.simplefilter('ignore')
      try:
        return fn()
      except Exception as e:
        import traceback
        return dict(tag=tag + '/no-exception', observed='%s: %s' % (type(e).__name__, e), input=dict(case=desc, traceback=traceback.format_exc()[-800:]))
  return thunk


def cases(tier, seed):
  ml = repo()
  quick = tier == 'quick'
  rng = np.random.RandomState(seed)
  dims = (3,) if quick else (2, 3, 5)
  nb = 1 if quick else 6
  n = 8 if quick else 14
  families = ('int', 'gauss', 'wide')
  for cls in PAIRS:
    for v in NUMBERS:
      yield ('%s.set_threshold(%s %r)' % (cls, type(v).__name__, v), (P + 'set_threshold',),
             _guard(lambda cls=cls, v=v: check_set_threshold(ml, cls, v, True), P + 'set_threshold', 'number'))
    for v in NON_NUMBERS:
      yield ('%s.set_threshold(non-number %s)' % (cls, (repr(v) if not callable(v) and type(v) is not object else type(v).__name__).replace(' ', '')), (P + 'set_threshold',),
             _guard(lambda cls=cls, v=v: check_set_threshold(ml, cls, v, False), P + 'set_threshold', 'non-number'))
  for d in dims:
    for lname, L, exact_L in all_transformations(rng, d):
      for fam in families:
        exact = exact_L and fam == 'int'
        for b in range(nb):
          for rep in ('formed', 'indices', 'formed-F', 'formed-view'):
            if rep in ('formed-F', 'formed-view') and not exact:
              # other memory layouts make BLAS sum in another order: the last bit of a distance may then differ between two calls, so the
              # bit-exact clauses are evaluated for them on the integer family only (all arithmetic exact, any summation order)
              continue
            s = int(rng.randint(2 ** 31))
            T2 = batch(rng, 2, d, fam, n)
            T2b = batch(rng, 2, d, fam, n)
            T3_ = batch(rng, 3, d, fam, n)
            T4_ = batch(rng, 4, d, fam, n)
            for ci, cls in enumerate(PAIRS):
              base = '%s d=%d L=%s data=%s%s rep=%s' % (cls, d, lname, fam, '' if nb == 1 else '#%d' % b, rep)
              for spec in threshold_specs(len(T2), exact):
                yield (base + ' threshold=' + spec[0] + ' via ' + spec[2], (P + 'predict', P + 'set_threshold'),
                       _guard(lambda cls=cls, lname=lname, L=L, exact=exact, T=T2, rep=rep, spec=spec, s=s:
                              check_pairs_threshold(ml, cls, lname, L, exact, T, rep, spec, s), P + 'predict', base))
              for yv in (0, 1):
                yield (base + ' decision_function/score y#%d' % yv, (P + 'decision_function', P + 'score'),
                       _guard(lambda cls=cls, lname=lname, L=L, exact=exact, T=T2, rep=rep, yv=yv, s=s:
                              check_pairs_decision_score(ml, cls, lname, L, exact, T, rep, yv, s + yv), P + 'decision_function', base))
              for strategy, kw in (CALIB if (not quick or ci == (len(lname) + b) % 3) else CALIB[:1]):
                yield (base + ' threshold from calibrate_threshold(%s%s)' % (strategy, ''.join(',%s=%s' % i for i in kw.items())), (P + 'predict',),
                       _guard(lambda cls=cls, lname=lname, L=L, T=T2, Tb=T2b, rep=rep, strategy=strategy, kw=kw, s=s:
                              check_pairs_calibrated(ml, cls, lname, L, T, Tb, rep, strategy, kw, s), P + 'predict', base))
            base = 'SCML d=%d L=%s data=%s%s rep=%s' % (d, lname, fam, '' if nb == 1 else '#%d' % b, rep)
            yield (base, TAGS_TRIP, _guard(lambda lname=lname, L=L, exact=exact, T=T3_, rep=rep, s=s:
                                           check_triplets(ml, lname, L, exact, T, rep, s), T3 + 'decision_function', base))
            base = 'LSML d=%d L=%s data=%s%s rep=%s' % (d, lname, fam, '' if nb == 1 else '#%d' % b, rep)
            yield (base, TAGS_QUAD, _guard(lambda lname=lname, L=L, exact=exact, T=T4_, rep=rep, s=s:
                                           check_quadruplets(ml, lname, L, exact, T, rep, s), Q4 + 'decision_function', base))
  for k in range(2 if quick else 10):
    for cls, t, tags in (('ITML', 2, TAGS_PAIRS), ('MMC', 2, TAGS_PAIRS), ('SDML', 2, TAGS_PAIRS), ('SCML', 3, TAGS_TRIP), ('LSML', 4, TAGS_QUAD)):
      yield ('%s real fit #%d, then train+fresh tuples' % (cls, k), tags,
             _guard(lambda cls=cls, t=t, k=k: check_fitted(ml, cls, t, seed * 1000 + k), tags[0], 'fit'))


def _signature(desc, tag):
  """class of failing input, stable across seeds: estimator + clause + representation (+ how the threshold was placed)"""
  cls = desc.split(' ')[0].split('.')[0]
  rep = 'indices' if 'rep=indices' in desc else 'formed'
  thr = ''
  if 'threshold=' in desc:
    thr = ' threshold=' + desc.split('threshold=')[1].split('@')[0].split(' ')[0]
  elif 'calibrate_threshold' in desc:
    thr = ' threshold from calibrate_threshold'
  elif 'real fit' in desc:
    thr = ' after real fit'
  elif 'set_threshold(' in desc:
    thr = ' ' + desc.split('.', 1)[1].split(' ')[0].rstrip(')') + ')'
  return '%s %s rep=%s%s' % (cls, tag.split(':')[-1], rep, thr)


def run(tier, seed):
  for k in STATS:
    STATS[k] = 0
  n = 0
  vio, samples, distinct, seen_sig = [], [], set(), set()
  for desc, tags, thunk in cases(tier, seed):
    n += 1
    distinct.add(desc)
    if n % 397 == 1 and len(samples) < 8:
      samples.append(desc)
    bad = thunk()
    if bad:
      sig = _signature(desc, bad['tag'])
      if sig in seen_sig:
        continue
      seen_sig.add(sig)
      vio.append(dict(clause='runtime/C04/%s' % bad['tag'], input=bad['input'], observed=bad['observed'], signature=sig, case=desc))
  return dict(cases=n, distinct_nontrivial=len(distinct),
              rule='{ITML, MMC, SDML, SCML, LSML} with directly-set fitted state x transformations {6 integer-valued, identity, random, every low rank, '
                   'rank-deficient, tiny, huge, zero} x data {small-integer grid, gaussian, mixed magnitude 1e-3..1e3} x {formed tuples, index tuples through an '
                   'array preprocessor} x (pairs) thresholds placed on / one ulp above / one ulp below observed distances, min, max, median, 0, <0, 5e-324, inf, '
                   'ints, float32, Fraction, 10**20, installed directly or by set_threshold, or produced by calibrate_threshold (4 strategies) or by a real fit; '
                   'every batch holds engineered ties (identical points, (a,b)/(b,a), (a,b,b), (a,b,a,b), (a,b,b,a), reflections, translations); '
                   'distinct = distinct (estimator, dimension, transformation, data family, representation, threshold placement / clause group); '
                   'this run: %d cases had tied distances inside the batch, %d had a distance exactly equal to threshold_' % (STATS['tie_cases'], STATS['at_threshold_cases']),
              bound='n_features %s; batches of %d random + 9-10 engineered tuples; %s batch(es) per configuration; %d real fits per learner'
                    % ('3' if tier == 'quick' else '2, 3, 5', 8 if tier == 'quick' else 14, '1' if tier == 'quick' else '6', 2 if tier == 'quick' else 10),
              standin_samples=samples, violations=vio)


def replay_clause(cid, fail, seed):
  """first failing quick case that exercises the function named in cid (else any failing case of the property)"""
  target = cid.split('[')[0]
  if target.startswith('runtime/C04/'):
    target = target[len('runtime/C04/'):].rsplit('/', 1)[0]
  only = target if target in set(TAGS_PAIRS + TAGS_TRIP + TAGS_QUAD) else None
  for restrict in ((only, None) if only is not None else (None,)):
    for desc, tags, thunk in cases('quick', seed):
      if restrict is not None and restrict not in tags:
        continue
      bad = thunk()
      if bad and (restrict is None or bad['tag'].startswith(restrict)):
        return dict(failing_input=bad['input'], observed='%s: %s' % (bad['tag'], bad['observed']), case=desc)
  return dict(note='no failing input among the quick stand-in cases')
