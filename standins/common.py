"""shared helpers of the bounded stand-ins: they run the REAL code of /repo's working tree."""
import importlib
import os
import sys
import warnings

REPO = os.environ.get('VERIF_REPO', '/repo')


def repo():
  if sys.path[0] != REPO:
    sys.path.insert(0, REPO)
  for k in [k for k in sys.modules if k == 'metric_learn' or k.startswith('metric_learn.')]:
    f = getattr(sys.modules[k], '__file__', '') or ''
    if not f.startswith(REPO):
      del sys.modules[k]
  return importlib.import_module('metric_learn')


PUBLIC = ['Covariance', 'LFDA', 'LMNN', 'NCA', 'MLKR', 'RCA', 'RCA_Supervised', 'ITML', 'ITML_Supervised', 'MMC',
          'MMC_Supervised', 'SDML', 'SDML_Supervised', 'LSML', 'LSML_Supervised', 'SCML', 'SCML_Supervised']


class Sentinel:
  """an arbitrary opaque parameter value"""
  def __init__(self, name):
    self.name = name

  def __repr__(self):
    return 'Sentinel(%s)' % self.name


def quiet():
  warnings.simplefilter('ignore')


import numpy as np

KIND = {'Covariance': ('points', None), 'LFDA': ('points', None), 'LMNN': ('points', None), 'NCA': ('points', None),
        'MLKR': ('points', None), 'RCA': ('points', None), 'RCA_Supervised': ('points', None),
        'ITML': ('pairs', 2), 'ITML_Supervised': ('points', None), 'MMC': ('pairs', 2), 'MMC_Supervised': ('points', None),
        'SDML': ('pairs', 2), 'SDML_Supervised': ('points', None), 'LSML': ('quadruplets', 4), 'LSML_Supervised': ('points', None),
        'SCML': ('triplets', 3), 'SCML_Supervised': ('points', None)}


def make_fitted(ml, cls_name, L, prep_X=None, threshold=None):
  """an estimator whose fitted state is set directly (what fit would leave behind), so that the observers can be
  exercised for ANY transformation L, including rank-deficient ones, without running a solver"""
  from metric_learn._util import ArrayIndexer
  est = getattr(ml, cls_name)()
  est.components_ = np.array(L, dtype=float)
  est.n_features_in_ = est.components_.shape[1]
  if prep_X is not None:
    est.preprocessor = prep_X
    est.preprocessor_ = ArrayIndexer(prep_X)
  else:
    est.preprocessor_ = None
  if KIND[cls_name][0] == 'pairs':
    est.threshold_ = 1.0 if threshold is None else float(threshold)
  return est


def transformations(rng, d):
  """a spread of learned transformations: full rank, low rank (k < d), rank deficient, tiny/huge scale, identity"""
  yield 'identity', np.eye(d)
  yield 'random', rng.randn(d, d)
  for k in range(1, d):
    yield 'lowrank-%d' % k, rng.randn(k, d)
  A = rng.randn(d, d)
  A[-1] = A[0]
  yield 'rank-deficient', A
  yield 'tiny', rng.randn(d, d) * 1e-8
  yield 'huge', rng.randn(d, d) * 1e6
  yield 'zero', np.zeros((d, d))


def first_failure(cases, only=None):
  for desc, tags, thunk in cases:
    if only is not None and not (set(tags) & set(only)):
      continue
    bad = thunk()
    if bad is not None:
      return desc, bad
  return None
