"""shared helpers of the bounded stand-ins: they run the REAL code of /repo's working tree."""
import importlib
import os
import sys
import warnings

REPO = os.environ.get('VERIF_REPO', '/repo')


def repo():
  if sys.path[0] != REPO:
    sys.path.insert(0, REPO)
  for k in [k for k in sys.modules if k == 'metric_learn' or k.startswith('metric_learn.')]:
    f = getattr(sys.modules[k], '__file__', '') or ''
    if not f.startswith(REPO):
      del sys.modules[k]
  return importlib.import_module('metric_learn')


PUBLIC = ['Covariance', 'LFDA', 'LMNN', 'NCA', 'MLKR', 'RCA', 'RCA_Supervised', 'ITML', 'ITML_Supervised', 'MMC',
          'MMC_Supervised', 'SDML', 'SDML_Supervised', 'LSML', 'LSML_Supervised', 'SCML', 'SCML_Supervised']


class Sentinel:
  """an arbitrary opaque parameter value"""
  def __init__(self, name):
    self.name = name

  def __repr__(self):
    return 'Sentinel(%s)' % self.name


def quiet():
  warnings.simplefilter('ignore')
