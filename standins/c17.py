"""C17 bounded stand-in / replay: short call histories run against the REAL estimators.  bounded -- not proved.

Alphabet (the property's): fit(data_i), set_params, set_threshold, calibrate_threshold, transform, pair_distance,
predict, score, get_metric, get_mahalanobis_matrix, clone, pickle round-trip; length <= 6; four datasets of differing
sizes AND dimensionalities; integer random_state for every estimator that has one.

Oracle clauses (one name each, so that a finding in one is not confused with another):
  deterministic-refit                            two fresh clones fitted on the same data give the same model
                                                 (components_, threshold_, preprocessor_, n_features_in_), exactly
  model-independent-of-history                   the object of the history, refitted, has the model of a fresh clone
  n_features_in_                                 ... and the same n_features_in_
  bookkeeping-attributes-independent-of-history  ... and the same other fitted attributes (n_iter_, converged_, bounds_,
                                                 w_, A_, labels_, ...), none left over from the earlier fit
  arguments-unmodified                           bytes+dtype+shape of every argument array and of every hyper-parameter
                                                 (get_params, same objects, same bytes) before/after fit and every query
  query-methods-preserve-fitted-state            vars(est) unchanged by a query (threshold_ excepted for set_threshold /
                                                 calibrate_threshold); the same query repeated gives the same answer
  handed-out-objects-independent                 f = get_metric() and M = get_mahalanobis_matrix() handed out earlier are
                                                 unchanged by every later operation; mutating M in place changes nothing
  handed-out-objects-share-no-memory-with-estimator   the mechanism the property's anchor names ("get_metric closes over
                                                 a copy; get_mahalanobis_matrix builds a new array"), observed with
                                                 np.shares_memory -- no fit of the current tree writes into components_ in
                                                 place, so this is the only observation sensitive to a dropped copy

The oracle does NOT demand: a particular value of n_features_in_ (only equality between histories -- the tuple size
reported by tuple learners is C03's business), anything about queries after set_params(preprocessor=...) without a refit,
or anything from configurations outside the quantifier (RCA n_components<d and SCML basis=<array> -- findings F6/F7 --
are not generated; labels are fully known, F3).

A step that raises ends its history; such histories are listed under the extra key `aborted` of run()'s result (they are
not C17 violations).  On the pinned tree the only ones are `clone` after a pickle round trip of the 8 estimators that
have a deprecated-alias parameter -- the C18 stand-in reports that as `clone-after-pickle`.  Reference estimators
("a fresh clone") are built from deep copies of get_params(), i.e. what sklearn.base.clone does minus its identity
self-check, so that this C18 matter does not hide C17 behaviour after a pickle step.

Every history is described by JSON-able data: `execute(name, constructor, ops, seed)` re-runs it; run() reports, per
distinct (clause, signature), the shortest history found, further shrunk by greedy deletion of steps.
"""
import contextlib
import copy
import multiprocessing
import pickle
import re
import warnings

import numpy as np

from .common import repo, PUBLIC, KIND

DIMS = [(24, 3), (30, 5), (18, 2), (36, 4)]   # (n_samples, n_features) of the four datasets
N_TUPLES = 20
N_CONSTRAINTS = 12
MAX_LEN = 6

CLAUSES = ('deterministic-refit', 'model-independent-of-history', 'n_features_in_',
           'bookkeeping-attributes-independent-of-history', 'arguments-unmodified',
           'query-methods-preserve-fitted-state', 'handed-out-objects-independent',
           'handed-out-objects-share-no-memory-with-estimator')
MODEL = ('components_', 'threshold_', 'preprocessor_')

BASE = {   # small, fast, valid settings; integer random_state wherever there is one
  'Covariance': {}, 'LFDA': {}, 'RCA': {},
  'LMNN': dict(n_neighbors=2, max_iter=8, random_state=0),
  'NCA': dict(max_iter=8, random_state=0),
  'MLKR': dict(max_iter=8, random_state=0),
  'RCA_Supervised': dict(n_chunks=5, chunk_size=2, random_state=0),
  'ITML': dict(max_iter=15, random_state=0),
  'ITML_Supervised': dict(max_iter=15, n_constraints=N_CONSTRAINTS, random_state=0),
  'MMC': dict(max_iter=5, max_proj=500, random_state=0),
  'MMC_Supervised': dict(max_iter=5, max_proj=500, n_constraints=N_CONSTRAINTS, random_state=0),
  'SDML': dict(balance_param=1e-5, random_state=0),
  'SDML_Supervised': dict(balance_param=1e-5, n_constraints=N_CONSTRAINTS, random_state=0),
  'LSML': dict(max_iter=8, random_state=0),
  'LSML_Supervised': dict(max_iter=8, n_constraints=N_CONSTRAINTS, random_state=0),
  'SCML': dict(n_basis=20, max_iter=200, output_iter=100, random_state=0),
  'SCML_Supervised': dict(n_basis=12, max_iter=200, output_iter=100, k_genuine=2, k_impostor=3, random_state=0),
}

_RS = ('random_state', [7, 0, 42])
FREE = {   # dimension-independent parameters a set_params step may change (first entry first in the sweep histories)
  'Covariance': [], 'RCA': [],
  'LFDA': [('embedding_type', ['orthonormalized', 'plain', 'weighted']), ('k', [2, 3, None])],
  'LMNN': [('max_iter', [6, 10]), _RS, ('regularization', [0.3, 0.5]), ('learn_rate', [1e-6, 1e-7])],
  'NCA': [('max_iter', [5, 10]), _RS, ('tol', [1e-4, None])],
  'MLKR': [('max_iter', [5, 10]), _RS, ('tol', [1e-4, None])],
  'RCA_Supervised': [('n_chunks', [4, 5]), _RS],
  'ITML': [('gamma', [2., 1.]), _RS, ('max_iter', [10, 20]), ('tol', [1e-2, 1e-3])],
  'ITML_Supervised': [('gamma', [2., 1.]), _RS, ('n_constraints', [10, 12]), ('max_iter', [10, 20])],
  'MMC': [('diagonal', [True, False]), _RS, ('diagonal_c', [2.0, 1.0]), ('max_iter', [4, 6])],
  'MMC_Supervised': [('diagonal', [True, False]), _RS, ('n_constraints', [10, 12]), ('max_iter', [4, 6])],
  'SDML': [('sparsity_param', [0.02, 0.01]), _RS, ('balance_param', [2e-5, 1e-5])],
  'SDML_Supervised': [('sparsity_param', [0.02, 0.01]), _RS, ('n_constraints', [10, 12])],
  'LSML': [('max_iter', [5, 10]), _RS, ('tol', [1e-2, 1e-3])],
  'LSML_Supervised': [('weights', [{'ref': 'weights', 'm': N_CONSTRAINTS}, None]), _RS, ('max_iter', [5, 10])],
  'SCML': [('batch_size', [5, 10]), _RS, ('n_basis', [30, 20]), ('gamma', [1e-2, 5e-3])],
  'SCML_Supervised': [('basis', ['triplet_diffs', 'lda']), _RS, ('batch_size', [5, 10]), ('k_genuine', [3, 2])],
}


def family(name):
  return name.split('_')[0]


# ---------------------------------------------------------------------------------------------------------- data

class CallablePre:
  """a picklable callable preprocessor (indices -> points)"""
  def __init__(self, X):
    self.X = X

  def __call__(self, indices):
    return self.X[np.asarray(indices)]


class Dataset:
  pass


def datasets(seed):
  """four labelled datasets of differing sizes and dimensionalities, with tuples (as indices), weights and queries"""
  out = []
  for k, (n, d) in enumerate(DIMS):
    rng = np.random.RandomState([int(seed) % (2 ** 31), 17, k])
    D = Dataset()
    D.k, D.n, D.d = k, n, d
    centers = rng.randn(3, d) * 4
    D.y = np.arange(n) % 3
    D.X = centers[D.y] + rng.randn(n, d)
    D.yr = D.X.dot(rng.randn(d)) + 0.1 * rng.randn(n)
    D.chunks = np.where(np.arange(n) < 2 * n // 3, D.y, -1)
    P, yp, T, Q = [], [], [], []
    while len(P) < N_TUPLES:
      i, j = (int(v) for v in rng.randint(n, size=2))
      want = 1 if len(P) % 2 == 0 else -1
      if i == j or (i, j) in P or (1 if D.y[i] == D.y[j] else -1) != want:
        continue
      P.append((i, j))
      yp.append(want)
    while len(T) < N_TUPLES:
      a, b, c = (int(v) for v in rng.randint(n, size=3))
      if a != b and D.y[a] == D.y[b] and D.y[a] != D.y[c] and (a, b, c) not in T:
        T.append((a, b, c))
    while len(Q) < N_TUPLES:
      a, b, c, e = (int(v) for v in rng.randint(n, size=4))
      if a != b and D.y[a] == D.y[b] and D.y[c] != D.y[e] and (a, b, c, e) not in Q:
        Q.append((a, b, c, e))
    D.P, D.yp, D.T, D.Q = np.array(P), np.array(yp), np.array(T), np.array(Q)
    D.w = rng.rand(N_TUPLES) + 0.5
    D.wsup = rng.rand(N_CONSTRAINTS) + 0.5
    A = rng.randn(d, d)
    D.spd = A.dot(A.T) + d * np.eye(d)
    D.L = rng.randn(d, d)
    D.Xq = centers[np.arange(5) % 3] + rng.randn(5, d)
    D.iq = np.array([0, 3, 7, 11, 2])
    out.append(D)
  return out


def resolve(v, DS):
  """a parameter/argument value from its JSON-able description; arrays are fresh copies"""
  if isinstance(v, dict) and 'ref' in v:
    r = v['ref']
    if r == 'X':
      return DS[v['ds']].X.copy()
    if r == 'callable_pre':
      return CallablePre(DS[v['ds']].X.copy())
    if r == 'spd':
      return DS[v['ds']].spd.copy()
    if r == 'L':
      return DS[v['ds']].L[:v['rows']].copy()
    if r == 'weights':
      return (DS[0].w if v['m'] == N_TUPLES else DS[0].wsup).copy()
    if r == 'bounds':
      return np.array(v['v'], dtype=float)
    raise ValueError(r)
  if isinstance(v, dict):
    return {k: resolve(x, DS) for k, x in v.items()}
  return v


def tuples_of(name, D):
  return {'pairs': D.P, 'triplets': D.T, 'quadruplets': D.Q}[KIND[name][0]]


def fit_arguments(name, D, form, extra, DS):
  """[(argument name, fresh value)], {keyword: fresh value}"""
  kind = KIND[name][0]
  if kind == 'points':
    X = D.X.copy() if form == 'formed' else np.arange(D.n)
    if name == 'Covariance':
      args = [('X', X)]
    elif name == 'MLKR':
      args = [('X', X), ('y', D.yr.copy())]
    elif name == 'RCA':
      args = [('X', X), ('chunks', D.chunks.copy())]
    else:
      args = [('X', X), ('y', D.y.copy())]
  else:
    idx = tuples_of(name, D)
    t = D.X[idx] if form == 'formed' else idx.copy()
    args = [(kind, t)] + ([('y', D.yp.copy())] if kind == 'pairs' else [])
  return args, {k: resolve(v, DS) for k, v in (extra or {}).items()}


def query_tuples(name, D, form, n=6):
  kind = KIND[name][0]
  idx = (D.P if kind == 'points' else tuples_of(name, D))[:n]
  return D.X[idx] if form == 'formed' else idx.copy()


# ------------------------------------------------------------------------------------------------- fingerprints

def fp(v, ids=True):
  """content fingerprint: arrays by bytes + dtype + shape, containers recursively, opaque objects by identity"""
  if isinstance(v, np.ndarray):
    if v.dtype == object:
      return ('ndobj', v.shape) + tuple(fp(x, ids) for x in v.ravel().tolist())
    return ('nd', v.dtype.str, v.shape, v.tobytes())
  if isinstance(v, np.generic):
    return ('np', v.dtype.str, v.tobytes())
  if v is None or isinstance(v, (bool, int, float, complex, str, bytes)):
    return ('py', type(v).__name__, repr(v))
  if isinstance(v, (list, tuple)):
    return (type(v).__name__,) + tuple(fp(x, ids) for x in v)
  if isinstance(v, dict):
    return ('dict',) + tuple((repr(k), fp(x, ids)) for k, x in sorted(v.items(), key=lambda kv: repr(kv[0])))
  if isinstance(v, CallablePre) or (type(v).__name__ == 'ArrayIndexer' and hasattr(v, 'X')):
    return (type(v).__name__, fp(v.X, ids))
  return ('obj', type(v).__name__, id(v) if ids else None)


def state(est):
  return {k: fp(v) for k, v in vars(est).items()}


def params_fp(est):
  return {k: (id(v), fp(v)) for k, v in est.get_params(deep=False).items()}


def changed(a, b):
  return sorted(k for k in set(a) | set(b) if a.get(k, '<absent>') != b.get(k, '<absent>'))


def same(a, b):
  """value equality between two runs: arrays element-wise (same dtype and shape, NaN = NaN), scalars by =="""
  if isinstance(a, np.ndarray) or isinstance(b, np.ndarray):
    if not (isinstance(a, np.ndarray) and isinstance(b, np.ndarray)) or a.shape != b.shape or a.dtype != b.dtype:
      return False
    if a.dtype.kind in 'fc':
      return bool(np.array_equal(a, b, equal_nan=True))
    return bool(np.array_equal(a, b))
  if hasattr(a, 'X') and hasattr(b, 'X') and type(a) is type(b):
    return same(a.X, b.X)
  if isinstance(a, (float, np.floating)) and isinstance(b, (float, np.floating)):
    return bool(a == b or (a != a and b != b))
  if type(a) is not type(b):
    return False
  try:
    return bool(a == b)
  except Exception:
    return False


def show(v):
  if isinstance(v, np.ndarray):
    return 'array(shape=%s, dtype=%s, %s)' % (v.shape, v.dtype, np.array2string(v.ravel()[:4], precision=17))
  if hasattr(v, 'X'):
    return '%s(%s)' % (type(v).__name__, show(v.X))
  return repr(v)


def fitted_attrs(est):
  return sorted(k for k in vars(est) if k.endswith('_') and not k.startswith('_'))


def diff_attrs(est, ref, names):
  """[(attribute, text)] for the attributes in `names` that differ in presence or value"""
  out = []
  for a in names:
    he, hr = a in vars(est), a in vars(ref)
    if he != hr:
      out.append((a, '%s is %s on the object of the history but %s on the fresh clone' %
                  (a, 'present (= %s)' % show(getattr(est, a)) if he else 'absent',
                   'present (= %s)' % show(getattr(ref, a)) if hr else 'absent')))
    elif he and not same(getattr(est, a), getattr(ref, a)):
      x, y = getattr(est, a), getattr(ref, a)
      extra = ''
      if isinstance(x, np.ndarray) and isinstance(y, np.ndarray) and x.shape == y.shape and x.dtype.kind == 'f':
        extra = ' (max abs difference %.3g)' % float(np.nanmax(np.abs(x - y))) if x.size else ''
      out.append((a, '%s = %s on the object of the history, %s on the fresh clone%s' % (a, show(x), show(y), extra)))
  return out


def fresh_like(est):
  """an unfitted estimator with deep copies of est's current parameters: what sklearn.base.clone gives, minus clone's
  `is`-identity self-check (which fails after a pickle round trip for the deprecated-alias parameters that the
  constructors overwrite with their own 'deprecated' literal -- reported by the C18 stand-in, not here)"""
  return type(est)(**copy.deepcopy(est.get_params(deep=False)))


def arrays_of(est):
  out = []
  for k, v in vars(est).items():
    if isinstance(v, np.ndarray):
      out.append((k, v))
    elif hasattr(v, 'X') and isinstance(v.X, np.ndarray):
      out.append((k + '.X', v.X))
  return out


# ------------------------------------------------------------------------------------------------- generation

class Chooser:
  """sweep mode (counters given): cycle through each option list; random mode: draw from rng"""
  def __init__(self, rng, counters=None):
    self.rng, self.counters = rng, counters

  def pick(self, key, options):
    if self.counters is not None:
      i = self.counters.get(key, 0)
      self.counters[key] = i + 1
      return options[i % len(options)]
    return options[self.rng.randint(len(options))]


def dim_params(ch, name, k):
  """parameters that must match the dimensionality of the next dataset (always set together with the fit)"""
  d = DIMS[k][1]
  fam = family(name)
  pre = ch.pick('preprocessor', [None, 'array', None, 'callable'])
  p = {'preprocessor': None if pre is None else {'ref': 'X' if pre == 'array' else 'callable_pre', 'ds': k}}
  if name in ('LMNN', 'NCA', 'MLKR'):
    init = ch.pick('init', ['auto', 'pca', 'identity', 'random', 'array'] + ([] if name == 'MLKR' else ['lda']))
    nc = ch.pick('n_components', [None, max(1, d - 1)])
    if init == 'lda' and d > 2:
      nc = 2     # LDA yields at most n_classes - 1 = 2 directions
    if init == 'array':
      init = {'ref': 'L', 'ds': k, 'rows': nc or d}
    p.update(init=init, n_components=nc)
  elif name == 'LFDA':
    p['n_components'] = ch.pick('n_components', [None, max(1, d - 1)])
  elif fam in ('ITML', 'SDML', 'LSML', 'MMC'):
    v = ch.pick('prior', ['identity', 'covariance', 'random', 'array'])
    p['init' if fam == 'MMC' else 'prior'] = {'ref': 'spd', 'ds': k} if v == 'array' else v
  form = 'formed' if pre is None else ch.pick('form', ['indexed', 'formed'])
  return p, form


def fit_extra(ch, name):
  fam = family(name)
  e = {}
  if fam == 'ITML':
    b = ch.pick('bounds', [None, [0., 5.], [0.5, 6.]])
    if b is not None:
      e['bounds'] = {'ref': 'bounds', 'v': b}
  if name == 'LSML':
    if ch.pick('weights', [None, 'array']):
      e['weights'] = {'ref': 'weights', 'm': N_TUPLES}
  if name in ('ITML', 'MMC', 'SDML'):
    c = ch.pick('calibration_params', [None, {'strategy': 'max_tpr', 'min_rate': 0.5}, {'strategy': 'f_beta', 'beta': 1.0}])
    if c is not None:
      e['calibration_params'] = c
  return e


def query_op(ch, name, kind_of_query, k, pre):
  form = 'formed' if not pre else ch.pick('qform', ['formed', 'indexed'])
  op = {'op': kind_of_query, 'ds': k}
  if kind_of_query in ('transform', 'pair_distance', 'predict', 'score', 'calibrate_threshold'):
    op['form'] = form
  if kind_of_query == 'set_threshold':
    op['value'] = ch.pick('threshold', [0.5, 2.0, 7])
  if kind_of_query == 'calibrate_threshold':
    op['kw'] = ch.pick('calibrate', [{}, {'strategy': 'max_tnr', 'min_rate': 0.4}, {'strategy': 'f_beta', 'beta': 0.5}])
  return op


def build_history(ch, name, template):
  """template items: ('fit', k) | ('refit',) | 'free' | 'clone' | 'pickle' | a query name.
  -> (constructor params, ops); a ('fit', k) after the first costs two steps (set_params + fit)"""
  ctor, ops = None, []
  cur, pre = None, False
  for item in template:
    if isinstance(item, tuple) and item[0] == 'fit':
      k = item[1]
      p, form = dim_params(ch, name, k)
      if ctor is None:
        ctor = dict(BASE[name], **p)
      else:
        ops.append({'op': 'set_params', 'params': p})
      ops.append({'op': 'fit', 'ds': k, 'form': form, 'extra': fit_extra(ch, name)})
      cur, pre = k, p['preprocessor'] is not None
    elif isinstance(item, tuple) and item[0] == 'refit':
      form = 'formed' if not pre else ch.pick('form', ['indexed', 'formed'])
      ops.append({'op': 'fit', 'ds': cur, 'form': form, 'extra': fit_extra(ch, name)})
    elif item == 'free':
      if FREE[name]:
        pname, values = ch.pick('free', FREE[name])
        ops.append({'op': 'set_params', 'params': {pname: ch.pick('free.' + pname, values)}})
    elif item in ('clone', 'pickle'):
      ops.append({'op': item})
    else:
      ops.append(query_op(ch, name, item, cur, pre))
  assert len(ops) <= MAX_LEN, (name, template)
  return ctor, ops


def sweep_templates(name):
  kind = KIND[name][0]
  tup = kind != 'points'
  q1, q2 = ('predict', 'score') if tup else ('transform', 'pair_distance')
  t = [[('fit', 0), 'get_metric', 'free', ('fit', 1), 'pair_distance'],
       [('fit', 1), 'get_mahalanobis_matrix', ('fit', 2), q1, 'transform'],
       [('fit', 2), 'clone', ('refit',), 'pickle', q2, 'get_metric']]
  if kind == 'pairs':
    t.append([('fit', 3), 'set_threshold', 'predict', 'calibrate_threshold', 'score', ('refit',)])
  else:
    t.append([('fit', 3), 'transform', 'free', ('refit',), 'get_metric', 'pair_distance'])
  return t


def random_template(rng, name):
  kind = KIND[name][0]
  queries = ['transform', 'pair_distance', 'get_metric', 'get_mahalanobis_matrix']
  if kind != 'points':
    queries += ['predict', 'score']
  if kind == 'pairs':
    queries += ['set_threshold', 'calibrate_threshold']
  length = int(rng.randint(4, MAX_LEN + 1))
  cur = int(rng.randint(len(DIMS)))
  t, cost, fitted = [('fit', cur)], 1, True
  while cost < length:
    left = length - cost
    if not fitted:
      if left >= 2 and rng.rand() < 0.5:
        cur = int(rng.choice([k for k in range(len(DIMS)) if k != cur]))
        t.append(('fit', cur))
        cost += 2
      else:
        t.append(('refit',))
        cost += 1
      fitted = True
      continue
    r = rng.rand()
    if r < 0.30 and left >= 2:
      cur = int(rng.choice([k for k in range(len(DIMS)) if k != cur]))
      t.append(('fit', cur))
      cost += 2
    elif r < 0.40:
      t.append(('refit',))
      cost += 1
    elif r < 0.50 and FREE[name]:
      t.append('free')
      cost += 1
    elif r < 0.57 and left >= 2:
      t.append('clone')
      cost += 1
      fitted = False
    elif r < 0.67:
      t.append('pickle')
      cost += 1
    else:
      t.append(queries[int(rng.randint(len(queries)))])
      cost += 1
  return t


def histories(tier, seed):
  """[(description, estimator, constructor params, ops)] -- 4 systematic + 2 (quick) / 8 (thorough) random per estimator"""
  n_random = 2 if tier == 'quick' else 8
  out = []
  for e, name in enumerate(PUBLIC):
    counters = {}
    for i, t in enumerate(sweep_templates(name)):
      ctor, ops = build_history(Chooser(None, counters), name, t)
      out.append(('%s sweep#%d: %s' % (name, i, '; '.join(describe(o) for o in ops)), name, ctor, ops))
    for i in range(n_random):
      rng = np.random.RandomState([int(seed) % (2 ** 31), e, i])
      ctor, ops = build_history(Chooser(rng), name, random_template(rng, name))
      out.append(('%s random#%d: %s' % (name, i, '; '.join(describe(o) for o in ops)), name, ctor, ops))
  return out


def describe_value(v):
  if isinstance(v, dict) and 'ref' in v:
    r = v['ref']
    if r == 'bounds':
      return 'np.array(%r)' % (v['v'],)
    if r == 'weights':
      return '<float weights array, len %d>' % v['m']
    if r == 'L':
      return '<array (%d, d) of D%d>' % (v['rows'], v['ds'])
    return {'X': '<X of D%d>', 'callable_pre': '<callable over X of D%d>', 'spd': '<SPD array (d, d) of D%d>'}[r] % v['ds']
  return repr(v)


def describe(op):
  o = op['op']
  if o == 'set_params':
    return 'set_params(%s)' % ', '.join('%s=%s' % (k, describe_value(v)) for k, v in op['params'].items())
  if o == 'fit':
    ex = ''.join(', %s=%s' % (k, describe_value(v)) for k, v in op['extra'].items())
    return 'fit(D%d[n=%d,d=%d] %s%s)' % ((op['ds'],) + DIMS[op['ds']] + (op['form'], ex))
  if o in ('clone', 'pickle'):
    return o
  if o == 'set_threshold':
    return 'set_threshold(%r)' % (op['value'],)
  if o == 'calibrate_threshold':
    return 'calibrate_threshold(D%d %s%s)' % (op['ds'], op['form'], ''.join(', %s=%r' % kv for kv in op['kw'].items()))
  if 'form' in op:
    return '%s(D%d %s)' % (o, op['ds'], op['form'])
  return '%s()' % o


# -------------------------------------------------------------------------------------------------- execution

class Runner:
  def __init__(self, ml, name, DS):
    self.ml, self.name, self.DS = ml, name, DS
    self.kind = KIND[name][0]
    self.vio = []
    self.handed = []
    self.est = None
    self.last_d = None
    self.dims_seen = []      # dimensionalities this object (and what it was cloned/unpickled from) has been fitted on

  def report(self, clause, signature, observed, step):
    self.vio.append(dict(clause=clause, signature=signature, observed=observed, step=step))

  # -- (c) arguments and hyper-parameters
  def guarded(self, step, what, fn, named_args, kwargs):
    """call fn(*args, **kwargs); report every argument or hyper-parameter that changed"""
    est = self.est
    before = [(n, fp(v), v) for n, v in named_args] + [(n, fp(v), v) for n, v in sorted(kwargs.items())]
    p0 = params_fp(est)
    result = fn(*[v for _, v in named_args], **kwargs)
    for n, f0, v in before:
      if fp(v) != f0:
        self.report('arguments-unmodified', self.arg_signature(what, n, f0), '%s.%s changed its argument %s: %s -> %s'
                    % (self.name, what, n, describe_fp(f0), show(v)), step)
    p1 = params_fp(est)
    for p in changed(p0, p1):
      how = 'rebound to another object' if p0[p][1] == p1[p][1] else 'contents changed: %s -> %s' % (
          describe_fp(p0[p][1]), show(est.get_params(deep=False)[p]))
      self.report('arguments-unmodified', self.param_signature(what, p), '%s.%s changed the hyper-parameter %s (%s)'
                  % (self.name, what, p, how), step)
    return result

  def arg_signature(self, what, argname, f0):
    fam = family(self.name)
    sup = '' if fam == self.name else ' (%s)' % self.name
    if argname == 'bounds':
      zero = f0[0] == 'nd' and 0.0 in np.frombuffer(f0[3], dtype=f0[1])
      return '%s bounds %s%s' % (fam, 'containing 0' if zero else 'array', sup)
    if argname == 'weights':
      return '%s weights array%s' % (fam, sup)
    return '%s.%s argument %s' % (self.name, what, argname)

  def param_signature(self, what, p):
    if family(self.name) == 'LSML' and p == 'weights':
      return 'LSML weights array (%s weights parameter)' % self.name
    return '%s.%s hyper-parameter %s' % (self.name, what, p)

  # -- (e) objects handed out earlier
  def check_handed(self, step, after):
    for h in self.handed:
      if h.get('dead'):
        continue
      if h['kind'] == 'metric':
        try:
          now = (h['f'](h['u'], h['v']), h['f'](h['u'], h['v'], squared=True))
        except Exception as e:
          now = ('%s: %s' % (type(e).__name__, str(e)[:80]), None)
        if not (same(now[0], h['val'][0]) and same(now[1], h['val'][1])):
          h['dead'] = True
          self.report('handed-out-objects-independent', '%s get_metric function after a later %s' % (self.name, after),
                      'f = get_metric() taken at step %d: f(u, v) was %r, is %r after step %d (%s)'
                      % (h['step'], h['val'][0], now[0], step, after), step)
      elif fp(h['M']) != h['fp']:
        h['dead'] = True
        self.report('handed-out-objects-independent', '%s matrix from get_mahalanobis_matrix after a later %s' % (self.name, after),
                    'M = get_mahalanobis_matrix() taken at step %d changed after step %d (%s)' % (h['step'], step, after), step)

  def check_alias(self, step, what, arrays):
    for label, a in arrays:
      for k, v in arrays_of(self.est):
        if np.shares_memory(a, v):
          self.report('handed-out-objects-share-no-memory-with-estimator', '%s %s aliases estimator state' % (self.name, what),
                      '%s shares memory with est.%s' % (label, k), step)
          return

  # -- one step
  def step(self, i, op):
    o = op['op']
    est = self.est
    if o == 'set_params':
      est.set_params(**resolve(op['params'], self.DS))
    elif o == 'clone':
      from sklearn.base import clone
      self.est = clone(est)
      self.dims_seen = []
    elif o == 'pickle':
      self.est = pickle.loads(pickle.dumps(est))
    elif o == 'fit':
      self.do_fit(i, op)
    elif o == 'get_metric':
      self.do_get_metric(i, op)
    elif o == 'get_mahalanobis_matrix':
      self.do_get_matrix(i, op)
    else:
      self.do_query(i, op)
    self.check_handed(i, o)

  def fresh_fit(self, proto, op):
    r = fresh_like(proto)
    args, kw = fit_arguments(self.name, self.DS[op['ds']], op['form'], op['extra'], self.DS)
    r.fit(*[v for _, v in args], **kw)
    return r

  def do_fit(self, i, op):
    est, name = self.est, self.name
    D = self.DS[op['ds']]
    had_state = bool(fitted_attrs(est))
    proto = fresh_like(est)      # the parameters as they are before this fit
    args, kw = fit_arguments(name, D, op['form'], op['extra'], self.DS)
    self.guarded(i, 'fit', est.fit, args, kw)
    refs = [self.fresh_fit(proto, op), self.fresh_fit(proto, op)]
    det = diff_attrs(refs[0], refs[1], MODEL + ('n_features_in_',))
    md = diff_attrs(est, refs[0], MODEL)
    if md and not det:
      # a difference between the object of the history and ONE fresh clone: nondeterminism or history? ask two more
      for _ in range(2):
        det = det or diff_attrs(refs[0], self.fresh_fit(proto, op), MODEL)
    nc = est.get_params(deep=False).get('n_components')
    if det:
      sig = 'LFDA n_components<d (eigsh)' if name == 'LFDA' and nc is not None and nc < D.d else '%s repeated fit' % name
      self.report('deterministic-refit', sig, 'two fresh clones fitted on the same data differ: %s'
                  % '; '.join(t.replace('the object of the history', 'one fresh clone').replace('the fresh clone', 'another')
                              for _, t in det), i)
    else:
      if md:
        if had_state:
          self.report('model-independent-of-history', '%s %s after refit' % (name, ','.join(a for a, _ in md)),
                      '; '.join(t for _, t in md), i)
        else:
          self.report('deterministic-refit', '%s repeated fit' % name, 'never-fitted object vs fresh clone: %s'
                      % '; '.join(t for _, t in md), i)
      nf = diff_attrs(est, refs[0], ('n_features_in_',))
      if nf and had_state:
        other = any(d != D.d for d in self.dims_seen)
        self.report('n_features_in_', '%s refitted on data of another dimensionality' % name if other else
                    '%s n_features_in_ after refit' % name,
                    '%s (earlier fits of this object: %s features, this fit: %d features)' % (nf[0][1], self.dims_seen, D.d), i)
      if had_state:
        names = [a for a in sorted(set(fitted_attrs(est)) | set(fitted_attrs(refs[0]))) if a not in MODEL + ('n_features_in_',)]
        bk = diff_attrs(est, refs[0], names)
        if bk:
          attrs = [a for a, _ in bk]
          fam = family(name)
          if fam == 'MMC' and est.get_params(deep=False).get('diagonal') and set(attrs) <= {'n_iter_', 'converged_'}:
            sig = 'MMC diagonal after full fit' + ('' if name == 'MMC' else ' (%s)' % name)
          else:
            sig = '%s stale %s' % (name, ','.join(attrs))
          self.report('bookkeeping-attributes-independent-of-history', sig, '; '.join(t for _, t in bk), i)
    self.last_d = D.d
    self.dims_seen.append(D.d)

  def do_get_metric(self, i, op):
    est = self.est
    D = self.DS[op['ds']]
    s0 = state(est)
    f = self.guarded(i, 'get_metric', est.get_metric, [], {})
    u, v = D.X[0].copy(), D.X[1].copy()
    fu, fv = fp(u), fp(v)
    val = (f(u, v), f(u, v, squared=True))
    if fp(u) != fu or fp(v) != fv:
      self.report('arguments-unmodified', '%s.get_metric function argument' % self.name, 'f(u, v) changed u or v', i)
    self.frame(i, 'get_metric', s0, ())
    cells = [c.cell_contents for c in (getattr(f, '__closure__', None) or ())]
    self.check_alias(i, 'get_metric function', [('an array in the closure of get_metric()', c) for c in cells if isinstance(c, np.ndarray)])
    self.handed.append(dict(kind='metric', f=f, u=u, v=v, val=val, step=i))

  def do_get_matrix(self, i, op):
    est = self.est
    D = self.DS[op['ds']]
    s0 = state(est)
    M = self.guarded(i, 'get_mahalanobis_matrix', est.get_mahalanobis_matrix, [], {})
    keep = est.get_mahalanobis_matrix()
    self.frame(i, 'get_mahalanobis_matrix', s0, ())
    self.check_alias(i, 'get_mahalanobis_matrix result', [('the returned matrix', M)])
    M0 = M.copy()
    pairs = D.X[D.P[:6]]
    d0 = est.pair_distance(pairs.copy())
    s1 = state(est)
    M *= -7.0
    M.flat[0] = np.nan
    bad = changed(s1, state(est))     # only the mutation lies between the two snapshots
    d1 = est.pair_distance(pairs.copy())
    M1 = est.get_mahalanobis_matrix()
    if bad or not same(d0, d1) or not same(M1, M0):
      self.report('handed-out-objects-independent', '%s in-place mutation of the matrix returned by get_mahalanobis_matrix' % self.name,
                  'after M *= -7; M[0,0] = nan: changed attributes %s; pair_distance equal: %s; get_mahalanobis_matrix() equal: %s'
                  % (bad, same(d0, d1), same(M1, M0)), i)
    self.handed.append(dict(kind='matrix', M=keep, fp=fp(keep), step=i))

  def frame(self, i, what, s0, allowed):
    bad = [k for k in changed(s0, state(self.est)) if k not in allowed]
    if bad:
      self.report('query-methods-preserve-fitted-state', '%s.%s changes %s' % (self.name, what, ','.join(bad)),
                  '%s changed vars(est)[%s]' % (what, ', '.join(bad)), i)

  def do_query(self, i, op):
    est, name, o = self.est, self.name, op['op']
    D = self.DS[op['ds']]

    def arguments():
      if o == 'transform':
        return [('X', D.Xq.copy() if op['form'] == 'formed' else D.iq.copy())], {}
      if o == 'pair_distance':
        idx = D.P[:6]
        return [('pairs', D.X[idx] if op['form'] == 'formed' else idx.copy())], {}
      if o == 'predict':
        return [(self.kind, query_tuples(name, D, op['form']))], {}
      if o == 'score':
        a = [(self.kind, query_tuples(name, D, op['form']))]
        return a + ([('y', D.yp[:6].copy())] if self.kind == 'pairs' else []), {}
      if o == 'set_threshold':
        return [('threshold', op['value'])], {}
      if o == 'calibrate_threshold':
        return [('pairs_valid', query_tuples(name, D, op['form'], 10)), ('y_valid', D.yp[:10].copy())], dict(op['kw'])
      raise ValueError(o)

    def outcome(r):
      return est.threshold_ if o in ('set_threshold', 'calibrate_threshold') else r

    s0 = state(est)
    a, kw = arguments()
    r1 = outcome(self.guarded(i, o, getattr(est, o), a, kw))
    self.frame(i, o, s0, {'set_threshold': ('threshold_',), 'calibrate_threshold': ('threshold_', 'preprocessor_')}.get(o, ()))
    a, kw = arguments()
    r2 = outcome(getattr(est, o)(*[v for _, v in a], **kw))
    if not same(r1, r2):
      self.report('query-methods-preserve-fitted-state', '%s.%s repeated' % (name, o),
                  'the same %s call repeated gives %s then %s' % (o, show(r1), show(r2)), i)


def describe_fp(f):
  if f[0] == 'nd':
    a = np.frombuffer(f[3], dtype=f[1])
    return 'array(shape=%s, dtype=%s, %s)' % (f[2], np.dtype(f[1]), np.array2string(a[:4], precision=17))
  return repr(f[1:])[:80]


def execute(name, ctor, ops, seed, ml=None, DS=None):
  """run one history on the real code -> dict(violations=[...], aborted=None | dict(step, error))"""
  ml = ml or repo()
  DS = DS or datasets(seed)
  r = Runner(ml, name, DS)
  aborted = None
  with contextlib.ExitStack() as stack:
    stack.enter_context(warnings.catch_warnings())
    warnings.simplefilter('ignore')
    stack.enter_context(np.errstate(all='ignore'))
    try:
      from threadpoolctl import threadpool_limits
      stack.enter_context(threadpool_limits(limits=1))     # reproducible BLAS/OpenMP reductions; no thread pools to fork
    except ImportError:                    # pragma: no cover
      pass
    r.est = getattr(ml, name)(**resolve(ctor, DS))
    for i, op in enumerate(ops):
      try:
        r.step(i, op)
      except Exception as e:              # a step that raises ends the history: not a C17 clause, but never silent
        aborted = dict(step=i, op=describe(op), error='%s: %s' % (type(e).__name__, str(e)[:200]))
        break
  return dict(violations=r.vio, aborted=aborted)


def _units(ops):
  """deletable units: a fit goes together with the set_params that fits its parameters to the dataset"""
  units, i = [], 0
  while i < len(ops):
    if (ops[i]['op'] == 'set_params' and 'preprocessor' in ops[i]['params'] and i + 1 < len(ops) and ops[i + 1]['op'] == 'fit'):
      units.append([i, i + 1])
      i += 2
    else:
      units.append([i])
      i += 1
  return units


def shrink(name, ctor, ops, seed, clause, signature, step, ml=None, DS=None, budget=12):
  """greedy deletion of one unit at a time, keeping (clause, signature) at the last step; a candidate that raises before
  showing the violation is rejected"""
  def hit_of(cand):
    res = execute(name, ctor, cand, seed, ml, DS)
    hit = [v for v in res['violations'] if v['clause'] == clause and v['signature'] == signature]
    return hit[0] if hit else None
  ops = list(ops[:step + 1])
  progress = True
  while progress and budget > 0:
    progress = False
    for u in reversed(_units(ops)[:-1]):
      if budget <= 0:
        break
      cand = [o for j, o in enumerate(ops) if j not in u]
      budget -= 1
      hit = hit_of(cand)
      if hit:
        ops = cand[:hit['step'] + 1]
        progress = True
        break
  return ops, hit_of(ops)


# ------------------------------------------------------------------------------------------------- interface

_G = {}


def _work(i):
  desc, name, ctor, ops = _G['histories'][i]
  return execute(name, ctor, ops, _G['seed'], _G['ml'], _G['DS'])


def _work_shrink(job):
  i, clause, signature, step = job
  desc, name, ctor, ops = _G['histories'][i]
  return shrink(name, ctor, ops, _G['seed'], clause, signature, step, _G['ml'], _G['DS'])


def _map(fn, jobs, timeout):
  jobs = list(jobs)
  if not jobs:
    return []
  try:
    ctx = multiprocessing.get_context('fork')
    n = min(16, multiprocessing.cpu_count() or 1, len(jobs))
  except ValueError:                       # pragma: no cover
    n = 1
  if n <= 1:
    return [fn(j) for j in jobs]
  pool = ctx.Pool(n)
  try:
    return pool.map_async(fn, jobs, chunksize=1).get(timeout=timeout)
  finally:
    pool.terminate()
    pool.join()


def as_input(name, ctor, ops, seed, step):
  return dict(estimator=name, seed=seed, constructor={k: (describe_value(v) if isinstance(v, dict) else v) for k, v in ctor.items()},
              history=[describe(o) for o in ops], failing_step=step,
              datasets='standins.c17.datasets(seed): (n, d) = %s, 3 classes' % (DIMS,),
              rerun=dict(call='standins.c17.execute(estimator, ctor, ops, seed)', ctor=ctor, ops=ops))


def cases(tier, seed):
  """one case per history; the thunk returns the first violated clause (key 'all' lists every one seen in the history)"""
  ml = repo()
  DS = datasets(seed)
  for desc, name, ctor, ops in histories(tier, seed):
    def thunk(name=name, ctor=ctor, ops=ops):
      res = execute(name, ctor, ops, seed, ml, DS)
      if not res['violations']:
        return None
      v = res['violations'][0]
      return dict(tag=v['clause'], observed=v['observed'], signature=v['signature'],
                  input=as_input(name, ctor, ops[:v['step'] + 1], seed, v['step']), all=res['violations'])
    yield desc, (name, family(name).lower()), thunk


def run(tier, seed):
  ml = repo()
  H = histories(tier, seed)
  _G.update(ml=ml, DS=datasets(seed), histories=H, seed=seed)
  results = _map(_work, range(len(H)), 600 if tier == 'quick' else 3000)
  best = {}          # (clause, signature) -> (step count, history index, violation)
  count = {}
  aborted = []
  for i, res in enumerate(results):
    if res['aborted']:
      aborted.append(dict(history=H[i][0], **res['aborted']))
    for v in res['violations']:
      key = (v['clause'], v['signature'])
      count[key] = count.get(key, 0) + 1
      if key not in best or v['step'] < best[key][0]:
        best[key] = (v['step'], i, v)
  keys = sorted(best)
  shrunk = _map(_work_shrink, [(best[k][1], k[0], k[1], best[k][0]) for k in keys], 600 if tier == 'quick' else 3000)
  vio = []
  for key, (ops, hit) in zip(keys, shrunk):
    step, i, v = best[key]
    desc, name, ctor, full = H[i]
    if hit is None:      # not reproduced after shrinking (should not happen): report the original history
      ops, hit = full[:step + 1], v
    vio.append(dict(clause='runtime/C17/%s' % key[0], signature=key[1], observed=hit['observed'],
                    input=as_input(name, ctor, ops, seed, hit['step']), histories_showing_it=count[key]))
  n_steps = sum(len(h[3]) for h in H)
  return dict(cases=len(H), distinct_nontrivial=len(set(h[0] for h in H)),
              rule='per estimator 4 systematic histories (option lists swept in order: every init/prior kind incl. arrays, '
                   'preprocessor none/array/callable, formed/indexed input, bounds none/with 0/positive, weights none/array, '
                   'calibration parameters, refit on another dimensionality, clone, pickle) + %d seeded random histories; each fit is '
                   'compared with two fresh clones fitted on the same data; arguments, hyper-parameters and vars(est) are '
                   'byte-compared around every call; distinct = distinct step sequences (%d steps in total)'
                   % (2 if tier == 'quick' else 8, n_steps),
              bound='17 estimators x %d histories of <= %d steps over 4 datasets (n, d) = %s; integer random_state; '
                    'RCA n_components<d and SCML basis=<array> excluded (F6/F7)' % (len(H) // len(PUBLIC), MAX_LEN, DIMS),
              standin_samples=[H[i][0] for i in range(0, len(H), max(1, len(H) // 6))][:6],
              violations=vio, aborted=aborted)


_KEYWORDS = [('n_features_in', 'n_features_in_'), ('bookkeeping', 'bookkeeping-attributes-independent-of-history'),
             ('n_iter', 'bookkeeping-attributes-independent-of-history'), ('converged', 'bookkeeping-attributes-independent-of-history'),
             ('determin', 'deterministic-refit'), ('seed', 'deterministic-refit'), ('random', 'deterministic-refit'),
             ('frame', 'arguments-unmodified'), ('owned', 'arguments-unmodified'), ('alias', 'arguments-unmodified'),
             ('modif', 'arguments-unmodified'), ('argument', 'arguments-unmodified'), ('inplace', 'arguments-unmodified'),
             ('escape', 'handed-out-objects-share-no-memory-with-estimator'), ('fresh', 'handed-out-objects-share-no-memory-with-estimator'),
             ('noninterference', 'model-independent-of-history'), ('history', 'model-independent-of-history')]


def replay_clause(cid, fail, seed):
  """first failing systematic history of an estimator whose module/class is named in cid, preferring the clause that the
  obligation name suggests; else any failing history"""
  ml = repo()
  DS = datasets(seed)
  low = cid.lower()
  mod = low.split(':')[0]
  names = [n for n in PUBLIC if family(n).lower() == mod or re.search(r'\b%s\b' % re.escape(n.lower()), low)]
  if mod == 'rca':
    names = ['RCA', 'RCA_Supervised']
  m = re.search(r'\[(\w+)\]', cid)
  if m and m.group(1) in PUBLIC:          # the class the obligation was instantiated for goes first
    names = [m.group(1)] + [n for n in names if n != m.group(1)]
  want = [c for k, c in _KEYWORDS if k in low]
  found = None
  for name in (names or PUBLIC):
    counters = {}
    for t in sweep_templates(name):
      ctor, ops = build_history(Chooser(None, counters), name, t)
      res = execute(name, ctor, ops, seed, ml, DS)
      for v in res['violations']:
        out = dict(failing_input=as_input(name, ctor, ops[:v['step'] + 1], seed, v['step']),
                   observed='%s [%s]: %s' % (v['clause'], v['signature'], v['observed']))
        if not want or v['clause'] in want:
          return out
        found = found or out
  return found or dict(note='no failing history among the systematic stand-in histories' + (' of ' + ', '.join(names) if names else ''))
