"""C06 bounded stand-in / replay: the enumerated malformation grammar of the property, run against the REAL
data-taking methods of estimators whose fitted state is set directly (no solver involved).
bounded -- not proved.  Oracle: malformed => ValueError (no other exception type, no result);
well-formed => no exception.
"""
import itertools
import warnings

import numpy as np

from .common import repo, PUBLIC

D = 3


def estimators(ml):
  """(name, instance with directly-set fitted state, kind, tuple_size)"""
  from metric_learn._util import ArrayIndexer
  rng = np.random.RandomState(0)
  L = rng.randn(2, D)
  out = []
  for name, kind, t in (('Covariance', 'points', None), ('ITML', 'pairs', 2), ('MMC', 'pairs', 2), ('SDML', 'pairs', 2),
                        ('SCML', 'triplets', 3), ('LSML', 'quadruplets', 4), ('NCA', 'points', None), ('LMNN', 'points', None)):
    for with_prep in (False, True):
      est = getattr(ml, name)()
      est.components_ = L.copy()
      est.n_features_in_ = D
      if with_prep:
        X = rng.randn(10, D)
        est.preprocessor = X
        est.preprocessor_ = ArrayIndexer(X)
      else:
        est.preprocessor_ = None
      if kind == 'pairs':
        est.threshold_ = 1.0
      out.append((name, est, kind, t, with_prep))
  return out


def arrays(formed_rank, t, with_prep):
  """yield (description, value, valid?)  -- `valid` w.r.t. a method expecting `formed_rank`-D data of tuple size t"""
  rng = np.random.RandomState(1)
  # formed data of every rank 0..4 and tuple sizes 1..5
  for nd in range(5):
    shapes = {0: [()], 1: [(4,)], 2: [(4, D), (4, 2)], 3: [(4, ts, D) for ts in range(1, 6)], 4: [(2, 2, 2, D)]}[nd]
    for sh in shapes:
      a = rng.randn(*sh) if sh else np.float64(1.5)
      valid = (nd == formed_rank and (formed_rank == 2 and sh[1] == D or formed_rank == 3 and sh[1] == t and sh[2] == D))
      if with_prep and nd == formed_rank - 1:
        # floats where indicators are expected: the indexer raises, which C05 says surfaces as PreprocessorError
        valid = 'preprocessor-error'
      yield ('float%s' % (sh,), a, valid)
  # empty axes
  if formed_rank == 2:
    yield ('empty-samples', np.zeros((0, D)), False)
    yield ('empty-features', np.zeros((4, 0)), False)
    yield ('feature-mismatch', rng.randn(4, D + 1), False)
    base = rng.randn(4, D)
  else:
    yield ('empty-samples', np.zeros((0, t, D)), False)
    yield ('empty-features', np.zeros((4, t, 0)), False)
    yield ('empty-tuples', np.zeros((4, 0, D)), False)
    yield ('feature-mismatch', rng.randn(4, t, D + 1), False)
    base = rng.randn(4, t, D)
  for bad, nm in ((np.nan, 'nan'), (np.inf, 'inf'), (-np.inf, '-inf')):
    for pos in (0, base.size // 2, base.size - 1):
      b = base.copy()
      b.flat[pos] = bad
      yield ('%s@%d' % (nm, pos), b, False)
  ob = base.astype(object)
  ob.flat[1] = 'a'
  yield ('object-dtype-with-str', ob, False)
  yield ('str-dtype', np.full(base.shape, 'a'), False)
  # equivalent array-likes of a valid input
  yield ('list', base.tolist(), True)
  yield ('fortran', np.asfortranarray(base), True)
  yield ('int-dtype', np.round(base * 3).astype(int), True)
  yield ('non-contiguous', np.repeat(base, 2, axis=0)[::2], True)
  if with_prep:
    if formed_rank == 2:
      yield ('indices', np.array([0, 3, 3, 9]), True)
      yield ('indices-2d', np.array([[0, 1], [2, 3]]), False)
    else:
      yield ('index-tuples', np.array([[0, 1, 2, 3][:t] if t <= 4 else [0] * t, [5, 4, 3, 2][:t]]), True)
      yield ('index-tuples-wrong-size', np.zeros((3, t + 1), dtype=int), False)
      yield ('index-1d', np.array([0, 1, 2]), False)


def methods(kind):
  m = [('pair_distance', 3, 2), ('pair_score', 3, 2), ('score_pairs', 3, 2), ('transform', 2, None)]
  if kind == 'pairs':
    m += [('predict', 3, 2), ('decision_function', 3, 2)]
  if kind == 'triplets':
    m += [('predict', 3, 3), ('decision_function', 3, 3), ('score', 3, 3)]
  if kind == 'quadruplets':
    m += [('predict', 3, 4), ('decision_function', 3, 4), ('score', 3, 4)]
  return m


def call(est, mname, arg, extra=()):
  with warnings.catch_warnings():
    warnings.simplefilter('ignore')
    try:
      getattr(est, mname)(arg, *extra)
      return 'returned'
    except ValueError as e:
      return 'ValueError'
    except Exception as e:
      return type(e).__name__


def label_cases(n):
  yield ('labels +-1', np.array([1, -1] * (n // 2) + [1] * (n % 2)), True)
  yield ('labels 0/1', np.array([1, 0] * (n // 2) + [1] * (n % 2)), False)
  yield ('labels 2', np.array([1, -1, 2, -1][:n] if n <= 4 else [2] * n), False)
  yield ('labels short', np.array([1, -1, 1][:max(1, n - 1)]), False)
  yield ('labels nan', np.array([1.0, -1.0, np.nan, 1.0][:n]), False)


def iterate(ml, tier):
  for name, est, kind, t, with_prep in estimators(ml):
    for mname, rank, ts in methods(kind):
      for desc, arr, valid in arrays(rank, ts, with_prep):
        yield ('%s%s.%s(%s)' % (name, '[prep]' if with_prep else '', mname, desc),
               lambda est=est, mname=mname, arr=arr: call(est, mname, arr), valid)
    if kind == 'pairs':
      base = np.random.RandomState(2).randn(4, 2, D)
      for ldesc, y, lvalid in label_cases(4):
        yield ('%s%s.calibrate_threshold(valid pairs, %s)' % (name, '[prep]' if with_prep else '', ldesc),
               lambda est=est, y=y: call(est, 'calibrate_threshold', base, (y,)), lvalid)
      for desc, arr, valid in arrays(3, 2, with_prep):
        n = len(arr) if hasattr(arr, '__len__') else 1
        y = np.array(([1, -1] * 5)[:n])
        if valid is True and n >= 2:
          yield ('%s%s.calibrate_threshold(%s, +-1)' % (name, '[prep]' if with_prep else '', desc),
                 lambda est=est, arr=arr, y=y: call(est, 'calibrate_threshold', arr, (y,)), True)
          yield ('%s%s.score(%s, +-1)' % (name, '[prep]' if with_prep else '', desc),
                 lambda est=est, arr=arr, y=y: call(est, 'score', arr, (y,)), True)
        elif valid is False:
          yield ('%s%s.calibrate_threshold(%s, +-1)' % (name, '[prep]' if with_prep else '', desc),
                 lambda est=est, arr=arr, y=y: call(est, 'calibrate_threshold', arr, (y,)), False)
          yield ('%s%s.score(%s, +-1)' % (name, '[prep]' if with_prep else '', desc),
                 lambda est=est, arr=arr, y=y: call(est, 'score', arr, (y,)), False)


def fit_cases(ml):
  """malformed training input to fit of all 17 estimators -> ValueError"""
  rng = np.random.RandomState(3)
  X = rng.randn(12, D)
  y = np.array([0, 1, 2] * 4)
  pairs = rng.randn(8, 2, D)
  yp = np.array([1, -1] * 4)
  trip = rng.randn(8, 3, D)
  quad = rng.randn(8, 4, D)
  def bad_points():
    yield 'ndim1', X[:, 0], y
    yield 'ndim3', X.reshape(4, 3, D), y[:4]
    yield 'nan', np.where(np.arange(X.size).reshape(X.shape) == 5, np.nan, X), y
    yield 'inf', np.where(np.arange(X.size).reshape(X.shape) == 7, np.inf, X), y
    yield 'empty', np.zeros((0, D)), np.zeros((0,))
    yield 'one-sample', X[:1], y[:1]
    yield 'str', np.full(X.shape, 'a'), y
    yield 'len-mismatch', X, y[:-1]
  for cls in PUBLIC:
    est_cls = getattr(ml, cls)
    if cls in ('ITML', 'MMC', 'SDML'):
      good, extra = pairs, (yp,)
      bads = [('ndim2', pairs[:, 0], yp), ('tuple3', trip, yp), ('nan', np.where(np.arange(pairs.size).reshape(pairs.shape) == 3, np.nan, pairs), yp),
              ('labels01', pairs, (yp + 1) // 2), ('labels2', pairs, yp * 2), ('len-mismatch', pairs, yp[:-1]), ('empty', np.zeros((0, 2, D)), np.zeros(0)),
              ('ndim4', pairs[None], yp[:1])]
    elif cls == 'SCML':
      bads = [('ndim2', trip[:, 0], None), ('tuple2', pairs, None), ('tuple4', quad, None), ('nan', np.where(np.arange(trip.size).reshape(trip.shape) == 3, np.nan, trip), None),
              ('empty', np.zeros((0, 3, D)), None)]
    elif cls == 'LSML':
      bads = [('ndim2', quad[:, 0], None), ('tuple3', trip, None), ('inf', np.where(np.arange(quad.size).reshape(quad.shape) == 3, np.inf, quad), None),
              ('empty', np.zeros((0, 4, D)), None)]
    else:
      bads = list(bad_points())
    for desc, data, lab in bads:
      def run(est_cls=est_cls, data=data, lab=lab, cls=cls):
        est = est_cls()
        with warnings.catch_warnings():
          warnings.simplefilter('ignore')
          try:
            if cls == 'Covariance':
              est.fit(data)
            elif lab is None:
              est.fit(data)
            else:
              est.fit(data, lab)
            return 'returned'
          except ValueError:
            return 'ValueError'
          except Exception as e:
            return type(e).__name__
      if cls == 'Covariance' and desc == 'len-mismatch':
        continue
      yield '%s.fit(%s)' % (cls, desc), run, False
    # n_components outside [1, n_features]
    if cls in ('LFDA', 'LMNN', 'NCA', 'MLKR', 'RCA', 'RCA_Supervised'):
      for nc in (0, -1, D + 1):
        def run(est_cls=est_cls, nc=nc, cls=cls):
          est = est_cls(n_components=nc)
          with warnings.catch_warnings():
            warnings.simplefilter('ignore')
            try:
              if cls == 'RCA':
                est.fit(X, np.array([0, 0, 1, 1, 2, 2] * 2))
              else:
                est.fit(X, y if cls != 'MLKR' else y.astype(float))
              return 'returned'
            except ValueError:
              return 'ValueError'
            except Exception as e:
              return type(e).__name__
        yield '%s(n_components=%d).fit(valid)' % (cls, nc), run, False


def history_cases(ml):
  """malformed input is rejected whatever the object did before: after set_params(preprocessor=...) on a used estimator, indicators are
  validated against the NEW preprocessor (none: indicators are then just arrays of the wrong rank; an array with NaN rows: non-finite data)"""
  rng = np.random.RandomState(5)
  X = rng.randn(12, D)
  y = np.array([0, 1, 2] * 4)
  idx_pairs = np.array([[0, 3], [1, 2], [4, 7], [5, 6], [8, 11], [9, 10], [0, 1], [2, 5]])
  yp = np.array([1, -1] * 4)
  Xnan = X.copy()
  Xnan[::2, 1] = np.nan
  specs = [('Covariance', {}, np.arange(12), ()), ('NCA', dict(max_iter=2), np.arange(12), (y,)), ('ITML', dict(max_iter=2), idx_pairs, (yp,)),
           ('MMC', dict(max_iter=2), idx_pairs, (yp,))]
  for cls, kw, idx, extra in specs:
    for what, newprep in (('None', None), ('an array with NaN rows', Xnan)):
      for second in (('fit',) if cls in ('Covariance', 'NCA') else ('fit', 'calibrate_threshold')):
        def run(cls=cls, kw=kw, idx=idx, extra=extra, newprep=newprep, second=second):
          with warnings.catch_warnings():
            warnings.simplefilter('ignore')
            est = getattr(ml, cls)(preprocessor=X.copy(), **kw)
            try:
              est.fit(idx, *extra)
            except Exception as e:
              return 'ValueError'          # the first, well-formed fit is not what this case is about
            est.set_params(preprocessor=newprep)
            try:
              getattr(est, second)(idx, *extra)
              return 'returned'
            except ValueError:
              return 'ValueError'
            except Exception as e:
              return type(e).__name__
        yield ('%s(preprocessor=X).fit(indicators); set_params(preprocessor=%s); %s(indicators)' % (cls, what, second), run, False)


REPS = ('list', 'int64', 'int32', 'uint8', 'fortran', 'strided')


def represent(A, kind):
  """the same numbers (small non-negative integers) in another container / dtype / memory layout"""
  A = np.asarray(A)
  if kind == 'list':
    return A.tolist()
  if kind in ('int64', 'int32', 'uint8'):
    return A.astype(kind)
  if kind == 'fortran':
    return np.asfortranarray(A.astype(float))
  if kind == 'strided':
    big = np.full((2 * A.shape[0],) + A.shape[1:], -3.0)
    big[::2] = A
    return big[::2]
  raise ValueError(kind)


def equivalence_cases(ml, seed):
  """'lists, integer arrays, Fortran-ordered and non-contiguous arrays holding the same numbers as a float64 C array give the same
  results': every estimator is fitted on integer-valued data in each representation, and queried in each representation"""
  from . import c18 as H
  D = H.small_data(seed)
  D.X = np.round(D.X * 2.0) + 40.0          # integer-valued, within 0..255, rows stay distinct enough for every learner
  D.Xq = np.round(D.Xq * 2.0) + 40.0
  for name in PUBLIC:
    def fitted(kind, name=name):
      args = H.fit_args(name, D, False)
      data = args[0] if kind is None else represent(args[0], kind)
      est = getattr(ml, name)(**H.FAST[name])
      with warnings.catch_warnings():
        warnings.simplefilter('ignore')
        est.fit(data, *args[1:])
      return est
    ref_box = {}

    def reference(name=name, fitted=fitted):
      if 'est' not in ref_box:
        try:
          ref_box['est'] = fitted(None)
        except Exception as e:
          ref_box['est'] = e
      return ref_box['est']
    for kind in REPS:
      def run_fit(kind=kind, name=name, fitted=fitted, reference=reference):
        ref = reference()
        if isinstance(ref, Exception):
          return 'returned'            # the float64 reference fit itself does not succeed on this data: nothing to compare
        try:
          est = fitted(kind)
        except Exception as e:
          return '%s: %s' % (type(e).__name__, str(e)[:80])
        # another dtype / container becomes the very same float64 C array after validation: agreement to rounding of the conversion.  Another
        # memory LAYOUT makes BLAS sum in another order, and an iterative solver amplifies those last-bit differences along its path
        rt = 1e-3 if kind in ('fortran', 'strided') else 1e-7
        if est.components_.shape != ref.components_.shape or not np.allclose(est.components_, ref.components_, rtol=rt, atol=rt * 1e-2 * np.abs(ref.components_).max()):
          return 'components_ differ from the float64 C-array fit (max abs difference %.3g)' % float(
              np.abs(est.components_ - ref.components_).max() if est.components_.shape == ref.components_.shape else np.inf)
        return 'returned'
      yield '%s.fit(<same numbers as %s>) equals the float64 fit' % (name, kind), run_fit, True
    for kind in REPS:
      def run_query(kind=kind, name=name, reference=reference):
        ref = reference()
        if isinstance(ref, Exception):
          return 'returned'
        with warnings.catch_warnings():
          warnings.simplefilter('ignore')
          try:
            a = ref.transform(D.Xq.copy())
            b = ref.transform(represent(D.Xq, kind))
            P = D.X[D.P[:6]]
            c = ref.pair_distance(P.copy())
            d = ref.pair_distance(represent(P, kind))
          except Exception as e:
            return '%s: %s' % (type(e).__name__, str(e)[:80])
        if not (np.allclose(a, b, rtol=1e-9, atol=1e-12) and np.allclose(c, d, rtol=1e-9, atol=1e-12)):
          return 'transform / pair_distance differ from the float64 C-array query'
        return 'returned'
      yield '%s queries on <same numbers as %s> equal the float64 queries' % (name, kind), run_query, True


def run(tier, seed):
  ml = repo()
  cases = 0
  vio = []
  samples = []
  seen = set()
  for desc, thunk, valid in itertools.chain(iterate(ml, tier), fit_cases(ml), history_cases(ml), equivalence_cases(ml, seed)):
    cases += 1
    got = thunk()
    seen.add(desc)
    if len(samples) < 8 and cases % 97 == 1:
      samples.append('%s -> %s' % (desc, got))
    if valid == 'preprocessor-error':
      ok = got in ('PreprocessorError', 'ValueError')
    else:
      ok = (got == 'returned') if valid else (got == 'ValueError')
    if not ok:
      vio.append(dict(clause='runtime/C06/%s' % ('valid-input-accepted' if valid else 'malformed-input-rejected-with-ValueError'),
                      input=desc, observed=got, signature=desc))
  return dict(cases=cases, distinct_nontrivial=len(seen),
              rule='enumerated malformation grammar (ndim 0..4, tuple sizes 1..5, empty axes, NaN/inf at 3 positions, object/str dtype, feature mismatch, '
                   'label alphabets, length mismatch) x 8 estimator kinds x with/without preprocessor x every data-taking method, plus malformed fit input for all 17 estimators; '
                   'distinct = distinct (method, input description)',
              bound='fixed grammar, arrays of <= 4 samples, n_features = 3', standin_samples=samples, violations=vio)


def replay_clause(cid, fail, seed):
  """concrete failing inputs for refuted C06 obligations"""
  ml = repo()
  from metric_learn._util import check_input, ArrayIndexer
  if 'call-wellformed' in cid:
    try:
      check_input(np.zeros((3, 2)))
      return dict(note='call did not fail at run time')
    except TypeError as e:
      return dict(failing_input='metric_learn._util.check_input(np.zeros((3, 2)))', observed='TypeError: %s' % e)
  if 'no-undeclared-exit.IndexError' in cid and 'check_input_tuples' in cid:
    try:
      check_input(np.array([[0, 1], [2, 3]]), type_of_inputs='tuples', preprocessor=ArrayIndexer(np.arange(10.)), tuple_size=2)
      return dict(note='returned')
    except IndexError as e:
      return dict(failing_input="check_input(np.array([[0,1],[2,3]]), type_of_inputs='tuples', preprocessor=ArrayIndexer(np.arange(10.)), tuple_size=2)",
                  observed='IndexError: %s' % e)
    except Exception as e:
      return dict(note='raised %s' % type(e).__name__)
  return dict(note='no replay recipe for this clause')
