"""C02 bounded stand-in / replay: all views of the learned metric agree with M = L^T L.

Run-time contract on the REAL observers (pair_distance, get_metric()(u, v, squared), transform,
get_mahalanobis_matrix, score_pairs) of estimators whose fitted state is set directly with common.make_fitted
(all 17 classes x a spread of transformations L, incl. low-rank / rank-deficient / tiny / huge / zero) and
finite query pairs at several magnitudes (duplicates, near-duplicates, mixed scales).
bounded -- not proved.

Oracle (independent evaluation, nothing of metric_learn re-implemented):
  * d = pair_distance(P);  get_metric()(x, x') == d;  get_metric()(x, x', squared=True) == get_metric()(x, x')**2;
    ||transform(x) - transform(x')||_2 == d;  (x-x')^T M (x-x') == d**2 with M = get_mahalanobis_matrix();
    score_pairs(P) == d and emits a FutureWarning.
  * transform(X) == X L^T (einsum evaluation);  M == L^T L (einsum evaluation), symmetric, min eig >= -tol.
  * list / integer dtype / Fortran-ordered / non-contiguous / single-pair batches / index pairs through a
    preprocessor give the same numbers as the float64 C-contiguous formed array.
Tolerances: rtol 1e-9 between different formulas of the same number, with an absolute slack proportional to
||L||_F (||x|| + ||x'||) (the size of the rounding error of the cancellation x - x' and of the embedding);
rtol 1e-12 between the same formula evaluated on equivalent array-likes.
"""
import warnings

import numpy as np

from .common import repo, PUBLIC, make_fitted, transformations

TAG_PD = 'base_metric:MahalanobisMixin.pair_distance'
TAG_SP = 'base_metric:MahalanobisMixin.score_pairs'
TAG_MF = 'base_metric:MahalanobisMixin.get_metric.metric_fun'
TAG_TR = 'base_metric:MahalanobisMixin.transform'
TAG_MM = 'base_metric:MahalanobisMixin.get_mahalanobis_matrix'
ALL_TAGS = (TAG_PD, TAG_SP, TAG_MF, TAG_TR, TAG_MM)

MAGS = (1e-8, 1.0, 1e3, 1e8)


def query_pairs(rng, d, n, m):
  """(n, 2, d) float64 C-contiguous pairs at magnitude m: generic, duplicate, near-duplicate, mixed scale"""
  P = rng.randn(n, 2, d) * m
  for i in range(n):
    kind = i % 5
    if kind == 1:
      P[i, 1] = P[i, 0]
    elif kind == 2:
      P[i, 1] = P[i, 0] + rng.randn(d) * m * 1e-6
    elif kind == 3:
      P[i, 0] *= 1e3
    elif kind == 4:
      P[i, 1] = -P[i, 0]
  return np.ascontiguousarray(P)


def _bad(clause, fn, observed):
  return dict(tag=clause, fn=fn, observed=observed)


def _close(a, b, rtol, atol):
  a = np.asarray(a, dtype=float)
  b = np.asarray(b, dtype=float)
  if a.shape != b.shape:
    return False
  return bool(np.all(np.isfinite(a)) and np.all(np.isfinite(b)) and np.all(np.abs(a - b) <= atol + rtol * np.abs(b)))


def check_views(est, L, P):
  """all views on the float64 C-contiguous pairs P -> None or a violation dict (without input)"""
  L = np.asarray(L, dtype=float)
  n, _, d = P.shape
  normL = np.sqrt((L ** 2).sum())
  S = normL * (np.sqrt((P[:, 0] ** 2).sum(1)) + np.sqrt((P[:, 1] ** 2).sum(1)))   # scale of each distance
  atol = 1e-11 * S + 1e-300
  atol2 = 1e-11 * S * S + 1e-300
  with np.errstate(all='ignore'):
    dist = est.pair_distance(P)
    if dist.shape != (n,) or not np.all(np.isfinite(dist)) or np.any(dist < 0):
      return _bad('pair_distance-finite-nonnegative', TAG_PD, 'pair_distance = %r' % (dist,))
    f = est.get_metric()
    g = np.array([f(P[i, 0], P[i, 1]) for i in range(n)])
    g2 = np.array([f(P[i, 0], P[i, 1], squared=True) for i in range(n)])
    gk = np.array([f(P[i, 0], P[i, 1], squared=False) for i in range(n)])
    if not _close(g, dist, 1e-9, atol):
      return _bad('get_metric-equals-pair_distance', TAG_MF, 'get_metric()(x,x\') = %r, pair_distance = %r' % (g, dist))
    if not np.array_equal(g, gk):
      return _bad('get_metric-equals-pair_distance', TAG_MF, 'squared=False differs from the default: %r vs %r' % (gk, g))
    if not _close(g ** 2, g2, 1e-12, 1e-300):
      return _bad('squared-is-square-of-plain', TAG_MF, 'get_metric()(x,x\')**2 = %r, squared=True gives %r' % (g ** 2, g2))
    T0 = est.transform(P[:, 0])
    T1 = est.transform(P[:, 1])
    if T0.shape != (n, L.shape[0]):
      return _bad('transform-is-X-Lt', TAG_TR, 'transform output shape %r, expected %r' % (T0.shape, (n, L.shape[0])))
    e = np.sqrt(((T0 - T1) ** 2).sum(axis=1))
    if not _close(e, dist, 1e-9, atol):
      return _bad('embedding-distance-equals-pair_distance', TAG_TR,
                  '||transform(x)-transform(x\')|| = %r, pair_distance = %r' % (e, dist))
    M = est.get_mahalanobis_matrix()
    if M.shape != (d, d):
      return _bad('M-equals-LtL', TAG_MM, 'get_mahalanobis_matrix shape %r, expected %r' % (M.shape, (d, d)))
    diff = P[:, 0] - P[:, 1]
    q = np.einsum('ij,jk,ik->i', diff, M, diff)
    if not _close(q, dist ** 2, 1e-9, atol2):
      return _bad('quadratic-form-equals-squared-distance', TAG_MM,
                  '(x-x\')^T M (x-x\') = %r, pair_distance**2 = %r' % (q, dist ** 2))
    if np.all(q >= 0) and not _close(np.sqrt(q), dist, 1e-9, np.sqrt(atol2)):
      return _bad('quadratic-form-equals-squared-distance', TAG_MM,
                  'sqrt((x-x\')^T M (x-x\')) = %r, pair_distance = %r' % (np.sqrt(q), dist))
    # transform is the linear map X -> X L^T
    X = P.reshape(-1, d)
    T = est.transform(X)
    ref = np.einsum('ij,kj->ik', X, L)
    slack = 1e-13 * np.abs(X).dot(np.abs(L).T) + 1e-300
    if T.shape != ref.shape or not np.all(np.abs(T - ref) <= slack + 1e-12 * np.abs(ref)):
      return _bad('transform-is-X-Lt', TAG_TR, 'transform(X) differs from X L^T by %r' %
                  (float(np.max(np.abs(T - ref))) if T.shape == ref.shape else T.shape,))
    # M = L^T L, symmetric, PSD
    refM = np.einsum('ki,kj->ij', L, L)
    sM = 1e-13 * np.abs(L).T.dot(np.abs(L)) + 1e-300
    if not np.all(np.abs(M - refM) <= sM + 1e-12 * np.abs(refM)):
      return _bad('M-equals-LtL', TAG_MM, 'get_mahalanobis_matrix() differs from L^T L by %r' % float(np.max(np.abs(M - refM))))
    if not np.all(np.abs(M - M.T) <= sM):
      return _bad('M-symmetric', TAG_MM, 'max |M - M^T| = %r' % float(np.max(np.abs(M - M.T))))
    w = np.linalg.eigvalsh((M + M.T) / 2)
    if w.min() < -1e-10 * max(np.abs(w).max(), 1e-300) * d:
      return _bad('M-psd', TAG_MM, 'min eigenvalue %r (max %r)' % (float(w.min()), float(w.max())))
    # M is a fresh array: mutating it must not change the model
    M0 = M.copy()
    M[...] = 7.0
    if not np.array_equal(est.get_mahalanobis_matrix(), M0) or not np.array_equal(est.components_, L):
      return _bad('M-equals-LtL', TAG_MM, 'mutating the returned matrix changed the fitted model')
    with warnings.catch_warnings(record=True) as rec:
      warnings.simplefilter('always')
      sp = est.score_pairs(P)
    if not np.array_equal(sp, dist):
      return _bad('score_pairs-equals-pair_distance', TAG_SP, 'score_pairs = %r, pair_distance = %r' % (sp, dist))
    if not any(issubclass(r.category, FutureWarning) for r in rec):
      return _bad('score_pairs-warns-FutureWarning', TAG_SP, 'warnings recorded: %r' % [r.category.__name__ for r in rec])
  return None


def check_arraylikes(ml, cls, L, rng, m):
  """equivalent array-likes of the same query give the same numbers -> None or violation"""
  L = np.asarray(L, dtype=float)
  d = L.shape[1]
  est = make_fitted(ml, cls, L)
  n = 5
  P = query_pairs(rng, d, n, m)
  normL = np.sqrt((L ** 2).sum())

  def scale(Q):
    Q = np.asarray(Q, dtype=float)
    return 1e-13 * normL * (np.sqrt((Q[:, 0] ** 2).sum(1)) + np.sqrt((Q[:, 1] ** 2).sum(1))) + 1e-300

  def same(a, b, atol):
    return _close(a, b, 1e-12, atol)

  with warnings.catch_warnings():
    warnings.simplefilter('ignore')
    with np.errstate(all='ignore'):
      base = est.pair_distance(P)
      baseT = est.transform(P[:, 0])
      atolT = 1e-13 * np.abs(P[:, 0]).dot(np.abs(L).T) + 1e-300
      big = np.zeros((n, 2, 2 * d))
      big[:, :, ::2] = P
      variants = [('list', P.tolist()), ('fortran', np.asfortranarray(P)),
                  ('non-contiguous-rows', np.repeat(P, 2, axis=0)[::2]), ('non-contiguous-features', big[:, :, ::2]),
                  ('tuple-of-lists', tuple(P.tolist()))]
      for name, V in variants:
        for meth in ('pair_distance', 'score_pairs'):
          got = getattr(est, meth)(V)
          if not same(got, base, scale(P)):
            return _bad('array-like-equivalence', TAG_PD if meth == 'pair_distance' else TAG_SP,
                        '%s(%s) = %r, on the float64 C array %r' % (meth, name, got, base)), name
      X = P[:, 0]
      bigX = np.zeros((n, 2 * d))
      bigX[:, 1::2] = X
      for name, V in (('list', X.tolist()), ('fortran', np.asfortranarray(X)), ('non-contiguous-rows', np.repeat(X, 2, axis=0)[::2]),
                      ('non-contiguous-features', bigX[:, 1::2])):
        got = est.transform(V)
        if got.shape != baseT.shape or not np.all(np.abs(got - baseT) <= atolT + 1e-12 * np.abs(baseT)):
          return _bad('array-like-equivalence', TAG_TR, 'transform(%s) differs from transform(float64 C array)' % name), name
      # single-pair batches / single-point batches
      for i in range(n):
        got = est.pair_distance(P[i:i + 1])
        if got.shape != (1,) or not same(got, base[i:i + 1], scale(P)[i:i + 1]):
          return _bad('array-like-equivalence', TAG_PD, 'pair_distance(single pair %d) = %r, in the batch %r' % (i, got, base[i])), 'single-pair'
        got = est.transform(X[i:i + 1])
        if got.shape != (1, L.shape[0]) or not np.all(np.abs(got[0] - baseT[i]) <= atolT[i] + 1e-12 * np.abs(baseT[i])):
          return _bad('array-like-equivalence', TAG_TR, 'transform(single point %d) differs from its row in the batch' % i), 'single-point'
      # get_metric on lists
      f = est.get_metric()
      for i in range(n):
        a, b = f(P[i, 0], P[i, 1]), f(P[i, 0].tolist(), P[i, 1].tolist())
        if not same(a, b, scale(P)[i]):
          return _bad('array-like-equivalence', TAG_MF, 'get_metric()(lists) = %r, on arrays %r' % (b, a)), 'list'
      # integer dtype: the same integers as int64 / int32 and as float64
      Pi = np.round(rng.randn(n, 2, d) * 5).astype(np.int64)
      Pf = Pi.astype(np.float64)
      want = est.pair_distance(Pf)
      wantT = est.transform(Pf[:, 0])
      for dt in (np.int64, np.int32):
        got = est.pair_distance(Pi.astype(dt))
        if not same(got, want, scale(Pf)):
          return _bad('array-like-equivalence', TAG_PD, 'pair_distance(%s pairs) = %r, as float64 %r' % (np.dtype(dt).name, got, want)), 'int-dtype'
        got = est.transform(Pi[:, 0].astype(dt))
        if got.shape != wantT.shape or not np.all(np.abs(got - wantT) <= 1e-13 * np.abs(Pf[:, 0]).dot(np.abs(L).T) + 1e-12 * np.abs(wantT) + 1e-300):
          return _bad('array-like-equivalence', TAG_TR, 'transform(%s points) differs from the float64 result' % np.dtype(dt).name), 'int-dtype'
      for i in range(n):
        a, b = f(Pi[i, 0], Pi[i, 1]), f(Pf[i, 0], Pf[i, 1])
        if not same(a, b, scale(Pf)[i]):
          return _bad('array-like-equivalence', TAG_MF, 'get_metric()(int vectors) = %r, float64 %r' % (a, b)), 'int-dtype'
      # pairs / points given as indices through a preprocessor
      pool = rng.randn(9, d) * m
      idx = rng.randint(0, 9, size=(n, 2))
      idx[0] = (3, 3)
      estp = make_fitted(ml, cls, L, prep_X=pool)
      formed = np.ascontiguousarray(pool[idx])
      want = est.pair_distance(formed)
      for name, V in (('indices', idx), ('index-list', idx.tolist()), ('indices-int32', idx.astype(np.int32)), ('indices-fortran', np.asfortranarray(idx)),
                      ('formed-with-preprocessor', formed)):
        for meth in ('pair_distance', 'score_pairs'):
          got = getattr(estp, meth)(V)
          if not same(got, want, scale(formed)):
            return _bad('indices-through-preprocessor', TAG_PD if meth == 'pair_distance' else TAG_SP,
                        '%s(%s) = %r, on the formed pairs %r' % (meth, name, got, want)), name
      pidx = idx[:, 0]
      wantT = est.transform(np.ascontiguousarray(pool[pidx]))
      atolP = 1e-13 * np.abs(pool[pidx]).dot(np.abs(L).T) + 1e-300
      for name, V in (('indices', pidx), ('index-list', pidx.tolist())):
        got = estp.transform(V)
        if got.shape != wantT.shape or not np.all(np.abs(got - wantT) <= atolP + 1e-12 * np.abs(wantT)):
          return _bad('indices-through-preprocessor', TAG_TR, 'transform(%s) differs from transform(formed points)' % name), name
  return None


def cases(tier, seed):
  ml = repo()
  rng = np.random.RandomState(seed)
  quick = tier == 'quick'
  dims = (3,) if quick else (1, 2, 3, 5, 8)
  n = 6 if quick else 10
  reps = 1 if quick else 3
  for cls in PUBLIC:
    for d in dims:
      for lname, L in transformations(rng, d):
        est = make_fitted(ml, cls, L)
        for m in MAGS:
          for rep in range(reps):
            P = query_pairs(rng, d, n, m)

            def thunk(est=est, L=L, P=P, cls=cls, lname=lname):
              inp = dict(estimator=cls, components_=np.asarray(L).tolist(), pairs=P.tolist())
              with warnings.catch_warnings():
                warnings.simplefilter('ignore')
                try:
                  bad = check_views(est, L, P)
                except Exception as e:
                  bad = _bad('views-raise', TAG_PD, '%s: %s' % (type(e).__name__, e))
              if bad:
                bad['input'] = inp
                bad['signature'] = '%s: %s L=%s' % (bad['tag'], cls, lname)
              return bad
            yield 'views %s d=%d L=%s |x|~%g' % (cls, d, lname, m), ALL_TAGS, thunk
        for m in ((1.0,) if quick else (1e-8, 1.0, 1e8)):
          sub = np.random.RandomState(rng.randint(2 ** 31 - 1))

          def thunk2(L=L, cls=cls, lname=lname, sub=sub, m=m):
            st = sub.get_state()
            try:
              res = check_arraylikes(ml, cls, L, sub, m)
            except Exception as e:
              res = (_bad('array-like-raises', TAG_PD, '%s: %s' % (type(e).__name__, e)), 'exception')
            finally:
              sub.set_state(st)
            if res is None:
              return None
            bad, variant = res
            bad['input'] = dict(estimator=cls, components_=np.asarray(L).tolist(), variant=variant, magnitude=m,
                                note='queries drawn by check_arraylikes from RandomState state of this case')
            bad['signature'] = '%s[%s]: %s L=%s' % (bad['tag'], variant, cls, lname)
            return bad
          yield 'array-likes %s d=%d L=%s |x|~%g' % (cls, d, lname, m), ALL_TAGS, thunk2
  yield from refit_cases(tier, seed)


REFIT = (('Covariance', {}), ('LFDA', {}), ('NCA', dict(max_iter=3)), ('RCA_Supervised', dict(n_chunks=8, chunk_size=2)),
         ('MMC_Supervised', dict(max_iter=3, n_constraints=30)), ('ITML_Supervised', dict(max_iter=3, n_constraints=30)))


def refit_cases(tier, seed):
  """the views must agree for EVERY fitted state, also the second one of the same object: fit, query every view, fit on other data,
  query every view again (a view that remembers something of the first fit disagrees with the others)"""
  ml = repo()
  import inspect
  for ci, (cls, kw) in enumerate(REFIT):
    for rep in range(1 if tier == 'quick' else 4):
      s = seed * 1000 + 17 * ci + rep

      def thunk(cls=cls, kw=kw, s=s):
        rng = np.random.RandomState(s)
        d = 3
        y = np.repeat([0, 1, 2], 10)
        X1 = rng.randn(30, d) + 2.0 * np.eye(3)[y]
        X2 = (rng.randn(30, d) * np.array([3.0, 0.5, 1.0])) + 1.5 * np.eye(3)[(y + 1) % 3]
        klass = getattr(ml, cls)
        kw2 = dict(kw)
        if 'random_state' in inspect.signature(klass.__init__).parameters:
          kw2['random_state'] = 7
        est = klass(**kw2)
        P = query_pairs(rng, d, 6, 1.0)
        with warnings.catch_warnings():
          warnings.simplefilter('ignore')
          for step, Xs in enumerate((X1, X2)):
            try:
              est.fit(Xs) if cls == 'Covariance' else est.fit(Xs, y)
            except Exception:
              return None             # whether this solver succeeds on this data is not C02's business
            try:
              bad = check_views(est, np.array(est.components_), P)
            except Exception as e:
              bad = _bad('views-raise', TAG_PD, '%s: %s' % (type(e).__name__, e))
            if bad:
              bad['input'] = dict(estimator=cls, params=kw2, history='fit(X1, y); views; fit(X2, y); views', failing_step=step,
                                  X1=X1.tolist(), X2=X2.tolist(), y=y.tolist(), pairs=P.tolist(), seed=s)
              bad['signature'] = '%s: %s after %s' % (bad['tag'], cls, 'the first fit' if step == 0 else 'a refit')
              return bad
          # hyper-parameters changed AFTER the fit do not change the fitted model: every view still describes components_
          if 'n_components' in est.get_params():
            est.set_params(n_components=1)
            try:
              bad = check_views(est, np.array(est.components_), P)
            except Exception as e:
              bad = _bad('views-raise', TAG_PD, '%s: %s' % (type(e).__name__, e))
            if bad:
              bad['input'] = dict(estimator=cls, params=kw2, history='fit(X2, y); set_params(n_components=1); views (no refit)',
                                  X2=X2.tolist(), y=y.tolist(), pairs=P.tolist(), seed=s)
              bad['signature'] = '%s: %s after set_params(n_components) without refit' % (bad['tag'], cls)
              return bad
        return None
      yield 'views after fit and refit %s rep=%d' % (cls, rep), ALL_TAGS, thunk


def run(tier, seed):
  n = 0
  vio = []
  samples = []
  distinct = set()
  sigs = set()
  for desc, tags, thunk in cases(tier, seed):
    n += 1
    distinct.add(desc)
    if n % 211 == 1 and len(samples) < 8:
      samples.append(desc)
    bad = thunk()
    if bad and bad['signature'] not in sigs and len(vio) < 40:
      sigs.add(bad['signature'])
      vio.append(dict(clause='runtime/C02/%s' % bad['tag'], input=bad['input'], observed=bad['observed'],
                      signature=bad['signature'], function=bad['fn']))
  return dict(cases=n, distinct_nontrivial=len(distinct),
              rule='17 estimator classes (fitted state set directly) x transformations {identity, random, low-rank k<d, rank-deficient, tiny, huge, zero} x '
                   'query-pair batches at magnitudes 1e-8..1e8 (generic, duplicate, near-duplicate, mixed-scale, antipodal pairs) for the agreement of the views, '
                   'plus per (class, L) the array-like variants {list, tuple, Fortran, non-contiguous rows/features, int64/int32, single-pair batches, '
                   'index pairs / index points through a preprocessor}; distinct = (kind, class, n_features, L kind, magnitude)',
              bound='n_features %s; batches of %d pairs, %d batch(es) per configuration; one violation reported per signature (max 40)'
                    % ('3' if tier == 'quick' else '1,2,3,5,8', 6 if tier == 'quick' else 10, 1 if tier == 'quick' else 3),
              standin_samples=samples, violations=vio)


def replay_clause(cid, fail, seed):
  target = cid.split('[')[0]
  first = None
  for desc, tags, thunk in cases('quick', seed):
    bad = thunk()
    if bad:
      rec = dict(failing_input=bad['input'], observed='%s: %s' % (bad['tag'], bad['observed']))
      if bad['fn'] == target or target not in ALL_TAGS:
        return rec
      first = first or rec
  return first or dict(note='no failing input among the quick stand-in cases')
