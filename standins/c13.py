"""C13 bounded stand-in / replay: SDML.fit of the REAL code on generated labelled pair sets; the property statement is the
oracle.  bounded -- not proved.

For every instance the input matrix of the graphical lasso  S = M0^-1 + balance_param * sum_i y_i v_i v_i^T  is formed
independently (M0 is the documented prior option; its inverse is taken here with np.linalg.inv) and the instance is
classified:

  S positive definite   M = get_mahalanobis_matrix() must be finite, symmetric, positive definite, and its objective
                        f(M) = tr(S M) - logdet M + sparsity_param * ||M||_1,off  must not exceed the objective of an
                        independently computed positive definite matrix by more than the solver tolerance (1e-3
                        relative).  The reference is the best of: an ADMM solver written here, and scikit-learn's
                        public graphical_lasso run here with tol = 1e-8 and 1000 iterations.  Any positive definite
                        matrix is feasible, so f(reference) is an upper bound of the optimum whatever the reference
                        solvers did: the comparison  f(M) <= f(reference) + tolerance  is sound (one-sided).
                        "Within solver tolerance" presupposes that the solver reached its tolerance: when the solver
                        itself announces (ConvergenceWarning) that it did not, the objective clause is not evaluated
                        for that instance (all other clauses are); set STRICT_NONCONVERGED = True to evaluate it anyway.
                        A RuntimeError is accepted only when the solver indeed cannot produce a finite SPD matrix for
                        that S (scikit-learn's public graphical_lasso with its defaults fails too).
  S not positive definite (large balance_param; the failure clause)
                        the outcome is either a finite symmetric positive definite M or RuntimeError; never another
                        exception type, never a non-finite / non-PSD result.
  n_features = 1        ValueError.
"""
import collections
import warnings

import numpy as np

from .common import repo

TAG = 'sdml:_BaseSDML._fit'
STATS = collections.Counter()   # outcome classes of the instances of the last run (reported in `rule`)
RTOL = 1e-3           # "within solver tolerance": relative (absolute below |f| = 1) objective gap allowed
STRICT_NONCONVERGED = False   # True: demand the objective gap also of fits during which the solver warned "did not converge"
PRIORS = ('identity', 'covariance', 'random', 'array')
ALPHAS = (0.001, 0.01, 0.1, 0.5, 1.0)
PD_FRACTIONS = (0.2, 0.6, 0.9)      # balance_param as a fraction of the largest value that keeps S positive definite
NONPD_FACTORS = (1.5, 10.0, 100.0)  # ... and as a multiple of it (S gets a negative eigenvalue)


# ---------------------------------------------------------------------------------------------- independent oracle
def objective(S, M, alpha):
  sign, logdet = np.linalg.slogdet(M)
  if sign <= 0 or not np.isfinite(logdet):
    return np.inf
  return float(np.sum(S * M) - logdet + alpha * (np.abs(M).sum() - np.abs(np.diag(M)).sum()))


def admm(S, alpha, iters=3000, tol=1e-10):
  """graphical lasso (off-diagonal l1 penalty) by ADMM with residual balancing (Boyd et al. 2011, sections 6.5 and
  3.4.1); the returned iterate is positive definite by construction"""
  d = S.shape[0]
  scale = np.trace(S) / d
  rho = scale * scale
  Z = np.diag(1.0 / np.diag(S))
  U = np.zeros((d, d))
  off = ~np.eye(d, dtype=bool)
  Theta = Z
  for k in range(iters):
    w, V = np.linalg.eigh(rho * (Z - U) - S)
    th = (w + np.sqrt(w * w + 4.0 * rho)) / (2.0 * rho)
    Theta = (V * th).dot(V.T)
    T = Theta + U
    Znew = T.copy()
    Znew[off] = np.sign(T[off]) * np.maximum(np.abs(T[off]) - alpha / rho, 0.0)
    U = U + Theta - Znew
    r = np.linalg.norm(Theta - Znew)
    s = rho * np.linalg.norm(Znew - Z)
    Z = Znew
    nz = max(np.linalg.norm(Z), 1e-300)
    if r <= tol * nz and s <= tol * rho * nz:
      break
    if k % 20 == 19:
      if r * rho > 10 * s:
        rho *= 2.0
        U /= 2.0
      elif s > 10 * r * rho:
        rho /= 2.0
        U *= 2.0
  return (Theta + Theta.T) / 2


def reference_objective(S, alpha):
  """smallest objective value among independently computed positive definite candidates (an upper bound of the optimum)"""
  from sklearn.covariance import graphical_lasso
  best = objective(S, np.linalg.inv(S), alpha)      # the unpenalised optimum is feasible too
  try:
    best = min(best, objective(S, admm(S, alpha), alpha))
  except np.linalg.LinAlgError:
    pass
  with warnings.catch_warnings():
    warnings.simplefilter('ignore')
    try:
      _, P = graphical_lasso(S, alpha=alpha, tol=1e-8, enet_tol=1e-8, max_iter=1000)[:2]
      best = min(best, objective(S, (P + P.T) / 2, alpha))
    except Exception:
      pass
  return best


def solver_succeeds(S, alpha):
  """can scikit-learn's graphical lasso (defaults, as SDML calls it) produce a finite SPD matrix for this input?
  Both the public entry point and the private one started from S + 1e-10 I (what SDML passes) must succeed."""
  from sklearn.covariance import graphical_lasso
  runs = [lambda: graphical_lasso(S, alpha=alpha)[1]]
  try:
    from sklearn.covariance._graph_lasso import _graphical_lasso
    runs.append(lambda: _graphical_lasso(S, alpha=alpha, cov_init=S + 1e-10 * np.eye(len(S)))[1])
  except ImportError:
    pass
  with warnings.catch_warnings():
    warnings.simplefilter('ignore')
    for r in runs:
      try:
        P = r()
      except Exception:
        return False
      if not (np.isfinite(P).all() and np.linalg.eigvalsh((P + P.T) / 2).min() > 0):
        return False
  return True


# ---------------------------------------------------------------------------------------------------- instances
def specs(tier, seed):
  """plain-data descriptions of the generated instances"""
  rng = np.random.RandomState(seed)
  n_main = 25 if tier == 'quick' else 100
  out = []
  for k in range(n_main):
    d = 2 + k % 4
    prior = PRIORS[(k // 4) % 4]
    regime = 'nonPD' if k % 5 == 4 else 'PD'
    n = int(rng.randint(d + 4, 31))
    scale = (0.3, 1.0, 4.0)[int(rng.randint(3))]
    pairs = rng.randn(n, 2, d) * scale
    if k % 7 == 3:       # correlated features
      pairs = pairs.dot(rng.randn(d, d))
    if k % 3 == 1:       # a hub: one point shared by several pairs (the documented 'covariance' prior is that of the DISTINCT points)
      pairs[1::3, 0] = pairs[0, 0]
    y = np.where(rng.rand(n) < (0.5, 0.7, 0.85)[int(rng.randint(3))], 1, -1)
    y[0], y[1] = 1, -1
    storage = {}
    if k % 6 == 2:
      # the same numbers held in a narrow floating-point dtype: 8-bit grey levels (exact in float16, and so are their differences); the
      # documented matrix is that of the NUMBERS -- sums of 65025-sized products must not be accumulated in float16
      pairs = np.round(rng.rand(n, 2, d) * 255.0)
      storage['pairs_dtype'] = ('float16', 'float32')[(k // 6) % 2]
    if prior == 'array' and k % 2 == 1:
      storage['prior_dtype'] = 'float32'
    out.append(dict(index=k, d=d, prior=prior, regime=regime, pairs=pairs, y=y, alpha=ALPHAS[int(rng.randint(len(ALPHAS)))],
                    level=int(rng.randint(3)), prior_seed=int(rng.randint(1 << 30)), bp_free=(0.05, 0.5, 3.0)[int(rng.randint(3))], **storage))
  for k, prior in enumerate(PRIORS if tier != 'quick' else PRIORS[:2]):
    pairs = rng.randn(8, 2, 1)
    y = np.array([1, -1] * 4)
    out.append(dict(index=n_main + k, d=1, prior=prior, regime='d1', pairs=pairs, y=y, alpha=0.01, level=0,
                    prior_seed=int(rng.randint(1 << 30)), bp_free=0.5))
  return out


def prior_argument(spec):
  from sklearn.datasets import make_spd_matrix
  if spec['prior'] == 'array':
    A = make_spd_matrix(spec['d'], random_state=spec['prior_seed']) if spec['d'] > 1 else np.array([[1.5]])
    A = A * (0.5, 1.0, 3.0)[spec['prior_seed'] % 3]
    if spec.get('prior_dtype') == 'float32':
      A = A.astype(np.float32).astype(float)       # the numbers a float32 matrix can hold (handed over as float32 by `handed_prior`)
      A = (A + A.T) / 2
    return A
  return spec['prior']


def handed_prior(spec, prior):
  """the prior argument in the storage the instance names"""
  if isinstance(prior, np.ndarray) and spec.get('prior_dtype') == 'float32':
    return prior.astype(np.float32)
  return prior


def handed_pairs(spec):
  return spec['pairs'].astype(spec['pairs_dtype']) if spec.get('pairs_dtype') else spec['pairs']


def build(spec):
  """-> (prior argument, balance_param, S, is_pd) ; M0 is the documented prior option (C20 contract of the initialiser)"""
  repo()
  from metric_learn._util import _initialize_metric_mahalanobis
  prior = prior_argument(spec)
  with warnings.catch_warnings():
    warnings.simplefilter('ignore')
    M0 = _initialize_metric_mahalanobis(spec['pairs'], prior, random_state=spec['prior_seed'], strict_pd=True,
                                        matrix_name='prior')
  if spec['prior'] == 'covariance':
    # independent of the initialiser: the documented meaning, inverse covariance of the distinct training points
    pts = np.unique(spec['pairs'].reshape(-1, spec['d']), axis=0)
    M0 = np.linalg.inv(np.atleast_2d(np.cov(pts, rowvar=False)))
  M0inv = np.linalg.inv(M0)
  M0inv = (M0inv + M0inv.T) / 2
  v = spec['pairs'][:, 0] - spec['pairs'][:, 1]
  Lm = sum(yi * np.outer(vi, vi) for yi, vi in zip(spec['y'], v))
  # largest balance_param keeping S positive definite: -1 / lambda_min(M0^{1/2} L M0^{1/2})
  w0, V0 = np.linalg.eigh(M0)
  R = (V0 * np.sqrt(w0)).dot(V0.T)
  mu = np.linalg.eigvalsh(R.dot(Lm).dot(R)).min()
  if mu < -1e-12:
    crit = -1.0 / mu
    bp = crit * (PD_FRACTIONS[spec['level']] if spec['regime'] != 'nonPD' else NONPD_FACTORS[spec['level']])
  else:
    bp = spec['bp_free']
  bp = float(bp)
  S = M0inv + bp * Lm
  ev = np.linalg.eigvalsh(S)
  kind = 'PD' if ev.min() > 1e-6 * ev.max() else ('nonPD' if ev.min() < -1e-6 * ev.max() else 'borderline')
  return prior, bp, S, kind


def describe(spec):
  return 'SDML d=%d prior=%s regime=%s alpha=%g level=%d #%d%s%s' % (spec['d'], spec['prior'], spec['regime'], spec['alpha'],
                                                                      spec['level'], spec['index'],
                                                                      ' pairs as ' + spec['pairs_dtype'] if spec.get('pairs_dtype') else '',
                                                                      ' prior as float32' if spec.get('prior_dtype') and spec['prior'] == 'array' else '')


def check(spec):
  ml = repo()
  if spec['d'] < 2:
    prior, bp, S, kind = prior_argument(spec), spec['bp_free'], None, 'd1'
  else:
    prior, bp, S, kind = build(spec)
  alpha = spec['alpha']
  inp = dict(estimator='SDML', prior=prior.tolist() if isinstance(prior, np.ndarray) else prior, random_state=spec['prior_seed'],
             balance_param=bp, sparsity_param=alpha, pairs=spec['pairs'].tolist(), y=spec['y'].tolist(),
             graphical_lasso_input_is=kind)

  def bad(tag, observed):
    return dict(tag=tag, observed=observed, input=inp, klass='SDML prior=%s S=%s: %s' % (spec['prior'], kind if spec['d'] > 1 else 'd1', tag))

  if spec.get('pairs_dtype'):
    inp['pairs_given_as'] = spec['pairs_dtype']
  if spec.get('prior_dtype') and isinstance(prior, np.ndarray):
    inp['prior_given_as'] = spec['prior_dtype']
  est = ml.SDML(balance_param=bp, sparsity_param=alpha, prior=handed_prior(spec, prior), random_state=spec['prior_seed'])
  with warnings.catch_warnings(record=True) as caught:
    warnings.simplefilter('always')
    try:
      est.fit(handed_pairs(spec), spec['y'])
      raised = None
    except Exception as e:     # classified below
      raised = e
  from sklearn.exceptions import ConvergenceWarning
  nonconverged = any(issubclass(w.category, ConvergenceWarning) for w in caught)
  if spec['d'] < 2:
    if isinstance(raised, ValueError):
      STATS['n_features=1: ValueError'] += 1
      return None
    return bad('n_features-lt-2-raises-ValueError', 'returned' if raised is None else '%s: %s' % (type(raised).__name__, raised))
  if kind == 'borderline':
    return None
  if raised is not None:
    if not isinstance(raised, RuntimeError):
      return bad('failure-is-RuntimeError', '%s: %s' % (type(raised).__name__, str(raised)[:300]))
    if kind == 'PD' and solver_succeeds(S, alpha):
      return bad('returns-when-solver-succeeds',
                 'RuntimeError although graphical_lasso(S, alpha) yields a finite SPD matrix: %s' % str(raised)[-200:])
    STATS['%s input: RuntimeError' % kind] += 1
    return None
  M = est.get_mahalanobis_matrix()
  if M.shape != S.shape or not np.isfinite(M).all():
    return bad('result-finite', 'M = %r' % (M.tolist(),))
  if np.abs(M - M.T).max() > 1e-12 * np.abs(M).max():
    return bad('result-symmetric', 'max |M - M^T| = %g' % np.abs(M - M.T).max())
  ev = np.linalg.eigvalsh((M + M.T) / 2)
  if ev.min() <= -len(ev) * np.finfo(float).eps * ev.max() or ev.max() <= 0 or (kind == 'PD' and ev.min() <= 0):
    return bad('result-positive-definite', 'eigenvalues of M: %r' % (ev.tolist(),))
  if kind != 'PD':
    STATS['nonPD input: valid SPD result'] += 1
    return None
  if nonconverged and not STRICT_NONCONVERGED:
    STATS['PD input: solver announced non-convergence, objective clause not evaluated'] += 1
    return None
  STATS['PD input: objective compared'] += 1
  f = objective(S, (M + M.T) / 2, alpha)
  ref = reference_objective(S, alpha)
  if not f <= ref + RTOL * max(1.0, abs(ref)):
    return bad('objective-gap', 'objective of the learned M = %.10g, of an independently computed PD matrix = %.10g (gap %.3g, allowed %.3g)'
               % (f, ref, f - ref, RTOL * max(1.0, abs(ref))))
  return None


def cases(tier, seed):
  for spec in specs(tier, seed):
    yield describe(spec), (TAG,), (lambda spec=spec: check(spec))


def run(tier, seed):
  n = 0
  vio = []
  samples = []
  distinct = set()
  STATS.clear()
  for spec in specs(tier, seed):
    n += 1
    desc = describe(spec)
    distinct.add(desc)
    if len(samples) < 6 and n % 5 == 1:
      samples.append(desc)
    try:
      bad = check(spec)
    except Exception as e:   # the harness itself must not hide a crash of the oracle
      bad = dict(tag='oracle-error', observed='%s: %s' % (type(e).__name__, e), input=desc, klass='oracle error')
    if bad:
      vio.append(dict(clause='runtime/C13/%s' % bad['tag'], input=bad['input'], observed=bad['observed'], signature=bad['klass']))
  return dict(cases=n, distinct_nontrivial=len(distinct),
              rule='generated labelled pair sets (6..30 pairs, both labels, three scales, some with correlated features) x prior in '
                   '{identity, covariance, random, SPD array} x sparsity_param in {0.001..1} x balance_param placed relative to the largest '
                   'value keeping the graphical-lasso input S positive definite (0.2/0.6/0.9 of it: main clause; 1.5/10/100 times it: '
                   'failure clause), plus n_features = 1; S computed here from the documented prior; distinct = (d, prior, regime, alpha, level, index). '
                   'Outcomes: %s' % '; '.join('%s = %d' % kv for kv in sorted(STATS.items())),
              bound='n_features 2..5 (and 1 for the ValueError clause), <= 30 pairs, %d instances; objective gap tolerance %g relative'
                    % (n, RTOL),
              standin_samples=samples, violations=vio)


def replay_clause(cid, fail, seed):
  want = cid.split('/')[-1] if cid.startswith('runtime/') else None
  first = None
  for desc, tags, thunk in cases('quick', seed):
    bad = thunk()
    if bad:
      if want is None or bad['tag'] == want:
        return dict(failing_input=bad['input'], observed=bad['observed'])
      first = first or bad
  if first:
    return dict(failing_input=first['input'], observed=first['observed'])
  return dict(note='no failing input among the quick stand-in cases')
