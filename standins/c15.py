"""C15 bounded stand-in / replay: run-time contract of the property on the REAL SCML / SCML_Supervised fit.
bounded -- not proved.

What is observed (no source change): the basis and the weight vector that `_fit` hands to
`_components_from_basis_weights` (that method is wrapped on the instance at run time), the triplets handed to `_fit`
(wrapped likewise; needed for SCML_Supervised whose triplets are built inside fit), the warnings issued by fit,
`components_` and `get_mahalanobis_matrix()`.

Oracle clauses (names are the `tag` of a violation):
  fit-completes        fit returns for an input inside the property's quantifier (generated bases)
  array-basis          basis=<ndarray> is fitted and the basis in use is the supplied array
  weights-nonnegative  every weight handed to the components builder is >= 0
  combination          get_mahalanobis_matrix() == sum_i w_i b_i b_i^T over the basis in use (allclose)
  psd                  hence PSD: smallest eigenvalue >= -tolerance
  rank-and-warning     #active < n_features: components_ has #active rows and a warning says so; else (d, d)
  generated-basis      generated bases (triplet_diffs, lda) have n_basis rows of unit norm
  documented-scheme    the weights equal those of the documented stochastic dual-averaging scheme for the given integer
                       random_state at a checkpoint of lowest regularised hinge objective.  The scheme is evaluated by
                       `dual_averaging` below, written from its description (mini-batch hinge sub-gradient with margin 1,
                       running mean of the sub-gradients, AdaGrad scaling with delta = 0.001, proximal step with negative
                       trimming, objective = beta*sum(w) + mean hinge every output_iter iterations) in 1-D per-coordinate
                       form; it shares with the library only the documented source of the batches:
                       check_random_state(random_state).randint(0, n_triplets, (max_iter, batch_size)).
                       A case whose replay comes within 1e-9 of a hinge kink (margin == 0) is inconclusive and skipped;
                       if several checkpoints tie for the lowest objective (1e-12 relative) any of them is accepted.
"""
import warnings

import numpy as np

from .common import repo

TAG_FIT = 'scml:_BaseSCML._fit'
TAG_CBW = 'scml:_BaseSCML._components_from_basis_weights'
TAG_INIT = 'scml:_BaseSCML._initialize_basis'
TAG_GEN = 'scml:_BaseSCML._generate_bases_dist_diff'
TAG_LDA = 'scml:SCML_Supervised._generate_bases_LDA'

DELTA = 0.001


def single_thread():
  """tiny problems: one BLAS/OpenMP thread is faster and keeps the wall time independent of the machine load"""
  try:
    from threadpoolctl import threadpool_limits
    return threadpool_limits(limits=1)
  except Exception:
    import contextlib
    return contextlib.nullcontext()


# ---------------------------------------------------------------------------------------------------------------
# independent evaluation of the documented scheme
# ---------------------------------------------------------------------------------------------------------------
def triplet_margins(triplets, basis):
  """D[t, i] = (b_i . (a_t - p_t))^2 - (b_i . (a_t - n_t))^2  for triplets (a, p, n)"""
  T = np.asarray(triplets, dtype=float)
  P = np.einsum('tkd,id->tki', T, basis)          # projections of every point on every basis direction
  return np.square(P[:, 0, :] - P[:, 1, :]) - np.square(P[:, 0, :] - P[:, 2, :])


def dual_averaging(D, beta, gamma, batch_size, max_iter, output_iter, random_state):
  """-> (list of (t, objective, w) at the evaluation checkpoints, smallest |margin| met: closeness to a hinge kink)"""
  from sklearn.utils import check_random_state
  n, K = D.shape
  draws = check_random_state(random_state).randint(0, n, size=(max_iter, batch_size))
  w = np.zeros(K)
  g_sum = np.zeros(K)        # sum of the sub-gradients so far (running mean = g_sum / t)
  g_sq = np.zeros(K)         # sum of their squares (AdaGrad accumulator)
  kink = np.inf
  out = []
  for t in range(1, max_iter + 1):
    rows = D[draws[t - 1]]
    m = 1.0 + rows.dot(w)
    kink = min(kink, np.abs(m).min())
    g = rows[m > 0].sum(axis=0) / batch_size
    g_sum = g_sum + g
    g_sq = g_sq + g * g
    step = t / (gamma * (DELTA + np.sqrt(g_sq)))
    w = step * np.maximum(-(g_sum / t + beta), 0.0)
    if t % output_iter == 0:
      m_all = 1.0 + D.dot(w)
      kink = min(kink, np.abs(m_all).min())
      obj = beta * w.sum() + np.maximum(m_all, 0.0).sum() / n
      out.append((t, obj, w.copy()))
  return out, kink


# ---------------------------------------------------------------------------------------------------------------
# inputs
# ---------------------------------------------------------------------------------------------------------------
def make_triplets(rng, d, n_triplets, kind):
  """triplets (n_triplets, 3, d) drawn from a pool of points (points are shared between triplets)"""
  if kind == 'iid':
    return rng.randn(n_triplets, 3, d)
  m = max(6, min(3 * n_triplets, 40))
  lab = np.arange(m) % 2
  X = rng.randn(m, d) + 2.5 * lab[:, None] * (np.arange(d) == 0)
  T = np.zeros((n_triplets, 3, d))
  for t in range(n_triplets):
    a = rng.randint(m)
    same = np.flatnonzero((lab == lab[a]) & (np.arange(m) != a))
    other = np.flatnonzero(lab != lab[a])
    if kind == 'reversed' and t % 3 == 0:
      same, other = other, same
    T[t] = X[[a, rng.choice(same), rng.choice(other)]]
  return T


def make_labelled(rng, d, n_classes, per_class):
  y = np.repeat(np.arange(n_classes), per_class)
  centers = rng.randn(n_classes, d) * 2.0
  X = centers[y] + rng.randn(len(y), d)
  perm = rng.permutation(len(y))
  return X[perm], y[perm]


MAXOUT = [(1, 1), (10, 10), (20, 5), (50, 7), (30, 1), (60, 20), (200, 25), (120, 40)]
BETAS = [0.0, 1e-5, 1e-2, 0.3, 2.0]
GAMMAS = [5e-3, 0.05, 1.0, 20.0]
BATCH = [1, 3, 10, 50]


def configurations(tier, seed):
  """deterministic list of configuration dicts"""
  rng = np.random.RandomState(seed)
  n_unsup, n_sup, n_arr = (150, 60, 12) if tier == 'quick' else (1500, 500, 60)
  out = []
  for i in range(n_unsup):
    d = [1, 2, 3, 5][i % 4]
    n_tr = [d, d + 1, 12, 40][(i // 4) % 4]
    n_tr = max(n_tr, d)
    mi, oi = MAXOUT[i % len(MAXOUT)]
    out.append(dict(cls='SCML', basis='triplet_diffs', d=d, n_triplets=n_tr, kind=['iid', 'pool', 'reversed'][i % 3],
                    n_basis=[1, d, 2 * d + 1, 12][(i // 2) % 4], beta=BETAS[rng.randint(len(BETAS))],
                    gamma=GAMMAS[rng.randint(len(GAMMAS))], batch_size=BATCH[rng.randint(len(BATCH))],
                    max_iter=mi, output_iter=oi, random_state=int(rng.randint(0, 1000) if i % 5 else i % 2),
                    data_seed=int(rng.randint(0, 2 ** 31 - 1))))
  for i in range(n_sup):
    d = [2, 3, 4][i % 3]
    n_classes = [2, 3][(i // 3) % 2]
    mi, oi = MAXOUT[(i + 3) % len(MAXOUT)]
    basis = ['lda', 'triplet_diffs'][(i // 2) % 2] if i % 7 else 'lda'
    out.append(dict(cls='SCML_Supervised', basis=basis, d=d, n_classes=n_classes, per_class=[8, 12][i % 2],
                    k_genuine=[1, 2][i % 2], k_impostor=[2, 3][(i // 2) % 2],
                    n_basis=[2, d, 2 * d + 1, 9][(i // 2) % 4], beta=BETAS[rng.randint(len(BETAS))],
                    gamma=GAMMAS[rng.randint(len(GAMMAS))], batch_size=BATCH[rng.randint(len(BATCH))],
                    max_iter=mi, output_iter=oi, random_state=int(rng.randint(0, 1000)),
                    data_seed=int(rng.randint(0, 2 ** 31 - 1))))
  for i in range(n_arr):
    d = [2, 3, 1][i % 3]
    mi, oi = MAXOUT[(i + 1) % len(MAXOUT)]
    cfg = dict(cls=['SCML', 'SCML_Supervised'][(i // 3) % 2], basis='array', d=d,
               n_basis=[d, 1, 2 * d + 1][(i // 2) % 3], array_kind=['random', 'identity-rows', 'unnormalised'][i % 3],
               beta=BETAS[rng.randint(len(BETAS))], gamma=GAMMAS[rng.randint(len(GAMMAS))],
               batch_size=BATCH[rng.randint(len(BATCH))], max_iter=mi, output_iter=oi,
               random_state=int(rng.randint(0, 1000)), data_seed=int(rng.randint(0, 2 ** 31 - 1)),
               int_data=(i % 4 == 1))       # training points of integer dtype (a grid): the supplied FLOAT basis is still the basis in use
    if cfg['cls'] == 'SCML':
      cfg.update(n_triplets=max(d, 10), kind='pool')
    else:
      cfg.update(d=max(d, 2), n_classes=2, per_class=8, k_genuine=2, k_impostor=2)
    out.append(cfg)
  return out


def describe(cfg):
  bits = '%s basis=%s d=%d n_basis=%s' % (cfg['cls'], cfg['basis'], cfg['d'], cfg['n_basis'])
  bits += ' low-rank' if cfg['n_basis'] < cfg['d'] else ''
  bits += ' beta=%g gamma=%g batch=%d iters=%d/%d' % (cfg['beta'], cfg['gamma'], cfg['batch_size'], cfg['max_iter'], cfg['output_iter'])
  return bits


# ---------------------------------------------------------------------------------------------------------------
# one case
# ---------------------------------------------------------------------------------------------------------------
def check_case(ml, cfg):
  """-> None or (clause name, observed)"""
  rng = np.random.RandomState(cfg['data_seed'])
  d = cfg['d']
  kw = dict(beta=cfg['beta'], gamma=cfg['gamma'], batch_size=cfg['batch_size'], max_iter=cfg['max_iter'],
            output_iter=cfg['output_iter'], random_state=cfg['random_state'])
  given = None
  if cfg['cls'] == 'SCML':
    data = (make_triplets(rng, d, cfg['n_triplets'], cfg['kind']),)
  else:
    data = make_labelled(rng, d, cfg['n_classes'], cfg['per_class'])
    kw.update(k_genuine=cfg['k_genuine'], k_impostor=cfg['k_impostor'])
  if cfg.get('int_data'):
    data = (np.round(np.asarray(data[0]) * 4).astype(np.int64),) + tuple(data[1:])
  if cfg['basis'] == 'array':
    nb = cfg['n_basis']
    if cfg['array_kind'] == 'identity-rows':
      given = np.eye(d)[np.arange(nb) % d]
    else:
      given = rng.randn(nb, d)
      if cfg['array_kind'] == 'random':
        given /= np.linalg.norm(given, axis=1, keepdims=True)
    kw.update(basis=given.copy(), n_basis=None)
  else:
    kw.update(basis=cfg['basis'], n_basis=cfg['n_basis'])
  est = getattr(ml, cfg['cls'])(**kw)

  seen = {}
  inner_cbw = est._components_from_basis_weights
  inner_fit = est._fit

  def spy_cbw(basis, w):
    seen['basis'] = np.array(basis, dtype=float, copy=True)
    seen['w'] = np.array(w, dtype=float, copy=True)
    return inner_cbw(basis, w)

  def spy_fit(triplets, *a, **k):
    seen['triplets'] = np.array(triplets, dtype=float, copy=True)
    return inner_fit(triplets, *a, **k)

  est._components_from_basis_weights = spy_cbw
  est._fit = spy_fit
  with warnings.catch_warnings(record=True) as caught:
    warnings.simplefilter('always')
    try:
      with np.errstate(all='ignore'), single_thread():
        est.fit(*data)
    except Exception as e:
      return ('array-basis' if given is not None else 'fit-completes'), 'fit raises %s: %s' % (type(e).__name__, str(e)[:200])
  if 'basis' not in seen or 'triplets' not in seen:
    return 'fit-completes', 'the components builder / _fit was not reached through the instance'
  B, w_obs, T = seen['basis'], seen['w'], seen['triplets']
  if T.ndim != 3 or T.shape[1:] != (3, d):
    return 'fit-completes', 'triplets handed to _fit have shape %r' % (T.shape,)
  if T.shape[0] < d:
    return None          # outside the quantifier (n_triplets >= n_features)

  # --- basis in use
  if given is not None:
    if B.shape != given.shape or not np.array_equal(B, given):
      return 'array-basis', 'basis in use differs from the supplied array: shape %r vs %r' % (B.shape, given.shape)
  else:
    if B.shape != (cfg['n_basis'], d):
      return 'generated-basis', 'basis shape %r, expected %r' % (B.shape, (cfg['n_basis'], d))
    norms = np.linalg.norm(B, axis=1)
    if not np.allclose(norms, 1.0, rtol=0, atol=1e-8):
      return 'generated-basis', 'row norms of the generated basis: %r' % (norms.tolist(),)
  K = B.shape[0]

  # --- weights
  if w_obs.size != K:
    return 'weights-nonnegative', 'weight vector of size %d for %d basis elements' % (w_obs.size, K)
  w_obs = w_obs.reshape(K)
  if not np.all(np.isfinite(w_obs)) or np.any(w_obs < 0):
    return 'weights-nonnegative', 'weights %r' % (w_obs.tolist(),)

  # --- M = sum w_i b_i b_i^T, PSD
  M_ref = np.zeros((d, d))
  for i in range(K):
    M_ref += w_obs[i] * np.outer(B[i], B[i])
  M = est.get_mahalanobis_matrix()
  scale = max(np.abs(M_ref).max(), 1e-300)
  if M.shape != (d, d) or not np.allclose(M, M_ref, rtol=1e-7, atol=1e-8 * scale):
    return 'combination', 'get_mahalanobis_matrix() = %r but sum w_i b_i b_i^T = %r' % (np.asarray(M).tolist(), M_ref.tolist())
  ev = np.linalg.eigvalsh((M + M.T) / 2)
  if ev.min() < -1e-8 * scale:
    return 'psd', 'smallest eigenvalue of the learned M: %r' % ev.min()

  # --- rank and warning
  active = int((w_obs > 0).sum())
  L = est.components_
  if active < d:
    if L.shape != (active, d):
      return 'rank-and-warning', '%d active basis elements < n_features=%d but components_ has shape %r' % (active, d, L.shape)
    said = [str(c.message) for c in caught if 'dimension' in str(c.message).lower() or 'rank' in str(c.message).lower()]
    if not said:
      return 'rank-and-warning', '%d active basis elements < n_features=%d and no warning says so (warnings: %r)' % (
          active, d, [str(c.message)[:60] for c in caught])
  elif L.shape != (d, d):
    return 'rank-and-warning', '%d active basis elements >= n_features=%d but components_ has shape %r' % (active, d, L.shape)

  # --- the documented scheme
  D = triplet_margins(T, B)
  cps, kink = dual_averaging(D, cfg['beta'], cfg['gamma'], cfg['batch_size'], cfg['max_iter'], cfg['output_iter'],
                             cfg['random_state'])
  if kink < 1e-9 or not all(np.isfinite(o) for _, o, _ in cps):
    return None          # inconclusive: the replay passes through a hinge kink / overflows
  best = min(o for _, o, _ in cps)
  ok = [(t, o, w) for t, o, w in cps if o <= best + 1e-12 * max(1.0, abs(best))]
  wscale = max(max(np.abs(w).max() for _, _, w in cps), 1e-300)
  if not any(np.allclose(w_obs, w, rtol=1e-6, atol=1e-9 * wscale) for _, _, w in ok):
    t0, o0, w0 = ok[0]
    where = [t for t, o, w in cps if np.allclose(w_obs, w, rtol=1e-6, atol=1e-9 * wscale)]
    return 'documented-scheme', ('weights handed to the components builder %r; documented scheme: lowest objective %.12g at iteration %d '
                                 'with weights %r%s' % (np.round(w_obs, 8).tolist(), o0, t0, np.round(w0, 8).tolist(),
                                                        ('; the observed weights are those of checkpoint(s) %r with objective %r' % (
                                                            where, [o for t, o, w in cps if t in where])) if where else
                                                        '; the observed weights match no checkpoint'))
  return None


def signature(cfg, clause):
  if cfg['basis'] == 'array':
    return 'basis=<ndarray>'
  return '%s basis=%s' % (cfg['cls'], cfg['basis'])


def cases(tier, seed):
  ml = repo()
  for cfg in configurations(tier, seed):
    tags = [TAG_FIT, TAG_CBW]
    if cfg['basis'] == 'array':
      tags.append(TAG_INIT)
    elif cfg['basis'] == 'lda':
      tags.append(TAG_LDA)
    else:
      tags += [TAG_GEN, TAG_INIT]

    def thunk(cfg=cfg):
      try:
        bad = check_case(ml, cfg)
      except Exception as e:     # an oracle-side failure must not pass silently
        bad = ('fit-completes', 'oracle raised %s: %s' % (type(e).__name__, e))
      if bad:
        return dict(tag=bad[0], observed=bad[1],
                    input=dict(cfg, signature=signature(cfg, bad[0]),
                               rerun='standins.c15.check_case(standins.common.repo(), <this dict>): data from make_triplets / make_labelled '
                                     'with RandomState(data_seed); basis=array: rng.randn(n_basis, d) drawn after the data'))
      return None
    yield describe(cfg), tuple(tags), thunk


def run(tier, seed):
  n = 0
  vio = []
  seen_vio = {}
  samples = []
  distinct = set()
  for desc, tags, thunk in cases(tier, seed):
    n += 1
    distinct.add(desc)
    if n % 37 == 1 and len(samples) < 8:
      samples.append(desc)
    bad = thunk()
    if bad:
      sig = bad['input'].pop('signature')
      key = (bad['tag'], sig)
      if key in seen_vio:
        seen_vio[key]['count'] += 1
        continue
      v = dict(clause='runtime/C15/%s' % bad['tag'], input=bad['input'], observed=bad['observed'], signature=sig, count=1)
      seen_vio[key] = v
      vio.append(v)
  return dict(cases=n, distinct_nontrivial=len(distinct),
              rule='SCML on generated triplet sets (iid / pooled / partly reversed) and SCML_Supervised on fully labelled data, basis in '
                   '{triplet_diffs, lda, supplied array}, parameters cycled/drawn from n_basis {1,d,2d+1,9..12}, beta {0,1e-5,1e-2,0.3,2}, '
                   'gamma {5e-3,0.05,1,20}, batch_size {1,3,10,50}, (max_iter, output_iter) in %r, integer seeds; basis and weights observed by '
                   'wrapping _components_from_basis_weights; distinct = distinct (class, basis, d, n_basis, beta, gamma, batch, iterations)' % (MAXOUT,),
              bound='n_features <= 5, n_triplets <= 40 (SCML) / <= 36 points x k (supervised), max_iter <= 200; %d configurations' % n,
              standin_samples=samples, violations=vio)


def replay_clause(cid, fail, seed):
  only = None
  want = None
  if cid.startswith('runtime/C15/'):
    want = cid.split('/')[2]
  else:
    target = cid.split('[')[0]
    if target in (TAG_FIT, TAG_CBW, TAG_INIT, TAG_GEN, TAG_LDA):
      only = {target}
  for desc, tags, thunk in cases('quick', seed):
    if only is not None and not (set(tags) & only):
      continue
    if want == 'array-basis' and 'basis=array' not in desc:
      continue
    bad = thunk()
    if bad and (want is None or bad['tag'] == want):
      return dict(failing_input=bad['input'], observed=bad['observed'])
  return dict(note='no failing input among the quick stand-in cases')
