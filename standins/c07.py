"""C07 bounded stand-in / replay: the property statement as an executable oracle on the REAL
metric_learn.constraints (Constraints.positive_negative_pairs, .chunks, .generate_knntriplets, wrap_pairs).
bounded -- not proved.

Bounded-exhaustive: every label vector over {-1,0,1,2} up to the stated length for which a constraint of the requested
kind exists x parameters in 1..3 x a few integer seeds (x small point sets with duplicates and ties for the k-NN part).
Everything is judged in the CALLER's frame: indices must lie in [0, len(y)) and labels are looked up in the caller's y;
neighbour relations are evaluated by an independent O(n^2) table of squared distances of the caller's X.

Outside the property (skipped, counted): label vectors with no constraint of the requested kind, and draws on which the
rejection sampler found no pair at all in its ten rounds (the tuple unpacking in positive_negative_pairs then raises
ValueError; DESIGN.md C07 carries this as the ghost precondition len(ab) >= 1).
"""
import itertools
import os
import warnings

import numpy as np

from .common import repo

ALPHABET = (-1, 0, 1, 2)
T_PAIRS = 'constraints:Constraints.positive_negative_pairs'
T_PAIRS_ = 'constraints:Constraints._pairs'
T_WRAP = 'constraints:wrap_pairs'
T_CHUNKS = 'constraints:Constraints.chunks'
T_TRIP = 'constraints:Constraints.generate_knntriplets'
T_COMB = 'constraints:comb'

CONFIG = {
    # full_len: all label vectors up to this length; sample_len/frac: a seed-determined subset of the next length
    'replay': dict(full_len=5, sample_len=None, sample_frac=0.0, n_seeds=1, n_psets=1),
    'quick': dict(full_len=6, sample_len=7, sample_frac=0.03125, n_seeds=2, n_psets=2),
    'thorough': dict(full_len=7, sample_len=None, sample_frac=0.0, n_seeds=4, n_psets=4),
}
PARAMS = (1, 2, 3)
SKIPS = []        # run-time skips (sampler drew no pair): appended by thunks, read by the worker


# ---------------------------------------------------------------------------------------------------- generation

def label_vectors(cfg, seed):
  for n in range(1, cfg['full_len'] + 1):
    for y in itertools.product(ALPHABET, repeat=n):
      yield y
  if cfg['sample_len']:
    n = cfg['sample_len']
    keep = np.random.RandomState(seed).random_sample(len(ALPHABET) ** n) < cfg['sample_frac']
    for i, y in enumerate(itertools.product(ALPHABET, repeat=n)):
      if keep[i]:
        yield y


# "Points with negative (unknown) labels never appear in any constraint": every negative code is an unknown label, and the label vector may
# arrive in any integer dtype, as floats or as a list -- the constraints are those of the same labels held as an int64 array
LABEL_REPS = ('unknown=-2', 'unknown=-1/-3/-128 int8', 'uint8', 'uint16', 'float64', 'list', 'int32', 'int16 read-only')


def recode(y, rep):
  if rep == 'unknown=-2':
    return tuple(-2 if v < 0 else v for v in y)
  if rep.startswith('unknown=-1/-3/-128'):
    codes = (-1, -3, -128)
    return tuple(codes[i % 3] if v < 0 else v for i, v in enumerate(y))
  return tuple(y)


class LabelsAs(object):
  def __init__(self, rep, y):
    self.rep, self.y = rep, y

  def fresh(self):
    rep, y = self.rep, self.y
    if rep is None or rep.startswith('unknown=-2'):
      return np.array(y)
    if rep.endswith(' int8'):
      return np.array(y, dtype=np.int8)
    if rep in ('uint8', 'uint16'):
      return np.array(y, dtype=rep)
    if rep == 'float64':
      return np.array(y, dtype=float)
    if rep == 'list':
      return list(y)
    if rep == 'int32':
      return np.array(y, dtype=np.int32)
    if rep == 'int16 read-only':
      a = np.array(y, dtype=np.int16)
      a.setflags(write=False)
      return a
    raise RuntimeError('stand-in: unknown label representation %r' % rep)


def class_sizes(y):
  out = {}
  for v in y:
    if v >= 0:
      out[v] = out.get(v, 0) + 1
  return out


def int_seeds(cfg, seed):
  extra = np.random.RandomState(seed).randint(1, 2 ** 31 - 1, size=8).tolist()
  return ([0] + [int(s) for s in extra])[:cfg['n_seeds']]


def point_set(seed, n, j):
  """(name, X, exact?) -- small point sets; j selects the family.  exact: all squared distances are exactly
  representable, so ties are genuine ties and are compared without tolerance"""
  rng = np.random.RandomState([seed % (2 ** 31), n, j])
  if j == 0:
    return 'grid{0,1,2}^2', rng.randint(0, 3, size=(n, 2)).astype(float), True
  if j == 1:
    X = rng.randn(n, 3)
    if n >= 2:
      X[-1] = X[0]                 # one duplicated point
    if n >= 4:
      X[2] = X[1]
    return 'gauss3+duplicates', X, False
  if j == 2:
    return 'binary-1d', rng.randint(0, 2, size=(n, 1)).astype(float), True
  return 'gauss2*1e3', rng.randn(n, 2) * 1e3, False


def sq_dists(X):
  n = len(X)
  D = np.zeros((n, n))
  for i in range(n):
    for j in range(n):
      D[i, j] = float(np.sum((X[i] - X[j]) ** 2))
  return D


# -------------------------------------------------------------------------------------------------------- oracles

def unk(y):
  return 'with unknown labels' if any(v < 0 for v in y) else 'without unknown labels'


def bad(tag, fn, y, observed, **inp):
  d = dict(call=fn, y=[int(v) for v in y])
  d.update(inp)
  return dict(tag=tag, observed=observed, input=d, signature='%s %s' % (fn.split('(')[1].split('.')[-1] if fn.startswith('Constraints') else fn.split('(')[0], unk(y)))


def as_index_list(a, name):
  """-> (list of python ints, None) or (None, complaint)"""
  a = np.asarray(a)
  if a.ndim != 1:
    return None, '%s has shape %r, expected 1-D' % (name, a.shape)
  if a.size and not np.issubdtype(a.dtype, np.integer):
    return None, '%s has dtype %s, expected integer indicators' % (name, a.dtype)
  return [int(v) for v in a], None


def check_pairs(ml, y, n_c, same_length, seeds, labrep=None):
  from metric_learn.constraints import wrap_pairs
  fn = 'Constraints(y).positive_negative_pairs(n_constraints, same_length, random_state)'
  ya = LabelsAs(labrep, y)
  n = len(y)
  produced = 0
  for s in seeds:
    inp = dict(n_constraints=n_c, same_length=same_length, random_state=s, labels_given_as=labrep or 'int64 array')
    outs = []
    for rep in range(2):
      with warnings.catch_warnings(record=True) as w:
        warnings.simplefilter('always')
        try:
          out = ml.Constraints(ya.fresh()).positive_negative_pairs(n_c, same_length=same_length, random_state=s)
        except ValueError as e:
          if 'not enough values to unpack' in str(e):
            out = None             # the sampler drew no pair of one kind: outside the property (ghost precondition)
          else:
            return bad('pairs.no-exception', fn, y, 'ValueError: %s' % e, **inp)
        except Exception as e:
          return bad('pairs.no-exception', fn, y, '%s: %s' % (type(e).__name__, e), **inp)
      outs.append((out, len(w)))
    (out, n_warn), (out2, _) = outs
    if out is None or out2 is None:
      if (out is None) != (out2 is None):
        return bad('pairs.reproducible', fn, y, 'one call raised on an empty draw, the repeated call with the same seed returned', **inp)
      SKIPS.append(1)
      continue
    produced += 1
    if len(out) != 4:
      return bad('pairs.shape', fn, y, 'returned %d arrays, expected 4' % len(out), **inp)
    lists = []
    for name, arr in zip('abcd', out):
      l, why = as_index_list(arr, name)
      if l is None:
        return bad('pairs.shape', fn, y, why, **inp)
      lists.append(l)
    a, b, c, d = lists
    obs = 'a=%s b=%s c=%s d=%s' % (a, b, c, d)
    if len(a) != len(b) or len(c) != len(d):
      return bad('pairs.shape', fn, y, 'left/right arrays differ in length: ' + obs, **inp)
    for v in a + b + c + d:
      if not 0 <= v < n:
        return bad('pairs.caller-frame', fn, y, 'index %d outside [0, %d): %s' % (v, n, obs), **inp)
    for i, j in list(zip(a, b)) + list(zip(c, d)):
      if y[i] < 0 or y[j] < 0:
        return bad('pairs.unknown-label-never-appears', fn, y, 'pair (%d, %d) has labels (%d, %d): %s' % (i, j, y[i], y[j], obs), **inp)
    for i, j in zip(a, b):
      if i == j:
        return bad('pairs.positive-distinct-points', fn, y, 'positive pair (%d, %d) joins a point with itself: %s' % (i, j, obs), **inp)
      if y[i] != y[j]:
        return bad('pairs.positive-same-label', fn, y, 'positive pair (%d, %d) has labels (%d, %d): %s' % (i, j, y[i], y[j], obs), **inp)
    for i, j in zip(c, d):
      if y[i] == y[j]:
        return bad('pairs.negative-different-label', fn, y, 'negative pair (%d, %d) has labels (%d, %d): %s' % (i, j, y[i], y[j], obs), **inp)
    if len(set(zip(a, b))) != len(a) or len(set(zip(c, d))) != len(c):
      return bad('pairs.no-repeat', fn, y, 'an ordered pair is repeated: ' + obs, **inp)
    if len(a) > n_c or len(c) > n_c:
      return bad('pairs.at-most-n_constraints', fn, y, '%d positive / %d negative pairs for n_constraints=%d' % (len(a), len(c), n_c), **inp)
    if same_length and len(a) != len(c):
      return bad('pairs.same_length', fn, y, '%d positive vs %d negative pairs with same_length=True' % (len(a), len(c)), **inp)
    if (len(a) < n_c or len(c) < n_c) and n_warn == 0:
      return bad('pairs.warning-when-fewer', fn, y, '%d positive / %d negative pairs for n_constraints=%d and no warning was issued' % (len(a), len(c), n_c), **inp)
    for u, v in zip(out, out2):
      if not np.array_equal(np.asarray(u), np.asarray(v)):
        return bad('pairs.reproducible', fn, y, 'two calls with random_state=%d differ: %s vs %s' % (s, [np.asarray(u).tolist() for u in out],
                                                                                                    [np.asarray(v).tolist() for v in out2]), **inp)
    if s == seeds[0]:
      # wrap_pairs: tuples formed from the caller's X, +1 for the first block, -1 for the second
      X = np.arange(2.0 * n).reshape(n, 2) * 1.5 + 0.25
      fw = 'wrap_pairs(X, Constraints(y).positive_negative_pairs(...))'
      try:
        with warnings.catch_warnings():
          warnings.simplefilter('ignore')
          P, lab = wrap_pairs(X, out)
      except Exception as e:
        return bad('wrap_pairs.no-exception', fw, y, '%s: %s' % (type(e).__name__, e), **inp)
      P, lab = np.asarray(P), np.asarray(lab)
      m = len(a) + len(c)
      if P.shape != (m, 2, 2) or lab.shape != (m,):
        return bad('wrap_pairs.shape', fw, y, 'pairs %r labels %r for %d+%d constraints' % (P.shape, lab.shape, len(a), len(c)), **inp)
      for r, (i, j) in enumerate(list(zip(a, b)) + list(zip(c, d))):
        if not (np.array_equal(P[r, 0], X[i]) and np.array_equal(P[r, 1], X[j])):
          return bad('wrap_pairs.tuples-are-X[constraints]', fw, y, 'row %d is not (X[%d], X[%d])' % (r, i, j), **inp)
        want = 1 if r < len(a) else -1
        if lab[r] != want:
          return bad('wrap_pairs.labels', fw, y, 'label of row %d is %r, expected %d' % (r, lab[r].item(), want), **inp)
  return None if produced else 'skipped'


def check_chunks(ml, y, n_chunks, chunk_size, seeds, labrep=None):
  fn = 'Constraints(y).chunks(n_chunks, chunk_size, random_state)'
  ya = LabelsAs(labrep, y)
  n = len(y)
  sizes = class_sizes(y)
  capacity = sum(cnt // chunk_size for cnt in sizes.values())
  for s in seeds:
    inp = dict(n_chunks=n_chunks, chunk_size=chunk_size, random_state=s, labels_given_as=labrep or 'int64 array')
    outs = []
    for rep in range(2):
      with warnings.catch_warnings():
        warnings.simplefilter('ignore')
        try:
          outs.append(('ok', ml.Constraints(ya.fresh()).chunks(n_chunks=n_chunks, chunk_size=chunk_size, random_state=s)))
        except ValueError as e:
          outs.append(('ValueError', str(e)))
        except Exception as e:
          return bad('chunks.no-other-exception', fn, y, '%s: %s' % (type(e).__name__, e), **inp)
    (st, ch), (st2, ch2) = outs
    if capacity < n_chunks:
      if st != 'ValueError':
        return bad('chunks.ValueError-when-impossible', fn, y, 'returned %s although only %d chunks of %d are possible'
                   % (np.asarray(ch).tolist(), capacity, chunk_size), **inp)
      continue
    if st == 'ValueError':
      return bad('chunks.exactly-n_chunks', fn, y, 'ValueError (%s) although %d chunks of %d are possible' % (ch, capacity, chunk_size), **inp)
    ch = np.asarray(ch)
    if ch.shape != (n,) or not np.issubdtype(ch.dtype, np.integer):
      return bad('chunks.shape', fn, y, 'result has shape %r dtype %s, expected (%d,) integers' % (ch.shape, ch.dtype, n), **inp)
    cl = [int(v) for v in ch]
    obs = 'chunks=%s' % cl
    for v in cl:
      if not -1 <= v < n_chunks:
        return bad('chunks.exactly-n_chunks', fn, y, 'chunk id %d outside -1..%d: %s' % (v, n_chunks - 1, obs), **inp)
    for i in range(n):
      if y[i] < 0 and cl[i] != -1:
        return bad('chunks.unknown-label-never-assigned', fn, y, 'point %d (label %d) is in chunk %d: %s' % (i, y[i], cl[i], obs), **inp)
    for k in range(n_chunks):
      members = [i for i in range(n) if cl[i] == k]     # one id per point: chunks are disjoint by construction
      if len(members) != chunk_size:
        return bad('chunks.exactly-chunk_size-members', fn, y, 'chunk %d has %d members, expected %d: %s' % (k, len(members), chunk_size, obs), **inp)
      if len({y[i] for i in members}) != 1:
        return bad('chunks.one-class', fn, y, 'chunk %d mixes labels %s: %s' % (k, [y[i] for i in members], obs), **inp)
    if st2 != 'ok' or not np.array_equal(ch, np.asarray(ch2)):
      return bad('chunks.reproducible', fn, y, 'two calls with random_state=%d differ: %s vs %s' % (s, cl, np.asarray(ch2).tolist() if st2 == 'ok' else ch2), **inp)
  return None


def check_triplets(ml, y, X, D2, exact, k_g, k_i, xname, labrep=None):
  fn = 'Constraints(y).generate_knntriplets(X, k_genuine, k_impostor)'
  ya = LabelsAs(labrep, y)
  n = len(y)
  inp = dict(X=X.tolist(), k_genuine=k_g, k_impostor=k_i, labels_given_as=labrep or 'int64 array')
  with warnings.catch_warnings():
    warnings.simplefilter('ignore')
    try:
      T = ml.Constraints(ya.fresh()).generate_knntriplets(X.copy(), k_g, k_i)
    except Exception as e:
      return bad('triplets.no-exception', fn, y, '%s: %s' % (type(e).__name__, e), **inp)
  T = np.asarray(T)
  if T.ndim != 2 or T.shape[1] != 3 or (T.size and not np.issubdtype(T.dtype, np.integer)):
    return bad('triplets.shape', fn, y, 'result has shape %r dtype %s' % (T.shape, T.dtype), **inp)
  rows = [tuple(int(v) for v in r) for r in T]
  obs = 'triplets=%s' % [list(r) for r in rows]
  for r in rows:
    for v in r:
      if not 0 <= v < n:
        return bad('triplets.caller-frame', fn, y, 'index %d outside [0, %d): %s' % (v, n, obs), **inp)
  for r in rows:
    for v in r:
      if y[v] < 0:
        return bad('triplets.unknown-label-never-appears', fn, y, 'triplet %s contains point %d whose label is %d: %s' % (list(r), v, y[v], obs), **inp)
  for a, b, c in rows:
    if a == b or y[a] != y[b]:
      return bad('triplets.genuine-same-class', fn, y, 'triplet %s: labels (%d, %d, %d)%s: %s'
                 % ([a, b, c], y[a], y[b], y[c], ' and a == b' if a == b else '', obs), **inp)
    if y[c] == y[a]:
      return bad('triplets.impostor-other-class', fn, y, 'triplet %s: labels (%d, %d, %d): %s' % ([a, b, c], y[a], y[b], y[c], obs), **inp)
  known = [i for i in range(n) if y[i] >= 0]
  scale = float(np.max(np.sum(X * X, axis=1))) if len(X) else 0.0
  rtol, atol = (0.0, 0.0) if exact else (1e-7, 1e-9 * scale)
  for a in known:
    same = [j for j in known if j != a and y[j] == y[a]]
    other = [j for j in known if y[j] != y[a]]
    kg, ki = min(k_g, len(same)), min(k_i, len(other))      # the documented capping
    thr_g = sorted(D2[a, j] for j in same)[kg - 1]
    thr_i = sorted(D2[a, j] for j in other)[ki - 1]
    mine = [r for r in rows if r[0] == a]
    for _, b, c in mine:
      if D2[a, b] > thr_g * (1 + rtol) + atol:
        return bad('triplets.genuine-among-k-nearest', fn, y, 'triplet %s: d2(a,b)=%r exceeds the %d-th smallest same-class squared distance %r: %s'
                   % ([a, b, c], float(D2[a, b]), kg, float(thr_g), obs), **inp)
      if D2[a, c] > thr_i * (1 + rtol) + atol:
        return bad('triplets.impostor-among-k-nearest', fn, y, 'triplet %s: d2(a,c)=%r exceeds the %d-th smallest other-class squared distance %r: %s'
                   % ([a, b, c], float(D2[a, c]), ki, float(thr_i), obs), **inp)
    nb, nc = len({r[1] for r in mine}), len({r[2] for r in mine})
    if len(set(mine)) != len(mine) or nb != kg or nc != ki or len(mine) != kg * ki:
      return bad('triplets.every-combination-exactly-once', fn, y,
                 'anchor %d: %d rows (%d distinct) over %d genuine x %d impostor neighbours, expected %d x %d each once: %s'
                 % (a, len(mine), len(set(mine)), nb, nc, kg, ki, obs), **inp)
  return None


# ----------------------------------------------------------------------------------------------------------- cases

def cases(tier, seed):
  ml = repo()
  cfg = CONFIG[tier]
  seeds = int_seeds(cfg, seed)
  psets = {}

  def pset(n, j):
    if (n, j) not in psets:
      name, X, exact = point_set(seed, n, j)
      psets[(n, j)] = (name, X, sq_dists(X), exact)
    return psets[(n, j)]

  def wrap(f, *args):
    def thunk():
      r = f(ml, *args)
      if r == 'skipped':
        SKIPS.append('thunk')
        return None
      return r
    return thunk

  nrep = 0
  for y in label_vectors(cfg, seed):
    sizes = class_sizes(y)
    ys = ','.join(str(v) for v in y)
    # pairs: at least one positive pair (a class with two members) and one negative pair (two known classes)
    if len(sizes) >= 2 and max(sizes.values()) >= 2:
      for n_c in PARAMS:
        for sl in (False, True):
          yield ('pairs y=[%s] n_constraints=%d same_length=%s' % (ys, n_c, sl), (T_PAIRS, T_PAIRS_, T_WRAP),
                 wrap(check_pairs, y, n_c, sl, seeds))
    # chunks: at least one chunk of the requested size exists
    for cs in PARAMS:
      if sizes and max(sizes.values()) >= cs:
        for nch in PARAMS:
          yield ('chunks y=[%s] n_chunks=%d chunk_size=%d' % (ys, nch, cs), (T_CHUNKS,), wrap(check_chunks, y, nch, cs, seeds))
    # the same label vector in another representation (one per vector, rotating)
    nrep += 1
    rep = LABEL_REPS[nrep % len(LABEL_REPS)]
    if rep.startswith('uint') and any(v < 0 for v in y):
      rep = 'unknown=-2' if nrep % 2 else 'unknown=-1/-3/-128 int8'
    y2 = recode(y, rep)
    ys2 = '%s as %s' % (','.join(str(v) for v in y2), rep)
    if len(sizes) >= 2 and max(sizes.values()) >= 2:
      yield ('pairs y=[%s] n_constraints=3 same_length=False' % ys2, (T_PAIRS, T_PAIRS_, T_WRAP), wrap(check_pairs, y2, 3, False, seeds[:1], rep))
    if sizes:
      cs = min(2, max(sizes.values()))
      for nch in (1, 2):
        yield ('chunks y=[%s] n_chunks=%d chunk_size=%d' % (ys2, nch, cs), (T_CHUNKS,), wrap(check_chunks, y2, nch, cs, seeds[:1], rep))
    if len(sizes) >= 2 and min(sizes.values()) >= 2:
      name, X, D2, exact = pset(len(y), 0)
      for kg, ki in ((1, 1), (2, 2)):
        yield ('triplets y=[%s] X=%s k_genuine=%d k_impostor=%d' % (ys2, name, kg, ki), (T_TRIP, T_COMB),
               wrap(check_triplets, y2, X, D2, exact, kg, ki, name, rep))
    # k-NN triplets: every known class has two members, two known classes
    if len(sizes) >= 2 and min(sizes.values()) >= 2:
      for j in range(cfg['n_psets']):
        name, X, D2, exact = pset(len(y), j)
        for kg in PARAMS:
          for ki in PARAMS:
            yield ('triplets y=[%s] X=%s k_genuine=%d k_impostor=%d' % (ys, name, kg, ki), (T_TRIP, T_COMB),
                   wrap(check_triplets, y, X, D2, exact, kg, ki, name))


def single_thread():
  """tiny problems: one OpenMP/BLAS thread (16 spinning threads make a 7-point neighbour query take 0.5 s here, and
  oversubscribe a process pool).  The libraries must be loaded before threadpoolctl can reach them."""
  os.environ.setdefault('OMP_NUM_THREADS', '1')
  repo()
  try:
    import sklearn.neighbors  # noqa: F401  (loads the OpenMP runtime)
    import threadpoolctl
    return threadpoolctl.threadpool_limits(1)
  except Exception:
    return None


def _work(args):
  """run the cases whose index is k modulo nproc"""
  tier, seed, k, nproc = args
  limiter = single_thread()
  del SKIPS[:]
  n = 0
  nontrivial = 0
  vio = {}
  samples = []
  kinds = {}
  for i, (desc, tags, thunk) in enumerate(cases(tier, seed)):
    if i % nproc != k:
      continue
    n += 1
    before = len(SKIPS)
    b = thunk()
    skipped = SKIPS[before:].count('thunk') > 0
    if not skipped:
      nontrivial += 1
    kind = desc.split(' ')[0]
    kinds[kind] = kinds.get(kind, 0) + 1
    if k == 0 and n % 997 == 1 and len(samples) < 8:
      samples.append(desc)
    if b:
      key = (b['tag'], b['signature'])
      if key not in vio:
        vio[key] = [i, 0, dict(clause='runtime/C07/%s' % b['tag'], input=b['input'], observed=b['observed'], signature=b['signature'])]
      vio[key][1] += 1
  return dict(n=n, nontrivial=nontrivial, vio=list(vio.values()), samples=samples, kinds=kinds,
              empty_draws=SKIPS.count(1), skipped_thunks=SKIPS.count('thunk'))


def _parallel(tier, seed):
  try:
    ncpu = len(os.sched_getaffinity(0))
  except Exception:
    ncpu = os.cpu_count() or 1
  nproc = max(1, min(16, ncpu))
  if nproc > 1:
    try:
      import multiprocessing as mp
      with mp.get_context('fork').Pool(nproc) as pool:
        return pool.map(_work, [(tier, seed, k, nproc) for k in range(nproc)])
    except (ImportError, OSError, ValueError):
      pass
  return [_work((tier, seed, 0, 1))]


def run(tier, seed):
  cfg = CONFIG[tier]
  parts = _parallel(tier, seed)
  merged = {}
  for p in parts:
    for i, cnt, v in p['vio']:
      key = (v['clause'], v['signature'])
      if key not in merged:
        merged[key] = [i, 0, v]
      elif i < merged[key][0]:          # keep the earliest (shortest label vector) witness
        merged[key][0], merged[key][2] = i, v
      merged[key][1] += cnt
  vio = []
  for i, cnt, v in sorted(merged.values(), key=lambda t: t[0]):
    v = dict(v)
    v['failing_cases'] = cnt
    vio.append(v)
  kinds = {}
  for p in parts:
    for k, c in p['kinds'].items():
      kinds[k] = kinds.get(k, 0) + c
  empty = sum(p['empty_draws'] for p in parts)
  bound = ('label vectors over {-1,0,1,2}: all of length <= %d%s for which a constraint of the requested kind exists; n_constraints, n_chunks, chunk_size, '
           'k_genuine, k_impostor in 1..3; same_length in {False, True}; %d integer seeds (each drawn twice); %d point sets per length '
           '(integer grids with ties and duplicates, gaussians with duplicated rows)'
           % (cfg['full_len'], (' plus a seed-determined %.1f%% of length %d' % (100 * cfg['sample_frac'], cfg['sample_len'])) if cfg['sample_len'] else '',
              cfg['n_seeds'], cfg['n_psets']))
  return dict(cases=sum(p['n'] for p in parts), distinct_nontrivial=sum(p['nontrivial'] for p in parts),
              rule='bounded-exhaustive enumeration of label vectors x parameters; one case = (kind, label vector, parameters[, point set]) checked for every seed, '
                   'all descriptions distinct; non-trivial = the generator produced constraints for at least one seed (cases per kind: %s; '
                   '%d single draws skipped because the rejection sampler found no pair of one kind in its ten rounds -- outside the property)'
                   % (', '.join('%s %d' % kv for kv in sorted(kinds.items())), empty),
              bound=bound, standin_samples=parts[0]['samples'], violations=vio)


def replay_clause(cid, fail, seed):
  """first failing case (label vectors of length <= 5) exercising the function named in cid, else any failing case"""
  target = cid.split('[')[0].split('/')[0]
  known_tags = (T_PAIRS, T_PAIRS_, T_WRAP, T_CHUNKS, T_TRIP, T_COMB)
  limiter = single_thread()
  passes = [(target,), None] if target in known_tags else [None]
  for only in passes:
    for desc, tags, thunk in cases('replay', seed):
      if only is not None and not (set(tags) & set(only)):
        continue
      b = thunk()
      if b:
        return dict(failing_input=b['input'], observed='%s: %s' % (b['tag'], b['observed']))
  return dict(note='no failing input among the stand-in cases with label vectors of length <= 5')
