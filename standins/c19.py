"""C19 bounded stand-in / replay: the learned distance depends on the data only through its geometry.

Metamorphic run-time oracle on the REAL fit of every learner: each case fits the same learner (identical
hyper-parameters, fixed integer random_state) on a dataset and on a transformed copy, and compares
pair_distance on corresponding query pairs.  Datasets live on a dyadic grid (coordinates = integers / 2^k), the
translation vectors are dyadic, the orthogonal maps are signed permutation matrices (compositions of 90-degree
rotations and reflections) and the scale factors are powers of two, so every transformed dataset is exact in
binary64 and only the learner's own arithmetic differs between the two runs.
bounded -- not proved.

Relations (exactly those of the property statement)
  translation   X -> X + t                      all 17 learners                     d'(x+t, x'+t) = d(x, x')
  pair-swap     (a,b) -> (b,a) in some pairs    ITML, MMC, SDML                     d' = d
                (a,b,c,d) -> (b,a,d,c)          LSML
  sample-order  rows (and chunk labels) permuted Covariance, RCA                    d' = d
  orthogonal    X -> X Q^T                      Covariance, RCA, LFDA, LMNN(identity init), ITML, LSML,
                                                MMC (identity / covariance prior or init)   d'(Qx, Qx') = d(x, x')
  scaling       X -> c X, c = 2^j               Covariance, RCA                     d'(x, x') = d(x, x') / c
Tolerances (see `tolerance`): 1e-9 relative for closed-form learners and for tuple learners whose solver input is
bit-identical in both runs (they only use within-tuple differences), 1e-8 for SCML, 1e-5 for the gradient learners
LMNN / NCA / MLKR and for iterative tuple solvers whose input differs in the last bits (orthogonal map: the order of
floating-point sums changes; covariance prior under translation); absolute slack = rtol * largest distance of the batch.
A case whose base fit raises or yields non-finite / all-zero distances is not a well-formed fit and is counted as
trivial (skipped); both fits raising the same exception type is likewise skipped.
"""
import multiprocessing
import warnings

import numpy as np
from threadpoolctl import threadpool_limits

from .common import repo, PUBLIC

CLOSED = ('Covariance', 'LFDA', 'RCA', 'RCA_Supervised')
GRADIENT = ('LMNN', 'NCA', 'MLKR')
TIGHT, SCML_TOL, LOOSE = 1e-9, 1e-8, 1e-5


def tolerance(rel, name, kw):
  """closed forms, and tuple learners whose input (within-tuple differences, identity / random prior) is bit-identical in both
  runs: 1e-9.  Iterative solvers whose input differs in the last bits (gradient learners; a covariance prior under
  translation; any orthogonal map, which reorders floating-point sums): 1e-5 -- their projections onto nearly active
  constraints amplify rounding by the condition number of the iterate (observed up to 1e9 for ITML with a 1e-9 bound)."""
  if name in CLOSED:
    return TIGHT
  if name in GRADIENT:
    return LOOSE
  if name.startswith('SCML'):
    return SCML_TOL
  if rel == 'orthogonal':
    return LOOSE
  if rel == 'translation' and 'covariance' in (kw.get('prior'), kw.get('init')):
    return LOOSE
  return TIGHT


TAGS = {'Covariance': 'covariance:Covariance.fit', 'LFDA': 'lfda:LFDA.fit', 'LMNN': 'lmnn:LMNN.fit', 'NCA': 'nca:NCA.fit',
        'MLKR': 'mlkr:MLKR.fit', 'RCA': 'rca:RCA.fit', 'RCA_Supervised': 'rca:RCA_Supervised.fit',
        'ITML': 'itml:_BaseITML._fit', 'ITML_Supervised': 'itml:_BaseITML._fit', 'MMC': 'mmc:_BaseMMC._fit',
        'MMC_Supervised': 'mmc:_BaseMMC._fit', 'SDML': 'sdml:_BaseSDML._fit', 'SDML_Supervised': 'sdml:_BaseSDML._fit',
        'LSML': 'lsml:_BaseLSML._fit', 'LSML_Supervised': 'lsml:_BaseLSML._fit', 'SCML': 'scml:_BaseSCML._fit',
        'SCML_Supervised': 'scml:_BaseSCML._fit'}


# ---------------------------------------------------------------------------------------------------------------------
# datasets on a dyadic grid

def make_dataset(seed, idx):
  """points X (distinct rows, full-rank scatter, 3 balanced classes), labels, regression targets, chunk labels and
  index constraints (pairs with +-1 labels, quadruplets, triplets); every coordinate is an integer / 2^k"""
  rng = np.random.RandomState((seed * 7919 + idx * 104729 + 12345) % (2 ** 31 - 1))
  d = (2, 3, 4)[idx % 3]
  k = int(rng.randint(0, 4))
  q = 2 ** k
  per = int(rng.randint(8, 12))
  ncls = 3
  y = np.repeat(np.arange(ncls), per)
  n = len(y)
  for attempt in range(400):
    if attempt and attempt % 40 == 0:      # too crowded for distinct rows on this grid: refine it
      k += 1
      q = 2 ** k
    centers = rng.randint(-6, 7, size=(ncls, d)).astype(float)
    X = centers[y] + rng.randint(-3 * q, 3 * q + 1, size=(n, d)) / float(q)
    Xc = X - X.mean(axis=0)
    ok = len(set(map(tuple, X.tolist()))) == n and np.linalg.matrix_rank(Xc) == d
    # every class must have full-rank within-class scatter (RCA chunks, LFDA)
    for c in range(ncls):
      Z = X[y == c]
      ok = ok and np.linalg.matrix_rank(Z - Z.mean(axis=0)) == d
    if ok:
      break
  else:
    raise RuntimeError('could not draw a dataset')
  perm = rng.permutation(n)
  X, y = X[perm], y[perm]
  if not np.any(np.all(X[1:] == np.r_[0.0, X[0, 1:]], axis=1)):
    X[0, 0] = 0.0                      # an exact zero coordinate (rows stay distinct)
  yreg = y + rng.randint(-8, 9, size=n) / 16.0
  by = [np.where(y == c)[0] for c in range(ncls)]
  # chunks: two chunks of 3-4 points per class, the rest unassigned
  chunks = -np.ones(n, dtype=int)
  cid = 0
  for c in range(ncls):
    m = rng.permutation(by[c])
    s = int(rng.randint(3, 5))
    chunks[m[:s]] = cid
    chunks[m[s:2 * s]] = cid + 1
    cid += 2
  # "any chunk layout": one chunklet with a single member (it contributes nothing to the within-chunk covariance wherever it sits)
  free = np.where(chunks == -1)[0]
  if len(free):
    chunks[free[0]] = cid
    cid += 1

  def same():
    c = rng.randint(ncls)
    return tuple(rng.choice(by[c], 2, replace=False))

  def differ():
    c1, c2 = rng.choice(ncls, 2, replace=False)
    return (rng.choice(by[c1]), rng.choice(by[c2]))
  # pairs: every point occurs in at least one pair (so that ITML's default bounds, percentiles of the pairwise distances
  # of the points occurring in pairs, are proper distances and not the zero diagonal), half similar, half dissimilar
  pos, neg = [], []
  for c in range(ncls):
    m = rng.permutation(by[c])
    pos += [(m[i], m[(i + 1) % len(m)]) for i in range(0, len(m), 2)]
  while len(pos) < 16:
    pos.append(same())
  # point 0 (which has an exactly zero coordinate, see below) occurs in several pairs
  mates = [i for i in by[y[0]] if i != 0]
  pos.append((0, int(mates[0])))
  neg = [differ() for _ in range(len(pos) - 1)] + [(0, int(by[(y[0] + 1) % ncls][0]))]
  pairs = np.array(pos + neg)
  ypairs = np.array([1] * len(pos) + [-1] * len(neg))
  pp = rng.permutation(len(pairs))
  pairs, ypairs = pairs[pp], ypairs[pp]
  quads = np.array([same() + differ() for _ in range(16)])
  trips = []
  for _ in range(30):
    a, b = same()
    c = rng.choice(np.where(y != y[a])[0])
    trips.append((a, b, c))
  trips = np.array(trips)
  # a copy on the finer grid 1/1024 (jitter below 1/32, so rows stay distinct): for SCML_Supervised, whose basis construction
  # compares distances from k-means centres (means: not grid numbers) to the points -- on a coarse grid such distances are
  # often exactly tied, and a tie is then broken by the rounding of the centre, which is not translation invariant
  Xfine = X + rng.randint(-31, 32, size=X.shape) / 1024.0
  Qr = rng.randint(-6 * q, 6 * q + 1, size=(10, 2, d)) / float(q)
  Qr[:3, 0] = X[rng.choice(n, 3, replace=False)]
  Qr[rng.randint(10), 1] = X[rng.randint(n)]
  Qr = Qr[np.any(Qr[:, 0] != Qr[:, 1], axis=1)]
  return dict(d=d, k=k, n=n, X=X, Xfine=Xfine, y=y, yreg=yreg, chunks=chunks, pairs=pairs, ypairs=ypairs, quads=quads, trips=trips, queries=Qr,
              seed=seed, idx=idx)


# ---------------------------------------------------------------------------------------------------------------------
# learner configurations (identical in both runs of a case)

def configs(name, variant):
  """constructor keyword arguments; variant 0/1 selects between two option values"""
  v = variant % 2
  rs = 3 + variant
  return {
      'Covariance': {},
      'LFDA': dict(n_components=None, k=(None, 2)[v], embedding_type=('weighted', 'plain')[v]),
      'LMNN': dict(init=('identity', 'auto')[v], n_neighbors=3, max_iter=12, learn_rate=1e-4, random_state=rs),
      'NCA': dict(init=('auto', 'identity')[v], max_iter=5, random_state=rs),
      'MLKR': dict(init=('auto', 'identity')[v], max_iter=5, random_state=rs),
      'RCA': dict(n_components=(None, 'd-1')[v]),       # with reduction to d-1 dimensions for every other dataset (resolved at fit time)
      'RCA_Supervised': dict(n_chunks=6, chunk_size=(2, 3)[v], random_state=rs),
      'ITML': dict(prior=('identity', 'covariance')[v], max_iter=60, random_state=rs),
      'ITML_Supervised': dict(prior=('covariance', 'identity')[v], max_iter=60, n_constraints=40, random_state=rs),
      'MMC': dict(init=('identity', 'covariance')[v], max_iter=15, max_proj=200, random_state=rs),
      'MMC_Supervised': dict(init='identity', diagonal=bool(v), max_iter=15, max_proj=200, n_constraints=40, random_state=rs),
      # balance_param small enough for prior^-1 + balance * sum(y diff diff^T) to stay positive definite (else glasso fails)
      'SDML': dict(prior=('identity', 'covariance')[v], balance_param=(2.0 ** -12, 2.0 ** -8)[v], sparsity_param=0.01, random_state=rs),
      'SDML_Supervised': dict(prior=('covariance', 'identity')[v], balance_param=(2.0 ** -8, 2.0 ** -14)[v], sparsity_param=0.01, n_constraints=40,
                              random_state=rs),
      'LSML': dict(prior=('identity', 'covariance')[v], max_iter=20, random_state=rs),
      'LSML_Supervised': dict(prior=('covariance', 'identity')[v], max_iter=20, n_constraints=40, random_state=rs),
      'SCML': dict(n_basis=24, max_iter=600, output_iter=100, batch_size=8, random_state=rs),
      'SCML_Supervised': dict(k_genuine=2, k_impostor=3, n_basis=12, max_iter=600, output_iter=100, batch_size=8, random_state=rs),
  }[name]


def fit(ml, name, kw, D, X, pairs=None, quads=None, order=None):
  """fit learner `name` on the dataset D with the point array X in place of D['X']"""
  pairs = D['pairs'] if pairs is None else pairs
  quads = D['quads'] if quads is None else quads
  y, yreg, chunks = D['y'], D['yreg'], D['chunks']
  if order is not None:
    X, y, yreg, chunks = X[order], y[order], yreg[order], chunks[order]
  if kw.get('n_components') == 'd-1':
    kw = dict(kw, n_components=max(1, X.shape[1] - 1))
  est = getattr(ml, name)(**kw)
  if name == 'Covariance':
    return est.fit(X)
  if name == 'RCA':
    return est.fit(X, chunks)
  if name == 'MLKR':
    return est.fit(X, yreg)
  if name in ('ITML', 'MMC', 'SDML'):
    P = X[pairs]
    # equal numbers, different bit patterns: where a point that occurs in several pairs has a zero coordinate, its later occurrences carry
    # -0.0 (what quantising real data with np.round produces).  Value-wise nothing changes -- and after a translation the zeros are gone.
    seen_ = set()
    flat = pairs.reshape(-1)
    Pf = P.reshape(len(flat), -1)
    for r_, pid in enumerate(flat):
      if int(pid) in seen_:
        z_ = Pf[r_] == 0
        Pf[r_, z_] = -0.0
      seen_.add(int(pid))
    return est.fit(Pf.reshape(P.shape), D['ypairs'])
  if name == 'LSML':
    return est.fit(X[quads])
  if name == 'SCML':
    return est.fit(X[D['trips']])
  return est.fit(X, y)


def distances(ml, name, kw, D, X, queries, **how):
  """('ok', distances) / ('raise', exception type name, message)"""
  with warnings.catch_warnings():
    warnings.simplefilter('ignore')
    with np.errstate(all='ignore'):
      try:
        est = fit(ml, name, kw, D, X, **how)
        L = est.components_
        if np.iscomplexobj(L):
          return ('raise', 'ComplexComponents', 'components_ has dtype %s' % L.dtype)
        return ('ok', np.asarray(est.pair_distance(queries), dtype=float))
      except Exception as e:        # noqa
        return ('raise', type(e).__name__, str(e)[:160])


# ---------------------------------------------------------------------------------------------------------------------
# the relations

def signed_permutation(rng, d):
  while True:
    Q = np.zeros((d, d))
    Q[np.arange(d), rng.permutation(d)] = rng.choice([-1.0, 1.0], size=d)
    if not np.array_equal(Q, np.eye(d)):
      return Q


def relations(D, rng, tier):
  """(relation name, learner, variant, builder) -- builder(X) -> (X', queries', fit kwargs, factor, rtol, json-able parameter)"""
  d, k = D['d'], D['k']
  q = 2.0 ** k
  quick = tier == 'quick'
  variant = D['idx']

  def translation():
    t = rng.randint(-8 * q, 8 * q + 1, size=d) / q
    if not t.any():
      t[0] = 1.0
    return t
  for name in PUBLIC:
    t = translation()
    rtol = tolerance('translation', name, configs(name, variant))
    yield 'translation', name, variant, (lambda X, t=t, rtol=rtol: (X + t, D['queries'] + t, {}, 1.0, rtol, dict(t=t.tolist())))
    if not quick:
      t2 = translation() * 4
      rtol = tolerance('translation', name, configs(name, variant + 1))
      yield 'translation', name, variant + 1, (lambda X, t=t2, rtol=rtol: (X + t, D['queries'] + t, {}, 1.0, rtol, dict(t=t.tolist())))
  for name in ('ITML', 'MMC', 'SDML'):
    for frac in ((0.5,) if quick else (0.5, 1.0)):
      m = len(D['pairs'])
      sel = np.sort(rng.choice(m, max(1, int(m * frac)), replace=False))
      P = D['pairs'].copy()
      P[sel] = P[sel][:, ::-1]
      for var in ((variant,) if quick else (variant, variant + 1)):
        yield 'pair-swap', name, var, (lambda X, P=P, sel=sel: (X, D['queries'], dict(pairs=P), 1.0, 1e-9, dict(swapped_pairs=sel.tolist())))
  for frac in ((0.5,) if quick else (0.5, 1.0)):
    m = len(D['quads'])
    sel = np.sort(rng.choice(m, max(1, int(m * frac)), replace=False))
    Qd = D['quads'].copy()
    Qd[sel] = Qd[sel][:, [1, 0, 3, 2]]
    for var in ((variant,) if quick else (variant, variant + 1)):
      yield 'pair-swap', 'LSML', var, (lambda X, Qd=Qd, sel=sel: (X, D['queries'], dict(quads=Qd), 1.0, 1e-9, dict(swapped_quadruplets=sel.tolist())))
  for name in ('Covariance', 'RCA'):
    for _ in range(1 if quick else 3):
      order = rng.permutation(D['n'])
      yield 'sample-order', name, variant, (lambda X, order=order: (X, D['queries'], dict(order=order), 1.0, 1e-9, dict(order=order.tolist())))
  for name in ('Covariance', 'RCA', 'LFDA', 'LMNN', 'ITML', 'LSML', 'MMC'):
    for rep in range(1 if quick else 2):
      Q = signed_permutation(rng, d)
      rtol = tolerance('orthogonal', name, {})
      for var in ((variant,) if (quick or name in ('Covariance', 'RCA')) else (variant, variant + 1)):
        if name == 'LMNN' and configs(name, var)['init'] != 'identity':
          continue
        yield 'orthogonal', name, var, (lambda X, Q=Q, rtol=rtol: (X.dot(Q.T), D['queries'].dot(Q.T), {}, 1.0, rtol, dict(Q=Q.tolist())))
  for name in ('Covariance', 'RCA'):
    # c > 0 is arbitrary: moderate factors and very small / very large ones (a cut-off that is not relative to the data breaks the 1/c law there)
    for j in ((rng.choice([-3, -1, 2, 5]), rng.choice([-20, 18])) if quick else (-20, -4, -1, 1, 3, 10, 18)):
      c = 2.0 ** j
      yield 'scaling', name, variant, (lambda X, c=c: (X * c, D['queries'], {}, 1.0 / c, 1e-9, dict(c=c)))


def check_case(ml, D, rel, name, variant, builder):
  """None (holds) / 'trivial' (not a well-formed fit) / violation dict"""
  kw = configs(name, variant)
  Xb = D['Xfine'] if name == 'SCML_Supervised' else D['X']
  X2, Q2, how, factor, rtol, param = builder(Xb)
  with threadpool_limits(1):        # tiny problems: BLAS / OpenMP threads only cost (and oversubscribe the fork pool)
    base = distances(ml, name, kw, D, Xb, D['queries'])
    other = distances(ml, name, kw, D, X2, Q2, **how)
  inp = dict(dataset=dict(generator='standins.c19.make_dataset(seed=%d, idx=%d)' % (D['seed'], D['idx']), n_features=D['d'], n_samples=D['n'],
                          grid='1/%d' % 2 ** D['k'], points="D['Xfine']" if name == 'SCML_Supervised' else "D['X']"),
             estimator=name, params={k: (v if not isinstance(v, np.ndarray) else v.tolist()) for k, v in kw.items()}, relation=rel, transformation=param)
  sig = '%s: %s(%s)' % (rel, name, ', '.join('%s=%r' % (k, kw[k]) for k in sorted(kw) if k in ('init', 'prior', 'diagonal', 'embedding_type', 'chunk_size')))
  if base[0] == 'raise' and other[0] == 'raise':
    return 'trivial' if base[1] == other[1] else dict(
        tag='%s-invariance' % rel, observed='fit on the original data raises %s (%s), on the transformed data %s (%s)' % (base[1], base[2], other[1], other[2]),
        input=inp, signature=sig + ' [different exceptions]')
  if base[0] == 'raise' or other[0] == 'raise':
    r, o = (base, 'original') if base[0] == 'raise' else (other, 'transformed')
    return dict(tag='%s-invariance' % rel, observed='fit on the %s data raises %s (%s) while the other fit succeeds' % (o, r[1], r[2]),
                input=inp, signature=sig + ' [one fit raises %s]' % r[1])
  d1, d2 = base[1], other[1]
  if not np.all(np.isfinite(d1)):
    if np.array_equal(np.isfinite(d1), np.isfinite(d2)):
      return 'trivial'            # the base fit is not a well-formed (finite) model, and the transformed one fails alike
  elif not d1.any() and not d2.any():
    return 'trivial'              # nothing learned (all-zero metric) in both runs
  if not np.all(np.isfinite(d2)) or not np.all(np.isfinite(d1)):
    return dict(tag='%s-invariance' % rel, observed='distances original %r, transformed %r' % (d1.tolist(), d2.tolist()), input=inp,
                signature=sig + ' [non-finite on one side]')
  want = d1 * factor
  err = np.abs(d2 - want)
  if np.all(err <= rtol * np.abs(want) + rtol * np.abs(want).max()):
    return None
  i = int(np.argmax(err / (np.abs(want) + np.abs(want).max())))
  return dict(tag='%s-invariance' % rel if rel != 'scaling' else 'scaling-by-1/c',
              observed='query pair %d: distance %r after the transformation, expected %r (relative difference %.3g, tolerance %g); all: %r vs %r'
                       % (i, float(d2[i]), float(want[i]), float(err[i] / max(abs(want[i]), 1e-300)), rtol, d2.tolist(), want.tolist()),
              input=inp, signature=sig)


# ---------------------------------------------------------------------------------------------------------------------

def n_datasets(tier):
  return 6 if tier == 'quick' else 30


def _raw_cases(tier, seed):
  ml = repo()
  for idx in range(n_datasets(tier)):
    D = make_dataset(seed, idx)
    rng = np.random.RandomState((seed * 31 + idx * 1009 + 77) % (2 ** 31 - 1))
    seen = {}
    for rel, name, variant, builder in relations(D, rng, tier):
      kw = configs(name, variant)
      opt = ','.join('%s=%s' % (k, kw[k]) for k in sorted(kw) if k in ('init', 'prior', 'diagonal', 'embedding_type', 'chunk_size'))
      desc = '%s %s(%s) dataset#%d d=%d grid=1/%d' % (rel, name, opt, idx, D['d'], 2 ** D['k'])
      seen[desc] = seen.get(desc, 0) + 1
      desc += ' transformation#%d' % seen[desc]
      yield desc, (TAGS[name],), (lambda D=D, rel=rel, name=name, variant=variant, builder=builder: check_case(ml, D, rel, name, variant, builder))


def cases(tier, seed):
  """the interface generator: thunk() -> None (holds, or not a well-formed fit) / violation dict"""
  for desc, tags, raw in _raw_cases(tier, seed):
    def thunk(raw=raw):
      res = raw()
      return res if isinstance(res, dict) else None
    yield desc, tags, thunk


_CASES = []


def _run_one(i):
  try:
    return i, _CASES[i][2]()
  except Exception as e:      # an oracle crash is reported, never swallowed
    return i, dict(tag='oracle-error', observed='%s: %s' % (type(e).__name__, e), input=_CASES[i][0], signature='oracle-error: %s' % _CASES[i][0])


def run(tier, seed):
  global _CASES
  _CASES = list(_raw_cases(tier, seed))
  n = len(_CASES)
  try:
    ctx = multiprocessing.get_context('fork')
    with ctx.Pool(min(14, max(1, (multiprocessing.cpu_count() or 2) - 1))) as pool:
      results = pool.map(_run_one, range(n), chunksize=1)
  except (OSError, ValueError):
    results = [_run_one(i) for i in range(n)]
  results.sort(key=lambda r: r[0])
  vio, sigs, trivial, distinct = [], set(), 0, set()
  for i, res in results:
    if res == 'trivial':
      trivial += 1
      continue
    distinct.add(_CASES[i][0])
    if isinstance(res, dict) and res['signature'] not in sigs and len(vio) < 40:
      sigs.add(res['signature'])
      vio.append(dict(clause='runtime/C19/%s' % res['tag'], input=res['input'], observed=res['observed'], signature=res['signature'],
                      function=_CASES[i][1][0], case=_CASES[i][0]))
  samples = [_CASES[i][0] for i in range(0, n, max(1, n // 8))][:8]
  return dict(cases=n, distinct_nontrivial=len(distinct), trivial=trivial,
              rule='%d dyadic-grid datasets (24-33 points, 2-4 features, 3 classes, grid 1 .. 1/8) x relations {translation: all 17 learners; pair-swap: ITML, MMC, SDML, LSML; '
                   'sample-order: Covariance, RCA; orthogonal signed-permutation map: Covariance, RCA, LFDA, LMNN(identity), ITML, LSML, MMC; scaling by 2^j: Covariance, RCA}; '
                   'each case = two real fits with identical hyper-parameters compared through pair_distance on <= 10 query pairs; '
                   'non-trivial = both fits return finite, not all-zero distances; distinct = (relation, learner, options, dataset, transformation)' % n_datasets(tier),
              bound='%d datasets; small iteration budgets (LMNN 12, NCA/MLKR 5, ITML 60, MMC 15, LSML 20, SCML 600); one violation per signature (max 40)' % n_datasets(tier),
              standin_samples=samples, violations=vio)


def replay_clause(cid, fail, seed):
  """first failing quick case of the learner named by the obligation id (e.g. 'itml:_BaseITML._fit[...]/...'), else any"""
  target = cid.split('[')[0]
  module = target.split(':')[0]
  wanted = [t for t in sorted(set(TAGS.values())) if t == target] or [t for t in sorted(set(TAGS.values())) if t.split(':')[0] == module]
  for only in ([wanted] if wanted else []) + [None]:
    for desc, tags, thunk in cases('quick', seed):
      if only is not None and tags[0] not in only:
        continue
      bad = thunk()
      if bad:
        return dict(failing_input=bad['input'], observed='%s: %s' % (bad['tag'], bad['observed']))
  return dict(note='no failing input among the quick stand-in cases')
