"""C03 bounded stand-in / replay: run-time contract of "fit on well-formed input yields a valid Mahalanobis model of
the right shape" on the REAL fit / get_mahalanobis_matrix / transform of all 17 estimators.
bounded -- not proved.

Per generated (estimator class, option configuration, well-formed dataset) the oracle evaluates the property statement:
  fit-returns            fit returns normally (the statement says "fit returns ...")
  fit-returns-self       ... the estimator itself
  components-2d-array    components_ is a 2-D numpy array
  components-real-dtype  ... of a float dtype (not complex, not object)
  components-finite      ... finite
  components-shape       shape (k, n_features); k == n_components when given; else k == n_features, except SCML
                         (k <= n_features)
  lowrank-warned         SCML with k < n_features must have issued its documented low-rank warning
  M-symmetric-psd        get_mahalanobis_matrix() is (n_features, n_features), symmetric and PSD up to rounding
                         (only evaluated when components_ is a real finite 2-D array: otherwise it is a dependent clause)
  n_features_in          n_features_in_ == n_features of the points of the last fit
  transform-shape        transform maps (m, n_features) to (m, k)
All clauses that fail on a case are reported (not only the first), so one defect does not mask another.

Data are generated exactly inside the property's quantifier: 2 <= n_features <= 8, n_samples >= 4 * n_features and
>= 4 per class, >= 2 classes, points = well-conditioned linear image (cond <= 4) of standard normal draws plus class
means (continuous => covariances full rank, no duplicate points), tuples built from distinct points (no collapsed
pair), pairs with both labels, hyper-parameters at documented defaults except iteration caps (kept small) and the
data-dependent feasibility limits (n_chunks, n_basis).  MMC only with diagonal=False.  'lda' init only with
n_components <= n_classes - 1 (the data are generated with enough classes).

Outside the quantifier / not demanded (skipped, counted by reason in `rule`): SDML's documented RuntimeError ("There was a
problem in SDML when using ... graphical lasso solver": the external solver gave up or SDML's own vetting rejected its
result -- a declared exit, see C13), with or without SDML's prior ConvergenceWarning that the solver input is not PSD;
cases that exceed the per-case time limit.
"""
import multiprocessing
import signal
import warnings
import zlib

import numpy as np

from .common import repo, PUBLIC, KIND

HAS_NC = ('LFDA', 'LMNN', 'NCA', 'MLKR', 'RCA', 'RCA_Supervised')
SCML_FAMILY = ('SCML', 'SCML_Supervised')
MODULE = {'Covariance': 'covariance', 'LFDA': 'lfda', 'LMNN': 'lmnn', 'NCA': 'nca', 'MLKR': 'mlkr', 'RCA': 'rca',
          'RCA_Supervised': 'rca', 'ITML': 'itml', 'ITML_Supervised': 'itml', 'MMC': 'mmc', 'MMC_Supervised': 'mmc',
          'SDML': 'sdml', 'SDML_Supervised': 'sdml', 'LSML': 'lsml', 'LSML_Supervised': 'lsml', 'SCML': 'scml',
          'SCML_Supervised': 'scml'}
TUPLE_SIZE = {c: KIND[c][1] for c in PUBLIC if KIND[c][1]}
CASE_TIMEOUT = {'quick': 50, 'thorough': 240, 'replay': 50}
D_VALUES = {'quick': (2, 3, 4, 5, 6, 7, 8), 'thorough': (2, 3, 4, 5, 6, 7, 8)}
REPS = {'quick': 1, 'thorough': 20}
INLINE_LIMIT = 600      # numbers; larger failing inputs are described by their recipe only


class _Timeout(BaseException):
  pass


def _alarm(signum, frame):
  raise _Timeout()


# ------------------------------------------------------------------------------------------------ data (well-formed)
def _rs(key, seed):
  return np.random.RandomState((zlib.crc32(key.encode()) + 7919 * int(seed)) & 0xffffffff)


def dataset(rs, d, n_classes):
  """points (n, d) with n >= 4d, >= 4 members in each of n_classes >= 2 classes, continuous, cond(mixing) <= 4"""
  n = max(4 * d, 4 * n_classes) + int(rs.randint(0, d + 1))
  y = np.concatenate([np.repeat(np.arange(n_classes), 4), rs.randint(0, n_classes, n - 4 * n_classes)])
  rs.shuffle(y)
  q1, _ = np.linalg.qr(rs.randn(d, d))
  q2, _ = np.linalg.qr(rs.randn(d, d))
  A = (q1 * rs.uniform(0.5, 2.0, d)).dot(q2)
  means = 2.0 * rs.randn(n_classes, d)
  X = rs.randn(n, d).dot(A) + means[y]
  return X, y.astype(int)


def _same_diff(y):
  n = len(y)
  same = [(i, j) for i in range(n) for j in range(i + 1, n) if y[i] == y[j]]
  diff = [(i, j) for i in range(n) for j in range(i + 1, n) if y[i] != y[j]]
  return same, diff


def make_pairs(rs, X, y):
  """(m, 2, d) pairs of DISTINCT points with labels +1 (same class) / -1 (different class), both present"""
  same, diff = _same_diff(y)
  m = min(len(same), len(diff), len(y))
  ps = [same[i] for i in rs.choice(len(same), m, replace=False)]
  ng = [diff[i] for i in rs.choice(len(diff), m, replace=False)]
  idx = np.array(ps + ng)
  flip = rs.rand(len(idx)) < 0.5
  idx[flip] = idx[flip][:, ::-1]
  lab = np.array([1] * m + [-1] * m)
  perm = rs.permutation(len(idx))
  return X[idx[perm]], lab[perm]


def make_triplets(rs, X, y):
  """(m, 3, d): (anchor, same-class point != anchor, other-class point); m = 3n >= n_features"""
  n = len(y)
  out = []
  for _ in range(3 * n):
    a = int(rs.randint(n))
    p = rs.choice([i for i in range(n) if y[i] == y[a] and i != a])
    q = rs.choice([i for i in range(n) if y[i] != y[a]])
    out.append((a, int(p), int(q)))
  return X[np.array(out)]


def make_quadruplets(rs, X, y):
  """(m, 4, d): (a, b) same class and distinct, (c, d) different classes: d(a,b) < d(c,d) is the intended constraint"""
  same, diff = _same_diff(y)
  m = 2 * len(y)
  ab = [same[i] for i in rs.choice(len(same), m, replace=True)]
  cd = [diff[i] for i in rs.choice(len(diff), m, replace=True)]
  return X[np.array([a + c for a, c in zip(ab, cd)])]


def make_chunks(rs, y):
  """RCA chunklets: points of one class, sizes 2..3, a few points left unchunked (-1); chunked - n_chunks >= d holds
  because at most one point per class is left out and n >= 4d"""
  chunks = -np.ones(len(y), dtype=int)
  c = 0
  for lab in np.unique(y):
    members = list(rs.permutation(np.where(y == lab)[0]))
    while len(members) >= 2:
      size = 3 if (len(members) == 3 or (len(members) >= 5 and rs.rand() < 0.4)) else 2
      for i in members[:size]:
        chunks[i] = c
      members = members[size:]
      c += 1
  return chunks


def spd(rs, d):
  B = rs.randn(d, d)
  return B.dot(B.T) / d + np.eye(d)


# ------------------------------------------------------------------------------------------------ configurations
def _nc_values(d):
  return [None] + list(range(1, d + 1))


def _nc_sig(nc, d):
  return 'None' if nc is None else ('<d' if nc < d else '=d')


def configurations(cls, d, tier):
  """yield (opts, sig, n_classes or None) -- opts hold symbolic 'array' markers resolved per dataset;
  sig is the seed- and size-independent class of the configuration"""
  if cls == 'Covariance':
    yield {}, '', None
  elif cls == 'LFDA':
    for emb in ('weighted', 'orthonormalized', 'plain'):
      for k in [None] + list(range(1, d)):
        for nc in _nc_values(d):
          yield (dict(embedding_type=emb, k=k, n_components=nc),
                 'embedding_type=%s,k=%s,n_components%s' % (emb, 'None' if k is None else 'int', _nc_sig(nc, d)), None)
  elif cls in ('LMNN', 'NCA', 'MLKR'):
    inits = ['auto', 'pca', 'identity', 'random', 'array'] + ([] if cls == 'MLKR' else ['lda'])
    small = dict(LMNN=dict(max_iter=12), NCA=dict(max_iter=8), MLKR=dict(max_iter=8))[cls]
    for init in inits:
      for nc in _nc_values(d):
        ncl = None
        if init == 'lda':
          ncl = (d if nc is None else nc) + 1      # n_components <= n_classes - 1
          ncl = max(ncl, 2)
        yield dict(init=init, n_components=nc, **small), 'init=%s,n_components%s' % (init, _nc_sig(nc, d)), ncl
  elif cls in ('RCA', 'RCA_Supervised'):
    for nc in _nc_values(d):
      o = dict(n_components=nc)
      if cls == 'RCA_Supervised':
        o.update(n_chunks='feasible', chunk_size=2)
      yield o, 'n_components%s' % _nc_sig(nc, d), None
  elif cls in ('ITML', 'ITML_Supervised', 'LSML', 'LSML_Supervised', 'SDML', 'SDML_Supervised'):
    for prior in ('identity', 'covariance', 'random', 'array'):
      o = dict(prior=prior)
      if cls.startswith('ITML'):
        o['max_iter'] = 25
      if cls.startswith('LSML'):
        o['max_iter'] = 10
      if cls.startswith('SDML'):
        # the default balance_param (0.5) mostly makes SDML announce a non-PSD solver input and give up (its documented
        # RuntimeError: skipped); 1e-5 is a value the repository's own tests use
        for bp in (0.5, 1e-5):
          yield dict(o, balance_param=bp), 'prior=%s,balance_param=%g' % (prior, bp), None
      else:
        yield o, 'prior=%s' % prior, None
  elif cls in ('MMC', 'MMC_Supervised'):
    for init in ('identity', 'covariance', 'random', 'array', 'array32'):     # array32: the SPD array given in single precision
      yield dict(init=init, diagonal=False, max_iter=8), 'init=%s,diagonal=False' % init, None
  elif cls in SCML_FAMILY:
    for basis in (('triplet_diffs', 'array') if cls == 'SCML' else ('triplet_diffs', 'lda', 'array')):
      for nb in ((None,) if basis == 'array' else (None, 'int', 'd')):
        for beta in (1e-5, 0.1):      # the default, and a strong L1 penalty that makes the documented low-rank case occur
          yield (dict(basis=basis, n_basis=nb, beta=beta, max_iter=300, output_iter=100),
                 'basis=%s,n_basis=%s,beta=%g' % (basis, nb, beta), None)


def _resolve(cls, opts, d, rs, y, case_seed):
  """symbolic option values -> concrete documented values for this dataset"""
  p = dict(opts)
  k = p.get('n_components') or d
  if p.get('init') == 'array':
    p['init'] = spd(rs, d) if cls.startswith('MMC') else rs.randn(k, d)
  elif p.get('init') == 'array32':
    p['init'] = spd(rs, d).astype(np.float32)
  if p.get('prior') == 'array':
    p['prior'] = spd(rs, d)
  if p.get('basis') == 'array':
    B = rs.randn(4 * d, d)
    p['basis'] = B / np.linalg.norm(B, axis=1, keepdims=True)
  if p.get('n_basis') == 'int':
    if p['basis'] == 'lda':
      num_eig = min(len(np.unique(y)) - 1, d)
      p['n_basis'] = int(min(4 * d, len(y) * 2 * num_eig - 1))
    else:
      p['n_basis'] = 6 * d
  if p.get('n_basis') == 'd':
    p['n_basis'] = d
  if isinstance(p.get('n_components'), int) and case_seed % 3 == 1:
    p['n_components'] = np.int64(p['n_components'])      # an integer taken from a numpy range / parameter grid is a legitimate value of the option
  if p.get('n_chunks') == 'feasible':
    max_chunks = int(sum(c // 2 for c in np.bincount(y)))
    p['n_chunks'] = max_chunks        # >= n/2 - n_classes/2 >= d: the inner covariance is full rank
  if cls not in ('Covariance', 'LFDA', 'RCA'):
    p['random_state'] = int(case_seed % 100003)
  return p


def _fit_args(cls, rs, X, y):
  kind = KIND[cls][0]
  if cls == 'Covariance':
    return (X,)
  if cls == 'RCA':
    return (X, make_chunks(rs, y))
  if cls == 'MLKR':
    w = rs.randn(X.shape[1])
    return (X, X.dot(w) + 0.1 * rs.randn(len(X)))
  if kind == 'points':
    return (X, y)
  if kind == 'pairs':
    return make_pairs(rs, X, y)
  if kind == 'triplets':
    return (make_triplets(rs, X, y),)
  return (make_quadruplets(rs, X, y),)


def _jsonable(v):
  if isinstance(v, np.ndarray):
    return v.tolist()
  if isinstance(v, (np.integer,)):
    return int(v)
  if isinstance(v, (np.floating,)):
    return float(v)
  return v


def _describe_input(cls, params, args, recipe):
  size = sum(np.size(a) for a in args) + sum(np.size(v) for v in params.values() if isinstance(v, np.ndarray))
  out = dict(estimator=cls, params={k: (_jsonable(v) if np.size(v) <= INLINE_LIMIT else 'ndarray%s (see recipe)' % (np.shape(v),))
                                    for k, v in params.items()},
             recipe=recipe, fit_arg_shapes=[list(np.shape(a)) for a in args])
  if size <= INLINE_LIMIT:
    out['fit_args'] = [_jsonable(np.asarray(a)) for a in args]
  return out


# ------------------------------------------------------------------------------------------------ the oracle
def _oracle(cls, est, ret, d, nc_given, Xtest, recorded):
  """-> list of (clause, observed, signature detail)"""
  fails = []
  if ret is not est:
    fails.append(('fit-returns-self', 'fit returned %s' % (type(ret).__name__ if ret is not None else 'None'),
                  'fit does not return the estimator'))
  L = getattr(est, 'components_', None)
  if not isinstance(L, np.ndarray) or L.ndim != 2:
    fails.append(('components-2d-array', 'components_ is %s' % ('missing' if L is None else
                  '%s ndim=%s' % (type(L).__name__, getattr(L, 'ndim', '?'))), 'components_ not a 2-D array'))
    L = None
  usable = L is not None
  if L is not None:
    if L.dtype.kind != 'f':
      fails.append(('components-real-dtype', 'components_.dtype = %s (max |imag| = %s)' % (
        L.dtype, np.abs(L.imag).max() if L.dtype.kind == 'c' and L.size else 'n/a'), 'components_ dtype %s' % L.dtype.kind))
      usable = False
    try:
      finite = bool(np.all(np.isfinite(L)))
    except TypeError:
      finite = False
    if not finite:
      fails.append(('components-finite', 'components_ has non-finite entries (%d of %d)' % (
        int(np.sum(~np.isfinite(L))) if L.dtype.kind in 'fc' else -1, L.size), 'components_ not finite'))
      usable = False
    k = L.shape[0]
    if L.shape[1] != d:
      fails.append(('components-shape', 'components_.shape = %s, n_features = %d' % (L.shape, d), 'components_.shape[1] != n_features'))
    elif nc_given is not None:
      if k != nc_given:
        fails.append(('components-shape', 'components_.shape = %s, n_components = %d' % (L.shape, nc_given),
                      'components_.shape[0] != n_components'))
    elif cls in SCML_FAMILY:
      if k > d:
        fails.append(('components-shape', 'components_.shape = %s: k > n_features = %d' % (L.shape, d), 'k > n_features'))
      elif k < d and not any('reduces the dimension' in str(w.message) for w in recorded):
        fails.append(('lowrank-warned', 'components_.shape = %s with k < n_features = %d and no low-rank warning' % (L.shape, d),
                      'SCML low rank without warning'))
    elif k != d:
      fails.append(('components-shape', 'components_.shape = %s but n_components is not given and n_features = %d' % (L.shape, d),
                    'k != n_features without n_components'))
  # induced matrix (dependent on a real finite L)
  if usable and L.shape[1] == d:
    try:
      M = np.asarray(est.get_mahalanobis_matrix())
      if M.shape != (d, d):
        fails.append(('M-symmetric-psd', 'get_mahalanobis_matrix().shape = %s' % (M.shape,), 'M shape'))
      elif M.dtype.kind != 'f' or not np.all(np.isfinite(M)):
        fails.append(('M-symmetric-psd', 'get_mahalanobis_matrix() dtype %s / non-finite' % M.dtype, 'M not real finite'))
      else:
        scale = max(np.abs(M).max(), 1e-300)
        rnd = max(1e-9, 100 * float(np.finfo(M.dtype).eps))      # "up to rounding" of M's own precision (single precision when the init array was)
        asym = np.abs(M - M.T).max()
        ev = np.linalg.eigvalsh((M + M.T) / 2)
        if asym > rnd * scale:
          fails.append(('M-symmetric-psd', 'max |M - M.T| = %.3g at scale %.3g' % (asym, scale), 'M not symmetric'))
        elif ev.min() < -rnd * max(np.abs(ev).max(), 1e-300):
          fails.append(('M-symmetric-psd', 'min eigenvalue %.3g (max %.3g)' % (ev.min(), ev.max()), 'M not PSD'))
    except Exception as e:
      fails.append(('M-symmetric-psd', 'get_mahalanobis_matrix raised %s: %s' % (type(e).__name__, str(e)[:200]),
                    'get_mahalanobis_matrix raises'))
  # SLEP010 count
  nfi = getattr(est, 'n_features_in_', None)
  if nfi is None or isinstance(nfi, bool) or nfi != d:
    fails.append(('n_features_in', 'n_features_in_ = %r, n_features of the fitted points = %d' % (nfi, d),
                  'n_features_in_ missing' if nfi is None else 'n_features_in_ != n_features'))
  # transform
  if L is not None and L.shape[1] == d:
    try:
      out = np.asarray(est.transform(Xtest))
      if out.shape != (len(Xtest), L.shape[0]):
        fails.append(('transform-shape', 'transform of %s gives %s, components_.shape = %s' % (Xtest.shape, out.shape, L.shape),
                      'transform output shape'))
    except Exception as e:
      fails.append(('transform-shape', 'transform raised %s: %s' % (type(e).__name__, str(e)[:200]), 'transform raises'))
  return fails


def _sdml_documented_failure(cls, exc, recorded):
  """SDML vets the result of the external graphical-lasso solver and converts a solver failure / non-SPD / non-finite
  result into a RuntimeError with a fixed message (a declared exit, see C13): not a C03 violation, but counted.
  -> None, or the reason for skipping"""
  if not (cls.startswith('SDML') and isinstance(exc, RuntimeError) and 'There was a problem in SDML' in str(exc)):
    return None
  if any('not positive semi-definite' in str(w.message) for w in recorded):
    return 'SDML announced a non-PSD graphical-lasso input and raised its documented RuntimeError'
  return 'SDML raised its documented RuntimeError (external graphical-lasso solver gave up) without the non-PSD announcement'


def _evaluate(spec):
  """-> ('ok' | 'skip' | 'fail', payload)"""
  cls, opts, sig, d, ncl, key, seed, refit_from, tier = spec
  ml = repo()
  rs = _rs(key, seed)
  case_seed = int(rs.randint(1, 2 ** 31 - 1))
  steps = []
  if refit_from is not None:
    steps.append(refit_from)
  steps.append(d)
  try:      # safety net only (a fit that does not terminate must not hang the check); needs the main thread
    old = signal.signal(signal.SIGALRM, _alarm)
    signal.alarm(CASE_TIMEOUT.get(tier, 50))
  except ValueError:
    old = None
  try:
    with warnings.catch_warnings(record=True) as recorded:
      warnings.simplefilter('always')
      est = None
      for step, dd in enumerate(steps):
        X, y = dataset(rs, dd, ncl)
        params = _resolve(cls, opts, dd, rs, y, case_seed)
        args = _fit_args(cls, rs, X, y)
        Xtest = rs.randn(5, dd)
        recipe = dict(generator='standins.c03 (dataset/_resolve/_fit_args with RandomState from key+seed)', key=key, seed=seed,
                      n_features=dd, n_samples=len(X), n_classes=ncl, refit_from_n_features=refit_from)
        if est is None:
          est = getattr(ml, cls)(**params)
        else:
          est.set_params(**params)
        del recorded[:]
        try:
          ret = est.fit(*args)
        except Exception as e:
          why = _sdml_documented_failure(cls, e, recorded)
          if why:
            return 'skip', why
          if step + 1 < len(steps):
            return 'skip', 'first fit of a refit case raised (reported by the single-fit case)'
          return 'fail', dict(tag='fit-returns', observed='fit raised %s: %s' % (type(e).__name__, str(e)[:300]),
                              input=_describe_input(cls, params, args, recipe),
                              signature='%s(%s): fit raises %s' % (cls, sig, type(e).__name__), more=[])
      fails = _oracle(cls, est, ret, d, opts.get('n_components') if cls in HAS_NC else None, Xtest, list(recorded))
  except _Timeout:
    return 'skip', 'time limit'
  finally:
    if old is not None:
      signal.alarm(0)
      signal.signal(signal.SIGALRM, old)
  if not fails:
    return 'ok', None
  inp = _describe_input(cls, params, args, recipe)
  out = []
  for tag, observed, detail in fails:
    if tag == 'n_features_in':
      nfi = getattr(est, 'n_features_in_', None)
      if refit_from is not None and nfi == refit_from:
        detail = 'n_features_in_ stale after refit on points with another n_features'
      elif cls in TUPLE_SIZE and nfi == TUPLE_SIZE[cls]:
        detail = 'n_features_in_ == tuple size, not n_features'
    out.append(dict(tag=tag, observed=observed, input=inp, signature='%s(%s): %s' % (cls, sig, detail)))
  first = out[0]
  first['more'] = out[1:]
  return 'fail', first


# ------------------------------------------------------------------------------------------------ interface
def _specs(tier, seed):
  t = tier if tier in D_VALUES else 'quick'
  for d in D_VALUES[t]:
    for cls in PUBLIC:
      for opts, sig, ncl in configurations(cls, d, t):
        for rep in range(REPS[t]):
          if ncl is None:
            n_classes = 2 + (zlib.crc32(('%s|%s|%d|%d' % (cls, sig, d, rep)).encode()) % 3)
          else:
            n_classes = ncl
          key = '%s(%s) d=%d classes=%d rep=%d' % (cls, ','.join('%s=%s' % kv for kv in sorted(opts.items(), key=str)), d, n_classes, rep)
          yield (cls, opts, sig, d, n_classes, key, seed, None, tier)
  # refit: the same estimator object fitted on points with 3 features, then on points with 5 (and 5 then 3):
  # every clause is evaluated against the LAST fit
  for cls in PUBLIC:
    for d0, d1 in ((3, 5), (5, 3)) + (((2, 8), (8, 2)) if t == 'thorough' else ()):
      opts, sig, _ = next(c for c in configurations(cls, d1, t) if 'balance_param=0.5' not in c[1])
      opts = dict(opts)
      if 'n_components' in opts:
        opts['n_components'] = None
      if 'k' in opts:
        opts['k'] = None
      key = '%s refit d=%d->%d' % (cls, d0, d1)
      yield (cls, opts, 'refit', d1, 2, key, seed, d0, tier)


def _tags(cls):
  return (MODULE[cls], cls, 'base_metric', '_util')


def cases(tier, seed):
  for spec in _specs(tier, seed):
    def thunk(spec=spec):
      status, payload = _evaluate(spec)
      return payload if status == 'fail' else None
    yield spec[5], _tags(spec[0]), thunk


_WORK = None


def _worker(i):
  try:
    from threadpoolctl import threadpool_limits
    with threadpool_limits(1):
      return _evaluate(_WORK[i])
  except ImportError:
    return _evaluate(_WORK[i])


def _run_specs(specs, jobs=16, stop_at_first_failure=False, wanted_tags=None):
  global _WORK
  _WORK = specs
  results = [None] * len(specs)
  ctx = multiprocessing.get_context('fork')
  # longest-running estimators first, results keep the generation order
  order = sorted(range(len(specs)), key=lambda i: (specs[i][0] not in ('MMC', 'MMC_Supervised', 'SCML_Supervised', 'LMNN'), -specs[i][3]))
  if stop_at_first_failure:
    order = list(range(len(specs)))
  pool = ctx.Pool(min(jobs, max(1, len(specs))))
  try:
    for i, r in zip(order, pool.imap(_worker, order, chunksize=1)):
      results[i] = r
      if stop_at_first_failure and r[0] == 'fail' and (not wanted_tags or _pick(r[1], wanted_tags)):
        break
  finally:
    pool.terminate()
    pool.join()
    _WORK = None
  return results


def run(tier, seed):
  specs = list(_specs(tier, seed))
  results = _run_specs(specs)
  vio = {}
  skipped = {}
  distinct = set()
  for spec, (status, payload) in zip(specs, results):
    distinct.add(spec[5])
    if status == 'skip':
      skipped[payload] = skipped.get(payload, 0) + 1
    elif status == 'fail':
      for f in [payload] + payload.get('more', []):
        k = (f['tag'], f['signature'])
        if k in vio:
          vio[k]['count'] += 1
        else:
          vio[k] = dict(clause='runtime/C03/%s' % f['tag'], input=f['input'], observed=f['observed'], signature=f['signature'], count=1)
  t = tier if tier in D_VALUES else 'quick'
  step = max(1, len(specs) // 8)
  return dict(
    cases=len(specs), distinct_nontrivial=len(distinct),
    rule='17 estimators x Cartesian product of documented option values (LMNN/NCA init in {auto,pca,identity,random,array,lda}, MLKR without lda; '
         'ITML/LSML/SDML prior and MMC init in {identity,covariance,random,SPD array}, MMC diagonal=False, SDML balance_param in {0.5,1e-5}; '
         'LFDA embedding_type x k in {None,1..d-1}; RCA/RCA_Supervised; SCML basis in {triplet_diffs,array}, SCML_Supervised also lda, '
         'n_basis in {None,6d,d}, beta in {1e-5,0.1}; n_components in {None,1..d}) x '
         'generated well-formed datasets, plus a refit of every estimator on points with a different n_features; every case is a real fit, so all are '
         'non-trivial; distinct = distinct (class, options, n_features, n_classes, repetition); skipped (outside the quantifier): %s' % (skipped or 'none'),
    bound='n_features in %s, n_samples in [max(4d,4c), max(4d,4c)+d], 2..d+1 classes of >= 4 members, %d dataset(s) per configuration, '
          'iteration caps LMNN 12 / NCA 8 / MLKR 8 / ITML 25 / LSML 10 / MMC 8 (max_proj default) / SCML 300' % (list(D_VALUES[t]), REPS[t]),
    standin_samples=[specs[i][5] for i in range(0, len(specs), step)][:8],
    violations=sorted(vio.values(), key=lambda v: (v['clause'], v['signature'])))


CLAUSE_HINTS = (('n_features_in', 'n_features_in'), ('dtype', 'components-real-dtype'), ('complex', 'components-real-dtype'),
                ('finite', 'components-finite'), ('ndim', 'components-2d-array'), ('shape', 'components-shape'),
                ('dim', 'components-shape'), ('n_components', 'components-shape'), ('transform', 'transform-shape'),
                ('psd', 'M-symmetric-psd'), ('spd', 'M-symmetric-psd'), ('symm', 'M-symmetric-psd'), ('self', 'fit-returns-self'),
                ('warn', 'lowrank-warned'), ('wf', 'fit-returns'), ('exit', 'fit-returns'), ('raise', 'fit-returns'))


def _pick(payload, wanted_tags):
  """the failing clause of a case that matches one of wanted_tags (None if there is none)"""
  for f in [payload] + payload.get('more', []):
    if f['tag'] in wanted_tags:
      return f
  return None


def replay_clause(cid, fail, seed):
  """first failing case (smallest n_features first) that exercises the module / class named in cid -- preferring a failure
  of the run-time clause the obligation's name points to --, else any failing case of the property"""
  mod = cid.split(':')[0].split('/')[-1]
  rest = cid.split(':', 1)[1] if ':' in cid else cid
  fn = rest.split('[')[0]
  low = rest.lower()
  wanted_tags = [tag for word, tag in CLAUSE_HINTS if word in low.split('/')[-1]] or [tag for word, tag in CLAUSE_HINTS if word in low]
  specs = list(_specs('replay', seed))
  wanted = [s for s in specs if MODULE[s[0]] == mod]
  by_class = [s for s in wanted if s[0] in fn or s[0].split('_')[0] in fn]
  fallback = None
  for group in (by_class, wanted if len(wanted) != len(by_class) else [], specs if not wanted else []):
    if not group:
      continue
    res = _run_specs(group, stop_at_first_failure=True, wanted_tags=wanted_tags)
    for s, r in zip(group, res):
      if r is not None and r[0] == 'fail':
        f = _pick(r[1], wanted_tags) if wanted_tags else r[1]
        if f is not None:
          return dict(failing_input=f['input'], observed='%s: %s' % (f['tag'], f['observed']))
        if fallback is None:
          fallback = dict(failing_input=r[1]['input'],
                          observed='(no case fails the run-time clause this obligation points to; another clause of C03 fails here) '
                                   '%s: %s' % (r[1]['tag'], r[1]['observed']))
  if fallback is not None:
    return fallback
  return dict(note='no failing input among the quick stand-in cases for %s' % (mod if wanted else 'any estimator'))
