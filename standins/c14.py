"""C14 bounded stand-in / replay: MMC.fit / MMC_Supervised.fit of the REAL code on generated inputs; the property statement is
the oracle.  bounded -- not proved.

The initial matrix A0 is the documented `init` option (obtained through the initialiser whose contract is C20) and the
budget  t = (sum over similar pairs of v^T A0 v) / 100  is computed here.

diagonal=False
  hypothesis       "max_proj large enough for one projection to converge": a probe fit with max_iter=1 returns A0 itself
                   exactly when the first projection loop ran out of max_proj (no iterate was ever accepted); such
                   instances are retried with max_proj = 100000 when max_iter <= 10 and are otherwise outside the
                   quantifier and skipped (counted in `rule`).
  psd              min eigenvalue of M >= -1e-8 * max |eigenvalue|
  budget           sum over similar pairs of v^T M v <= 1.01 * t   (1e-9 relative rounding slack)
  init-is-starting-point
                   with max_iter=1 the result is the projection of A0 onto {sum_S <= t} and the PSD cone: it lies on or
                   above the hyperplane, t <= sum_S(M) (the PSD clipping only adds a PSD matrix), so the budget that
                   is met is the one computed from THAT init (init arrays at scales 1e-3, 1, 1e3 are generated)
  improves-dissimilar-objective
                   every iterate accepted after the first has a larger sum of dissimilar-pair distances than the one
                   before, so  sum_D dist_M(max_iter = k) >= sum_D dist_M(max_iter = 1)  (1e-7 relative slack)
diagonal=True      fit returns a matrix that is exactly diagonal, with entries >= 0 and without NaN, or raises ValueError.
                   n_iter_ / converged_ are not looked at (finding F14 belongs to C17).
"""
import collections
import multiprocessing
import warnings

import numpy as np

from .common import repo

TAG_FULL = 'mmc:_BaseMMC._fit_full'
TAG_DIAG = 'mmc:_BaseMMC._fit_diag'
INITS = ('identity', 'covariance', 'random', 'array', 'array*1e-3', 'array*1e3')
MAX_ITERS = (1, 10, 100)
TOLS = (1e-3, 1e-6, 1e-2, 5e-2, 0.2)        # tol is the convergence threshold of the OUTER ascent; the 1% projection tolerance does not depend on it
DIAG_C = (0.1, 1.0, 10.0)
BIG_MAX_PROJ = 100000    # second attempt (max_iter <= 10 only, for time) when the first projection needs more than the default 10000


# ---------------------------------------------------------------------------------------------------- instances
def specs(tier, seed):
  rng = np.random.RandomState(seed)
  n_inst = 48 if tier == 'quick' else 360
  out = []
  for k in range(n_inst):
    d = 2 + k % 4
    init = INITS[(k // 4) % 6]
    diagonal = (k % 3 == 2)
    supervised = (k % 5 == 3)
    max_iter = MAX_ITERS[int(rng.randint(3))]
    spec = dict(index=k, d=d, init=init, diagonal=diagonal, cls='MMC_Supervised' if supervised else 'MMC', max_iter=max_iter,
                tol=TOLS[int(rng.randint(3))] if k % 6 else TOLS[3 + (k // 6) % 2], diagonal_c=DIAG_C[int(rng.randint(3))], random_state=int(rng.randint(1 << 30)),
                init_seed=int(rng.randint(1 << 30)))
    scale = (0.3, 1.0, 5.0)[int(rng.randint(3))]
    if supervised:
      n = int(rng.randint(12, 31))
      ncls = int(rng.randint(2, 4))
      centers = rng.randn(ncls, d) * 2
      lab = np.arange(n) % ncls
      spec.update(X=(centers[lab] + rng.randn(n, d)) * scale, labels=lab, n_constraints=int(rng.randint(8, 41)))
    else:
      n = int(rng.randint(d + 4, 31))
      pairs = rng.randn(n, 2, d) * scale
      y = np.where(rng.rand(n) < (0.3, 0.5, 0.7)[int(rng.randint(3))], 1, -1)
      y[0], y[1] = 1, -1
      close = (y == 1) & (rng.rand(n) < 0.5)    # some similar pairs really are close
      pairs[close, 1] = pairs[close, 0] + 0.2 * scale * rng.randn(int(close.sum()), d)
      if k % 3 == 1:
        # hub points: two points take part in many pairs each (pairs drawn from a data set re-use points with unequal multiplicity)
        hubs = rng.randn(2, d) * scale
        for r in range(0, n, 2):
          pairs[r, r % 4 // 2] = hubs[(r // 2) % 2]
      spec.update(pairs=pairs, y=y)
    out.append(spec)
  return out


def init_argument(spec):
  from sklearn.datasets import make_spd_matrix
  if spec['init'].startswith('array'):
    A = make_spd_matrix(spec['d'], random_state=spec['init_seed'])
    A = A * {'array': 1.0, 'array*1e-3': 1e-3, 'array*1e3': 1e3}[spec['init']]
    # the same matrix in another memory layout for every other instance (column-major: np.asfortranarray / a transposed view are ndarrays too)
    return np.asfortranarray(A) if spec['index'] % 2 else A
  return spec['init']


def training_pairs(spec):
  """the labelled pairs the learner works on (for the supervised class: the pairs it draws from its random_state)"""
  if spec['cls'] == 'MMC':
    return spec['pairs'], spec['y']
  from metric_learn.constraints import Constraints, wrap_pairs
  with warnings.catch_warnings():
    warnings.simplefilter('ignore')
    pos_neg = Constraints(spec['labels']).positive_negative_pairs(spec['n_constraints'], random_state=spec['random_state'])
  return wrap_pairs(spec['X'], pos_neg)


def fit(ml, spec, init, max_iter, max_proj=10000):
  kw = dict(init=init, max_iter=max_iter, max_proj=max_proj, tol=spec['tol'], diagonal=spec['diagonal'],
            diagonal_c=spec['diagonal_c'], random_state=spec['random_state'])
  if spec['cls'] == 'MMC':
    return ml.MMC(**kw).fit(spec['pairs'].copy(), spec['y'].copy())
  return ml.MMC_Supervised(n_constraints=spec['n_constraints'], **kw).fit(spec['X'].copy(), spec['labels'].copy())


def fit_marked(ml, spec, init, max_iter, inp, max_proj=10000):
  try:
    return fit(ml, spec, init, max_iter, max_proj)
  except Exception as e:
    raise FitRaised(inp) from e


def describe(spec):
  return '%s d=%d init=%s diagonal=%s max_iter=%d tol=%g #%d' % (spec['cls'], spec['d'], spec['init'], spec['diagonal'],
                                                                  spec['max_iter'], spec['tol'], spec['index'])


def tags(spec):
  return (TAG_DIAG,) if spec['diagonal'] else (TAG_FULL,)


def check(spec):
  """-> (outcome class, None | violation dict)"""
  ml = repo()
  from metric_learn._util import _initialize_metric_mahalanobis
  init = init_argument(spec)
  inp = dict(estimator=spec['cls'], init=init.tolist() if isinstance(init, np.ndarray) else init, max_iter=spec['max_iter'],
             tol=spec['tol'], diagonal=spec['diagonal'], diagonal_c=spec['diagonal_c'], random_state=spec['random_state'])
  if spec['cls'] == 'MMC':
    inp.update(pairs=spec['pairs'].tolist(), y=spec['y'].tolist())
  else:
    inp.update(X=spec['X'].tolist(), labels=spec['labels'].tolist(), n_constraints=spec['n_constraints'])

  def bad(tag, observed):
    return dict(tag=tag, observed=observed, input=inp,
                klass='%s %s init=%s: %s' % (spec['cls'], 'diagonal' if spec['diagonal'] else 'full', spec['init'].split('*')[0], tag))

  with warnings.catch_warnings():
    warnings.simplefilter('ignore')
    with np.errstate(all='ignore'):
      pairs, y = training_pairs(spec)
      if not ((y == 1).any() and (y == -1).any()):
        return 'outside quantifier: one label only', None
      # ---------------------------------------------------------------------------------------------- diagonal
      if spec['diagonal']:
        try:
          est = fit(ml, spec, init, spec['max_iter'])
        except ValueError:
          return 'diagonal: ValueError', None
        except Exception as e:
          raise FitRaised(inp) from e
        M = est.get_mahalanobis_matrix()
        if np.isnan(M).any():
          return 'diagonal: returned', bad('diagonal-no-nan', 'M = %r' % (M.tolist(),))
        if np.any(M[~np.eye(len(M), dtype=bool)] != 0):
          return 'diagonal: returned', bad('diagonal-is-diagonal', 'M = %r' % (M.tolist(),))
        if np.any(np.diag(M) < 0):
          return 'diagonal: returned', bad('diagonal-non-negative', 'diag M = %r' % (np.diag(M).tolist(),))
        return 'diagonal: returned', None
      # -------------------------------------------------------------------------------------------------- full
      A0 = _initialize_metric_mahalanobis(pairs, init, random_state=spec['random_state'], matrix_name='init')
      if init == 'covariance' if isinstance(init, str) else False:
        # the documented meaning of the option, computed independently of the initialiser: (pseudo-)inverse of the covariance matrix of the
        # DISTINCT training points (a point taking part in several pairs counts once)
        P = np.unique(np.vstack([pairs[:, 0], pairs[:, 1]]), axis=0)
        Cp = np.atleast_2d(np.cov(P, rowvar=False))
        cond = float(np.linalg.cond(Cp))
        if cond < 1e10:
          A0i = np.linalg.pinv(Cp, hermitian=True)
          if not np.allclose(A0, A0i, rtol=0, atol=max(1e-9, 1e3 * np.finfo(float).eps * cond) * np.abs(A0i).max()):
            return 'full: checked', bad('init-is-starting-point', "init='covariance': the starting matrix differs from the inverse covariance of the %d distinct "
                                        'training points by %.3g (largest entry %.3g)' % (len(P), np.abs(A0 - A0i).max(), np.abs(A0i).max()))
      vs = (pairs[:, 0] - pairs[:, 1])[y == 1]
      vd = (pairs[:, 0] - pairs[:, 1])[y == -1]
      sum_s = lambda A: float(sum(v.dot(A).dot(v) for v in vs))
      sum_d = lambda A: float(sum(np.sqrt(max(v.dot(A).dot(v), 0.0)) for v in vd))
      t = sum_s(A0) / 100.0
      if not t > 0:
        return 'outside quantifier: zero budget', None
      max_proj = 10000
      M1 = fit_marked(ml, spec, init, 1, inp).get_mahalanobis_matrix()
      unmoved = lambda M: np.allclose(M, A0, rtol=1e-9, atol=1e-12 * np.abs(A0).max())
      if unmoved(M1) and spec['max_iter'] <= 10:
        max_proj = BIG_MAX_PROJ      # the default was not large enough for this instance: give it more
        inp['max_proj'] = max_proj
        M1 = fit_marked(ml, spec, init, 1, inp, max_proj).get_mahalanobis_matrix()
      if isinstance(init, np.ndarray) and not init.flags['C_CONTIGUOUS']:
        # "array: used as given": the values matter, not the memory layout -- the row-major copy of the same matrix is the same input
        Mc = fit_marked(ml, spec, np.ascontiguousarray(init), 1, inp, max_proj).get_mahalanobis_matrix()
        if not np.allclose(M1, Mc, rtol=1e-7, atol=1e-10 * np.abs(A0).max()):
          return 'full: checked (max_proj=%d)' % max_proj, bad('init-is-starting-point', 'max_iter=1: the column-major init array and its row-major copy give different '
                                      'matrices (sum_S d^2 / t = %.6g vs %.6g)' % (sum_s(M1) / t, sum_s(Mc) / t))
      if unmoved(M1):
        return 'outside quantifier: first projection did not converge within max_proj', None
      results = [(1, M1)]
      if spec['max_iter'] > 1:
        results.append((spec['max_iter'], fit_marked(ml, spec, init, spec['max_iter'], inp, max_proj).get_mahalanobis_matrix()))
      for mi, M in results:
        if not np.isfinite(M).all():
          return 'full: checked (max_proj=%d)' % max_proj, bad('psd', 'max_iter=%d: M not finite: %r' % (mi, M.tolist()))
        ev = np.linalg.eigvalsh((M + M.T) / 2)
        if ev.min() < -1e-8 * max(np.abs(ev).max(), 1e-300):
          return 'full: checked (max_proj=%d)' % max_proj, bad('psd', 'max_iter=%d: eigenvalues of M = %r' % (mi, ev.tolist()))
        s = sum_s(M)
        if s > 1.01 * t * (1 + 1e-9):
          return 'full: checked (max_proj=%d)' % max_proj, bad('budget', 'max_iter=%d: sum_S d_M^2 = %.12g > 1.01 * t = %.12g (t = sum_S d_A0^2 / 100 = %.12g; ratio to t %.6g)'
                                      % (mi, s, 1.01 * t, t, s / t))
      s1 = sum_s(M1)
      if s1 < t * (1 - 1e-9):
        return 'full: checked (max_proj=%d)' % max_proj, bad('init-is-starting-point', 'max_iter=1: sum_S d_M^2 = %.12g < t = %.12g computed from the init (ratio %.6g): '
                                    'not the projection of the init' % (s1, t, s1 / t))
      if spec['max_iter'] > 1:
        g1, gk = sum_d(M1), sum_d(results[1][1])
        if gk < g1 * (1 - 1e-7):
          return 'full: checked (max_proj=%d)' % max_proj, bad('improves-dissimilar-objective', 'sum_D d_M = %.12g after max_iter=%d < %.12g after max_iter=1'
                                      % (gk, spec['max_iter'], g1))
      return 'full: checked (max_proj=%d)' % max_proj, None


class FitRaised(Exception):
  """an exception that came out of the code under test (as opposed to an error of this oracle)"""


def safe_check(spec):
  kind = 'diagonal' if spec['diagonal'] else 'full'
  try:
    return check(spec)
  except FitRaised as f:
    e = f.__cause__
    name = type(e).__name__
    if spec['diagonal'] and name == 'NonPSDError':
      # components_from_metric refused the learned diagonal matrix: it had a negative entry
      return 'diagonal: raised NonPSDError', dict(
          tag='diagonal-non-negative', observed='fit raised %s: %s' % (name, str(e)[:300]), input=f.args[0],
          klass='%s diagonal init=%s: diagonal-non-negative (raised NonPSDError)' % (spec['cls'], spec['init'].split('*')[0]))
    if spec['diagonal']:
      # otherwise the property only speaks about what is RETURNED (and names ValueError as the alternative to a NaN result)
      return 'diagonal: raised %s (not judged)' % name, None
    # full matrix: NonPSDError comes from components_from_metric refusing the learned matrix -> the PSD clause
    tag = 'psd' if name == 'NonPSDError' else 'full-fit-raises'
    return 'full: raised %s' % name, dict(
        tag=tag, observed='fit raised %s: %s' % (name, str(e)[:300]), input=f.args[0],
        klass='%s full init=%s: %s (raised %s)' % (spec['cls'], spec['init'].split('*')[0], tag, name))
  except Exception as e:
    return '%s: oracle error' % kind, dict(tag='oracle-error', observed='%s: %s' % (type(e).__name__, str(e)[:300]),
                                           input=describe(spec), klass='oracle error')


def cases(tier, seed):
  for spec in specs(tier, seed):
    yield describe(spec), tags(spec), (lambda spec=spec: safe_check(spec)[1])


def run(tier, seed):
  repo()
  sp = specs(tier, seed)
  try:
    with multiprocessing.get_context('fork').Pool(min(16, multiprocessing.cpu_count())) as pool:
      res = pool.map(safe_check, sp, chunksize=1)
  except (OSError, ValueError):
    res = [safe_check(s) for s in sp]
  stats = collections.Counter(r[0] for r in res)
  vio = [dict(clause='runtime/C14/%s' % b['tag'], input=b['input'], observed=b['observed'], signature=b['klass'])
         for _, b in res if b]
  descs = [describe(s) for s in sp]
  nontrivial = set(d for d, r in zip(descs, res) if not r[0].startswith('outside quantifier'))
  return dict(cases=len(sp), distinct_nontrivial=len(nontrivial),
              rule='generated inputs: MMC on labelled pair sets (both labels, 6..30 pairs, three scales, some similar pairs close) and '
                   'MMC_Supervised on labelled points (2-3 classes, 8..40 constraints) x init in {identity, covariance, random, SPD array at '
                   'scales 1e-3, 1, 1e3} x max_iter in {1, 10, 100} x tol in {1e-3, 1e-6, 1e-2} x diagonal in {False, True} x diagonal_c in '
                   '{0.1, 1, 10}; max_proj = 10000 (default; 100000 on a second attempt when max_iter <= 10); budget t and the pair sums computed here; non-trivial = inside the '
                   "property's quantifier. Outcomes: %s" % '; '.join('%s = %d' % kv for kv in sorted(stats.items())),
              bound='n_features 2..5, <= 30 pairs / <= 40 constraints, %d instances' % len(sp),
              standin_samples=descs[::max(1, len(descs) // 6)][:6], violations=vio)


def replay_clause(cid, fail, seed):
  want = cid.split('/')[-1] if cid.startswith('runtime/') else None
  only = TAG_DIAG if '_fit_diag' in cid or (want or '').startswith('diagonal') else (TAG_FULL if '_fit_full' in cid or want else None)
  first = None
  for desc, tg, thunk in cases('quick', seed):
    if only is not None and only not in tg:
      continue
    b = thunk()
    if b:
      if want is None or b['tag'] == want:
        return dict(failing_input=b['input'], observed=b['observed'])
      first = first or b
  if first:
    return dict(failing_input=first['input'], observed=first['observed'])
  return dict(note='no failing input among the quick stand-in cases')
