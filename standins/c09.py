"""C09 bounded stand-in / replay: the closed-form learners (Covariance, RCA, LFDA) of the REAL tree are fitted on
generated well-formed data and their learned matrices are compared with an INDEPENDENT evaluation of the documented
definitions (pseudo-inverse of the sample covariance; inverse / whitening of the average within-chunk covariance and
the Fisher directions of (total, within-chunk); Sugiyama's pairwise local scatter matrices, evaluated pair by pair in
O(n^2), and their leading generalised eigenvectors).  bounded -- not proved.

Clauses (the violation's clause is runtime/C09/<name>):

  covariance-pinv                 M == pinv(cov(X)) (1/var when d == 1), also for cleanly rank-deficient covariance
  rca-full-inverse                n_components in (None, d): M == inv(C), C = average within-chunk covariance
  rca-whitening                   the within-chunk covariance of transform(X) is the identity (any n_components)
  rca-reduced-complex             n_components < d: components_ must be a real array
  rca-reduced-directions          n_components < d: row space of L == span of the generalised eigenvectors of
                                  (total covariance, C) with the largest total-to-within ratio
  lfda-local-scale                components_ == leading generalised eigenvectors (decreasing eigenvalue) of the
                                  pairwise-defined (S_b, S_w) whose affinity uses sigma_i = distance to the k-th nearest
                                  same-class neighbour, cap k_c = min(k, n_c - 1).  Always evaluated with the class
                                  labels named in order of DECREASING class size, so that a cap carried from one class
                                  to the next (see lfda-k-carried-across-classes) cannot interfere; the family
                                  'balanced' (every class >= k+1 points, no cap at all) isolates the scale itself.
  lfda-k-carried-across-classes   metamorphic: renaming the classes (a permutation of the label names) must not change M
  lfda-weighted-eigenvalue        embedding_type='weighted': row i is sqrt(lambda_i) * phi_i, lambda_i the generalised
                                  eigenvalue of (S_b, S_w).  Checked (a) against the pairwise definition after the
                                  directions were found right, and (b) for classes of equal size by an identity that
                                  does not involve the local scale at all:  S_b = S_d - (1 - 1/C) S_w for ANY affinity,
                                  S_d = 1/(2n) sum_{y_i != y_j} (x_i-x_j)(x_i-x_j)^T, hence with n_components = d
                                  M_weighted == M_plain S_d M_plain - (1 - 1/C) M_plain   (S_w-normalised eigenvectors)
  lfda-orthonormalized-basis      embedding_type='orthonormalized': the rows are orthonormal
  lfda-balanced-eigen-structure   equal class sizes, 'plain', n_components = d: L S_d L^T is diagonal (scale-free)
  *-fit-error                     fit raised on a well-formed input
  oracle-error                    the oracle itself raised (a defect of this file, reported rather than swallowed)

Only well-formed inputs of the property's quantifier are generated: finite generic points (no duplicate points),
well-conditioned within scatter / within-chunk covariance, separated generalised eigenvalues (otherwise the eigenvectors
are not determined), LFDA k in 1..d-1 or None, d >= 2 for LFDA.
"""
import warnings

import numpy as np
import scipy.linalg

from .common import repo

TAG_COV = 'covariance:Covariance.fit'
TAG_RCA = 'rca:RCA.fit'
TAG_RCA_C = 'rca:_chunk_mean_centering'
TAG_LFDA = 'lfda:LFDA.fit'

EPS = np.finfo(float).eps
RTOL = 1e-6


# ------------------------------------------------------------------------------------------------------------------
# independent evaluations of the documented definitions
# ------------------------------------------------------------------------------------------------------------------

def close(a, b, rtol=RTOL, atol_scale=1e-8):
  a = np.asarray(a, dtype=float)
  b = np.asarray(b, dtype=float)
  if a.shape != b.shape or not np.all(np.isfinite(a)):
    return False
  return bool(np.allclose(a, b, rtol=rtol, atol=atol_scale * max(np.abs(b).max(), 1e-300)))


def relerr(a, b):
  a = np.asarray(a, dtype=float)
  b = np.asarray(b, dtype=float)
  if a.shape != b.shape:
    return 'shape %r vs %r' % (a.shape, b.shape)
  with np.errstate(all='ignore'):
    return float(np.abs(a - b).max() / max(np.abs(b).max(), 1e-300))


def within_chunk_cov(X, chunks):
  """C = (1/N) sum_chunks sum_{i in chunk} (x_i - m_chunk)(x_i - m_chunk)^T, N = number of chunked points"""
  d = X.shape[1]
  C = np.zeros((d, d))
  N = 0
  for c in sorted(set(int(v) for v in chunks if v != -1)):
    mem = [i for i in range(len(X)) if chunks[i] == c]
    m = sum(X[i] for i in mem) / len(mem)
    for i in mem:
      v = X[i] - m
      C += np.outer(v, v)
    N += len(mem)
  return C / N


def total_cov(X):
  m = X.mean(axis=0)
  Z = X - m
  return Z.T.dot(Z) / (len(X) - 1)


def projector_rows(L):
  """orthogonal projector onto the row space of L"""
  L = np.atleast_2d(L)
  return L.T.dot(np.linalg.solve(L.dot(L.T), L))


def gen_eig_desc(A, B):
  """generalised eigenpairs of A v = lambda B v, eigenvalue decreasing, B-normalised columns"""
  w, V = scipy.linalg.eigh(A, B)
  return w[::-1].copy(), V[:, ::-1].copy()


def lfda_sigma(X, y, k):
  """sigma_i = distance from x_i to its k-th nearest neighbour among the OTHER points of its class,
  k capped at (class size - 1); 0 for a class of one point"""
  n = len(X)
  sigma = np.zeros(n)
  for i in range(n):
    others = [j for j in range(n) if j != i and y[j] == y[i]]
    kc = min(k, len(others))
    if kc >= 1:
      dists = sorted(float(np.sqrt(((X[i] - X[j]) ** 2).sum())) for j in others)
      sigma[i] = dists[kc - 1]
  return sigma


def lfda_scatter(X, y, k):
  """Sugiyama's pairwise definitions, pair by pair"""
  n, d = X.shape
  sigma = lfda_sigma(X, y, k)
  count = {c: int(np.sum(y == c)) for c in set(y.tolist())}
  Ww = np.zeros((n, n))
  Wb = np.zeros((n, n))
  for i in range(n):
    for j in range(n):
      if y[i] == y[j]:
        nc = count[int(y[i])]
        s = sigma[i] * sigma[j]
        a = np.exp(-((X[i] - X[j]) ** 2).sum() / s) if s > 0 else 0.0
        Ww[i, j] = a / nc
        Wb[i, j] = a * (1.0 / n - 1.0 / nc)
      else:
        Wb[i, j] = 1.0 / n
  diff = X[:, None, :] - X[None, :, :]
  Sw = 0.5 * np.einsum('ij,ija,ijb->ab', Ww, diff, diff)
  Sb = 0.5 * np.einsum('ij,ija,ijb->ab', Wb, diff, diff)
  return Sb, Sw


def different_class_scatter(X, y):
  """S_d = 1/(2n) sum over pairs of DIFFERENT class of (x_i - x_j)(x_i - x_j)^T"""
  n, d = X.shape
  S = np.zeros((d, d))
  for i in range(n):
    for j in range(n):
      if y[i] != y[j]:
        v = X[i] - X[j]
        S += np.outer(v, v)
  return S / (2.0 * n)


def separated(w, upto, tol=1e-3):
  """eigenvalues w (decreasing): each of the first `upto` is separated from every other one"""
  top = max(abs(w[0]), abs(w[-1]), 1e-300)
  for i in range(min(upto, len(w))):
    for j in range(len(w)):
      if j != i and abs(w[i] - w[j]) < tol * top:
        return False
  return True


# ------------------------------------------------------------------------------------------------------------------
# generators (all randomness from rng; guards use only the independent evaluations, never the code under test)
# ------------------------------------------------------------------------------------------------------------------

def cloud(rng, n, d):
  B = rng.randn(d, d) * rng.choice([0.4, 1.0, 2.5], size=d)
  return rng.randn(n, d).dot(B)


COV_KINDS = ('full-rank', 'duplicate-feature', 'constant-feature', 'dependent-feature', 'few-samples', 'heterogeneous-scales', 'narrow-integer-dtype')


def covariance_datasets(rng, count):
  made = 0
  i = 0
  while made < count and i < 20 * count:
    d = 1 + i % 6
    kind = COV_KINDS[i % len(COV_KINDS)] if d > 1 else 'scalar'
    i += 1
    for attempt in range(30):
      n = int(rng.randint(max(3, d + 2), 41))
      scale = float(rng.choice([1e-3, 1.0, 1e3]))
      X = cloud(rng, n, d) * scale + rng.randn(d) * scale
      rank = d
      if kind == 'duplicate-feature':
        X[:, d - 1] = X[:, 0]
        rank = d - 1
      elif kind == 'constant-feature':
        X[:, int(rng.randint(d))] = 3.25 * scale
        rank = d - 1
      elif kind == 'dependent-feature':
        X = rng.randint(-6, 7, size=(n, d)).astype(float)
        X[:, d - 1] = X[:, 0] + X[:, 1] if d > 2 else 2 * X[:, 0]
        rank = d - 1
      elif kind == 'narrow-integer-dtype':
        # 8-bit / 16-bit data (grey levels, counts): the VALUES are what matters, M is the inverse covariance of those numbers
        dt = (np.uint8, np.int16, np.uint16)[int(rng.randint(3))]
        hi = 250 if dt == np.uint8 else 30000
        X = rng.randint(0, hi, size=(max(n, 3 * d), d)).astype(dt)
        X[0] = hi - 1 - X[0] // 2                       # a large first sample: differences to it leave the dtype's range
        made += 1
        yield dict(kind=kind, d=d, n=len(X), rank=d, X=X)
        break
      elif kind == 'heterogeneous-scales':
        # features recorded in very different units (standard deviations up to 3e5 apart): the covariance is invertible, its eigenvalues span
        # ~11 orders of magnitude -- far above any rank cut-off relative to machine precision
        units = 10.0 ** rng.uniform(-3, 2.5, size=d)
        units[0], units[-1] = 3e2, 1e-3
        X = (rng.randn(max(n, 3 * d), d) + rng.randn(d)) * units
        yield_scaled = dict(kind=kind, d=d, n=len(X), rank=d, X=X, units=units)
        made += 1
        yield yield_scaled
        break
      elif kind == 'few-samples':
        n = int(rng.randint(2, d + 1))
        X = X[:n]
        rank = n - 1
      w = np.linalg.eigvalsh(np.atleast_2d(np.cov(X, rowvar=False)))
      wmax = np.abs(w).max()
      if wmax <= 0:
        continue
      big = int(np.sum(w > 1e-5 * wmax))
      null = int(np.sum(np.abs(w) < 0.2 * d * EPS * wmax))      # well below any pseudo-inverse cut-off in use
      if big == rank and big + null == d:
        made += 1
        yield dict(kind=kind, d=d, n=len(X), rank=rank, X=X)
        break


RCA_KINDS = ('balanced', 'unbalanced', 'singleton-chunk', 'unknown-labels', 'unbalanced+unknown', 'gapped-ids', 'gapped-ids+unknown', 'two-chunks', 'three-chunks')


def rca_datasets(rng, count):
  made = 0
  i = 0
  while made < count and i < 20 * count:
    d = 1 + i % 6
    kind = RCA_KINDS[i % len(RCA_KINDS)]
    i += 1
    for attempt in range(40):
      nch = int(rng.randint(2, 7))
      if kind in ('two-chunks', 'three-chunks'):
        # few chunks: the between-chunk scatter has rank < d - 1, so the total-to-within ratio is tied (= 1) on a subspace of dimension >= 2;
        # whitening must still hold after reduction (any basis of the tied subspace will do), only the retained DIRECTIONS are then not unique
        nch = 2 if kind == 'two-chunks' else 3
        d = max(d, nch + 2)
      if kind == 'balanced':
        sizes = [int(rng.randint(2, 7))] * nch
      else:
        sizes = [int(v) for v in rng.randint(2, 10, size=nch)]
        if len(set(sizes)) == 1:
          sizes[0] += 1
      if kind == 'singleton-chunk':
        sizes[int(rng.randint(nch))] = 1
      while sum(s - 1 for s in sizes) < d + 3:
        sizes[int(rng.randint(nch))] += 1
      n_unknown = int(rng.randint(1, 8)) if 'unknown' in kind else 0
      scale = float(rng.choice([0.1, 1.0, 10.0]))
      B = rng.randn(d, d) * rng.choice([0.4, 1.0, 2.5], size=d)
      pts, lab = [], []
      for c, s in enumerate(sizes):
        centre = rng.randn(d) * rng.choice([0.5, 3.0])
        pts.append(centre + rng.randn(s, d).dot(B))
        lab += [c] * s
      if n_unknown:
        pts.append(rng.randn(n_unknown, d) * 3.0)
        lab += [-1] * n_unknown
      X = np.vstack(pts) * scale
      chunks = np.array(lab)
      if 'gapped' in kind:
        # chunk ids need not be contiguous ("chunks[i] == j: point i belongs to chunklet j"): e.g. {0, 3, 7}
        ids = np.sort(rng.choice(np.arange(3 * nch), size=nch, replace=False))
        if ids[-1] == nch - 1:
          ids[-1] += 2
        chunks = np.where(chunks >= 0, ids[np.maximum(chunks, 0)], -1)
      perm = rng.permutation(len(X))
      X, chunks = X[perm], chunks[perm]
      C = within_chunk_cov(X, chunks)
      if np.linalg.cond(C) > 1e4:
        continue
      ok = True
      ties = kind in ('two-chunks', 'three-chunks')
      for T in (total_cov(X[chunks != -1]), total_cov(X)):
        if np.linalg.cond(T) > 1e5:
          ok = False
          break
        w, _ = gen_eig_desc(T, C)
        if not ties and not separated(w, len(w)):
          ok = False
      if not ok:
        continue
      made += 1
      yield dict(kind=kind, d=d, sizes=sizes, unknown=n_unknown, X=X, chunks=chunks, C=C, ties=ties)
      break


LFDA_KINDS = ('balanced', 'unbalanced', 'small-class', 'singleton-class', 'balanced-multimodal')


def lfda_datasets(rng, count):
  """labels are named in order of decreasing class size (0 = largest)"""
  made = 0
  i = 0
  while made < count and i < 20 * count:
    d = 2 + i % 5
    kind = LFDA_KINDS[(i // 5) % len(LFDA_KINDS)]
    i += 1
    for attempt in range(60):
      k = [None] + list(range(1, d))
      k = k[int(rng.randint(len(k)))]
      if kind == 'small-class' and d >= 3 and k is not None and k < 2:
        k = int(rng.randint(2, d))
      keff = min(7, d - 1) if k is None else k
      ncls = int(rng.randint(2, 5))
      if kind.startswith('balanced'):
        sizes = [keff + 1 + int(rng.randint(0, 7))] * ncls
      else:
        sizes = [keff + 1 + int(v) for v in rng.randint(0, 11, size=ncls)]
        if len(set(sizes)) == 1:
          sizes[0] += 2
      if kind == 'small-class':
        ncls = max(ncls, 3)
        sizes = (sizes + [keff + 4, keff + 6])[:ncls]
        for c in range(int(rng.randint(1, 3))):
          sizes[c] = int(rng.randint(2, keff + 1)) if keff >= 2 else 1
      if kind == 'singleton-class':
        ncls = max(ncls, 3)
        sizes = (sizes + [keff + 4, keff + 6])[:ncls]
        sizes[0] = 1
      grow = 0
      while sum(s - 1 for s in sizes) < d + 4:
        if kind.startswith('balanced'):
          sizes = [s + 1 for s in sizes]
        else:
          sizes[len(sizes) - 1 - grow % 2] += 1
          grow += 1
      sizes = sorted(sizes, reverse=True)
      scale = float(rng.choice([0.1, 1.0, 10.0]))
      spread = float(rng.choice([0.7, 2.5]))
      pts, lab = [], []
      for c, s in enumerate(sizes):
        B = rng.randn(d, d) * 0.8
        P = rng.randn(d) * spread + rng.randn(s, d).dot(B)
        if kind == 'balanced-multimodal':
          P[: s // 2] += rng.randn(d) * 3.0
        pts.append(P)
        lab += [c] * s
      X = np.vstack(pts) * scale
      y = np.array(lab)
      perm = rng.permutation(len(X))
      X, y = X[perm], y[perm]
      Sb, Sw = lfda_scatter(X, y, keff)
      if np.linalg.cond(Sw) > 1e4:
        continue
      w, V = gen_eig_desc(Sb, Sw)
      if not separated(w, d) or w[-1] < 1e-6 * w[0]:
        continue
      made += 1
      yield dict(kind=kind, d=d, k=k, keff=keff, sizes=sizes, X=X, y=y, Sb=Sb, Sw=Sw, w=w, V=V)
      break


# ------------------------------------------------------------------------------------------------------------------
# the checks
# ------------------------------------------------------------------------------------------------------------------

def fit(make, *args):
  """-> (estimator, None) or (None, 'ExceptionType: message')"""
  with warnings.catch_warnings():
    warnings.simplefilter('ignore')
    with np.errstate(all='ignore'):
      try:
        return make().fit(*args), None
      except Exception as e:
        return None, '%s: %s' % (type(e).__name__, e)


def bad(tag, observed, **inp):
  out = {}
  for k, v in inp.items():
    out[k] = v.tolist() if isinstance(v, np.ndarray) else v
  return dict(tag=tag, observed=observed, input=out)


def check_covariance(ml, ds):
  X = ds['X']
  inp = dict(estimator='Covariance', X=X)
  est, err = fit(ml.Covariance, X)
  if err:
    return bad('covariance-fit-error', err, **inp)
  M = est.get_mahalanobis_matrix()
  S = np.atleast_2d(np.cov(np.asarray(X, dtype=float), rowvar=False))
  if ds.get('units') is not None:
    # reference through the well-conditioned covariance of the standardised features: inv(D R D) = D^-1 inv(R) D^-1
    u = ds['units']
    R = np.atleast_2d(np.cov(X / u, rowvar=False))
    ref = np.linalg.inv(R) / np.outer(u, u)
    Mn = M * np.outer(u, u)
    if not close(Mn, np.linalg.inv(R), rtol=1e-5, atol_scale=1e-6):
      return bad('covariance-pinv', 'get_mahalanobis_matrix() is not the inverse covariance of badly scaled (but linearly independent) features: '
                 'relative error %s in standardised units' % relerr(Mn, np.linalg.inv(R)), **inp)
    return None
  ref = 1.0 / S if ds['d'] == 1 else np.linalg.pinv(S, rcond=1e-10, hermitian=True)
  if not close(M, ref):
    return bad('covariance-pinv', 'get_mahalanobis_matrix() differs from pinv(cov(X)) (rank %d of %d): relative error %s'
               % (ds['rank'], ds['d'], relerr(M, ref)), **inp)
  return None


def rca_input(ds, ncomp):
  return dict(estimator='RCA', n_components=ncomp, X=ds['X'], chunks=ds['chunks'])


def check_rca_full(ml, ds, ncomp):
  X, chunks, C = ds['X'], ds['chunks'], ds['C']
  inp = rca_input(ds, ncomp)
  est, err = fit(lambda: ml.RCA(n_components=ncomp), X, chunks)
  if err:
    return bad('rca-fit-error', err, **inp)
  L = est.components_
  if np.iscomplexobj(L):
    return bad('rca-full-inverse', 'components_ has dtype %s' % L.dtype, **inp)
  M = est.get_mahalanobis_matrix()
  ref = np.linalg.inv(C)
  if not close(M, ref):
    return bad('rca-full-inverse', 'M differs from the inverse of the average within-chunk covariance: relative error %s'
               % relerr(M, ref), **inp)
  with warnings.catch_warnings():
    warnings.simplefilter('ignore')
    Z = est.transform(X)
  W = within_chunk_cov(np.asarray(Z, dtype=float), chunks)
  if not np.allclose(W, np.eye(len(W)), rtol=0, atol=1e-6):
    return bad('rca-whitening', 'within-chunk covariance of transform(X) is not the identity: max deviation %.3g'
               % np.abs(W - np.eye(len(W))).max(), **inp)
  return None


def check_rca_reduced_dtype(ml, ds, ncomp):
  inp = rca_input(ds, ncomp)
  est, err = fit(lambda: ml.RCA(n_components=ncomp), ds['X'], ds['chunks'])
  if err:
    return bad('rca-fit-error', err, **inp)
  L = est.components_
  if np.iscomplexobj(L):
    return bad('rca-reduced-complex', 'components_ has dtype %s (max |imaginary part| = %.3g); a linear map to R^k must be a real array'
               % (L.dtype, np.abs(L.imag).max()), **inp)
  return None


def check_rca_reduced(ml, ds, ncomp):
  X, chunks, C = ds['X'], ds['chunks'], ds['C']
  inp = rca_input(ds, ncomp)
  est, err = fit(lambda: ml.RCA(n_components=ncomp), X, chunks)
  if err:
    return bad('rca-fit-error', err, **inp)
  L = est.components_
  if np.iscomplexobj(L):
    if np.abs(L.imag).max() > 0:
      return bad('rca-reduced-complex', 'components_ has non-zero imaginary parts (max %.3g)' % np.abs(L.imag).max(), **inp)
    L = L.real          # the dtype itself is the business of check_rca_reduced_dtype
  if L.shape != (ncomp, ds['d']) or not np.all(np.isfinite(L)):
    return bad('rca-reduced-directions', 'components_ has shape %r / non-finite entries' % (L.shape,), **inp)
  W = L.dot(C).dot(L.T)
  if not np.allclose(W, np.eye(ncomp), rtol=0, atol=1e-6):
    return bad('rca-whitening', 'L C L^T is not the identity (C = average within-chunk covariance): max deviation %.3g'
               % np.abs(W - np.eye(ncomp)).max(), **inp)
  Z = X.dot(L.T)
  W = within_chunk_cov(Z, chunks)
  if not np.allclose(W, np.eye(ncomp), rtol=0, atol=1e-6):
    return bad('rca-whitening', 'within-chunk covariance of the transformed data is not the identity: max deviation %.3g'
               % np.abs(W - np.eye(ncomp)).max(), **inp)
  if ds.get('ties'):
    return None        # tied ratios: the retained directions are not unique, nothing more to compare
  P = projector_rows(L)
  devs = []
  # "total" variance: of the chunked points, or of all points -- the statement does not say; either is accepted
  for T in (total_cov(X[chunks != -1]), total_cov(X)):
    w, V = gen_eig_desc(T, C)
    Pref = projector_rows(V[:, :ncomp].T)
    devs.append(float(np.abs(P - Pref).max()))
  if min(devs) > 1e-6:
    return bad('rca-reduced-directions', 'row space of components_ is not the span of the %d directions of largest total-to-within-chunk '
               'variance: projector deviation %.3g' % (ncomp, min(devs)), **inp)
  return None


def lfda_input(ds, ncomp, emb, y=None):
  return dict(estimator='LFDA', k=ds['k'], n_components=ncomp, embedding_type=emb, X=ds['X'], y=ds['y'] if y is None else y)


def lfda_fit(ml, ds, ncomp, emb, y=None):
  return fit(lambda: ml.LFDA(n_components=ncomp, k=ds['k'], embedding_type=emb), ds['X'], ds['y'] if y is None else y)


def check_lfda_formula(ml, ds, ncomp, emb):
  inp = lfda_input(ds, ncomp, emb)
  est, err = lfda_fit(ml, ds, ncomp, emb)
  if err:
    return bad('lfda-fit-error', err, **inp)
  d = ds['d']
  dim = d if ncomp is None else ncomp
  L = est.components_
  if np.iscomplexobj(L) or L.shape != (dim, d) or not np.all(np.isfinite(L)):
    return bad('lfda-local-scale', 'components_ has dtype %s, shape %r or non-finite entries' % (L.dtype, L.shape), **inp)
  Sw, w, V = ds['Sw'], ds['w'], ds['V']
  if emb == 'orthonormalized':
    G = L.dot(L.T)
    if not np.allclose(G, np.eye(dim), rtol=0, atol=1e-8):
      return bad('lfda-orthonormalized-basis', 'rows of components_ are not orthonormal: max deviation %.3g' % np.abs(G - np.eye(dim)).max(), **inp)
    dev = float(np.abs(projector_rows(L) - projector_rows(V[:, :dim].T)).max())
    if dev > 1e-6:
      return bad('lfda-local-scale', 'row space of components_ is not the span of the %d leading generalised eigenvectors of the pairwise-defined '
                 '(S_b, S_w) with k-th-nearest-same-class-neighbour local scale: projector deviation %.3g' % (dim, dev), **inp)
    return None
  for i in range(dim):
    nl = np.linalg.norm(L[i])
    if not nl > 0:
      return bad('lfda-local-scale', 'row %d of components_ is zero' % i, **inp)
    a = L[i] / nl
    b = V[:, i] / np.linalg.norm(V[:, i])
    dev = min(np.abs(a - b).max(), np.abs(a + b).max())
    if dev > 1e-6:
      return bad('lfda-local-scale', 'row %d of components_ is not parallel to the generalised eigenvector of the pairwise-defined (S_b, S_w) '
                 '(k-th-nearest-same-class-neighbour local scale) with the %d-th largest eigenvalue: deviation of the unit vectors %.3g'
                 % (i, i + 1, dev), **inp)
  if emb == 'weighted':
    # sqrt(lambda_i) * phi_i; phi_i normalised phi^T S_w phi = 1 (symmetric-definite solvers) or |phi| = 1 (general solvers)
    q_sw = np.array([L[i].dot(Sw).dot(L[i]) for i in range(dim)])
    q_2 = np.array([L[i].dot(L[i]) for i in range(dim)])
    lam = w[:dim]
    if not (np.allclose(q_sw, lam, rtol=RTOL, atol=1e-9 * abs(lam[0])) or np.allclose(q_2, lam, rtol=RTOL, atol=1e-9 * abs(lam[0]))):
      return bad('lfda-weighted-eigenvalue', 'rows have the right directions but are not sqrt(eigenvalue) x (normalised eigenvector): '
                 'L_i S_w L_i^T = %s, generalised eigenvalues of (S_b, S_w) = %s, difference %s'
                 % (np.array2string(q_sw, precision=6), np.array2string(lam, precision=6), np.array2string(q_sw - lam, precision=6)), **inp)
  return None


def check_lfda_embedding_consistency(ml, ds, ncomp):
  """'scaled according to embedding_type', checked against the estimator's OWN plain embedding (so independent of how the local scale is
  defined): 'weighted' rows are positive multiples of the plain rows, and the first j rows of 'orthonormalized' span what the first j plain rows
  span, for every j -- the Gram-Schmidt process has to run over the eigenvectors in order of decreasing eigenvalue"""
  inp = lfda_input(ds, ncomp, 'orthonormalized')
  fits = {}
  for emb in ('plain', 'weighted', 'orthonormalized'):
    est, err = lfda_fit(ml, ds, ncomp, emb)
    if err:
      return bad('lfda-fit-error', err, **lfda_input(ds, ncomp, emb))
    fits[emb] = np.asarray(est.components_)
  P, W, O = fits['plain'], fits['weighted'], fits['orthonormalized']
  if not (P.shape == W.shape == O.shape) or np.iscomplexobj(O) or not np.all(np.isfinite(O)):
    return bad('lfda-embedding-consistency', 'shapes / dtypes of the three embeddings differ: %r %r %r' % (P.shape, W.shape, O.shape), **inp)
  for i in range(len(P)):
    a, b = P[i] / max(np.linalg.norm(P[i]), 1e-300), W[i] / max(np.linalg.norm(W[i]), 1e-300)
    if np.abs(a - b).max() > 1e-6:
      return bad('lfda-embedding-consistency', "row %d of the 'weighted' embedding is not a positive multiple of row %d of the 'plain' one" % (i, i), **inp)
  G = O.dot(O.T)
  if not np.allclose(G, np.eye(len(O)), rtol=0, atol=1e-8):
    return bad('lfda-orthonormalized-basis', 'rows of components_ are not orthonormal: max deviation %.3g' % np.abs(G - np.eye(len(O))).max(), **inp)
  for j in range(1, len(P) + 1):
    dev = float(np.abs(projector_rows(O[:j]) - projector_rows(P[:j])).max())
    if dev > 1e-6:
      return bad('lfda-embedding-consistency', "the first %d rows of the 'orthonormalized' embedding do not span the first %d rows of the 'plain' one "
                 '(projector deviation %.3g): the orthonormalisation did not follow the order of decreasing eigenvalue' % (j, j, dev), **inp)
  return None


def relabelings(ds, rng_seed):
  """permutations of the label NAMES: reversed size order (smallest class first) and a random renaming to arbitrary integers"""
  y = ds['y']
  ncls = len(ds['sizes'])
  rng = np.random.RandomState(rng_seed)
  names = rng.permutation(ncls) * 7 + 3
  if np.all(np.argsort(names) == np.arange(ncls)):
    names = names[::-1].copy()
  return (('reversed', (ncls - 1) - y), ('renamed', names[y]))


def check_lfda_relabel(ml, ds, ncomp, emb, which, rng_seed):
  name, y2 = relabelings(ds, rng_seed)[which]
  inp = lfda_input(ds, ncomp, emb)
  inp['y_relabelled'] = y2
  est, err = lfda_fit(ml, ds, ncomp, emb)
  if err:
    return bad('lfda-fit-error', err, **lfda_input(ds, ncomp, emb))
  M1 = est.get_mahalanobis_matrix()
  if not np.all(np.isfinite(M1)):
    return bad('lfda-fit-error', 'non-finite metric', **lfda_input(ds, ncomp, emb))
  est2, err2 = lfda_fit(ml, ds, ncomp, emb, y2)
  if err2:
    return bad('lfda-k-carried-across-classes', 'fit succeeds with labels y but raises with the same classes renamed: %s' % err2, **inp)
  M2 = est2.get_mahalanobis_matrix()
  if not close(M2, M1, rtol=1e-6, atol_scale=1e-7):
    return bad('lfda-k-carried-across-classes', 'renaming the classes (%s) changes the learned metric: relative difference %s'
               % (name, relerr(M2, M1)), **inp)
  return None


def check_lfda_balanced(ml, ds):
  """equal class sizes, n_components = d: identities that hold for ANY affinity matrix"""
  X, y, d = ds['X'], ds['y'], ds['d']
  ncls = len(ds['sizes'])
  Sd = different_class_scatter(X, y)
  estp, err = lfda_fit(ml, ds, None, 'plain')
  if err:
    return bad('lfda-fit-error', err, **lfda_input(ds, None, 'plain'))
  estw, err = lfda_fit(ml, ds, None, 'weighted')
  if err:
    return bad('lfda-fit-error', err, **lfda_input(ds, None, 'weighted'))
  Lp = estp.components_
  if np.iscomplexobj(Lp) or not np.all(np.isfinite(Lp)):
    return bad('lfda-balanced-eigen-structure', 'plain components_ complex or non-finite', **lfda_input(ds, None, 'plain'))
  Q = Lp.dot(Sd).dot(Lp.T)
  off = Q - np.diag(np.diag(Q))
  if np.abs(off).max() > 1e-6 * np.abs(np.diag(Q)).max():
    return bad('lfda-balanced-eigen-structure', 'L S_d L^T is not diagonal (S_d = scatter over pairs of different class): relative off-diagonal %.3g'
               % (np.abs(off).max() / np.abs(np.diag(Q)).max()), **lfda_input(ds, None, 'plain'))
  Mp = estp.get_mahalanobis_matrix()
  Mw = estw.get_mahalanobis_matrix()
  ref = Mp.dot(Sd).dot(Mp) - (1.0 - 1.0 / ncls) * Mp
  if not close(Mw, ref, rtol=1e-6, atol_scale=1e-7):
    # express the discrepancy as a multiple of M_plain: M_w - M_p S_d M_p = c M_p
    num = Mw - Mp.dot(Sd).dot(Mp)
    c = float((num * Mp).sum() / (Mp * Mp).sum())
    return bad('lfda-weighted-eigenvalue', "equal class sizes: M('weighted') != M('plain') S_d M('plain') - (1 - 1/C) M('plain') (an identity valid for any "
               "affinity): relative error %s; the weights are sqrt(lambda + %.6g) instead of sqrt(lambda)" % (relerr(Mw, ref), c + (1.0 - 1.0 / ncls)),
               **lfda_input(ds, None, 'weighted'))
  return None


# ------------------------------------------------------------------------------------------------------------------
# interface
# ------------------------------------------------------------------------------------------------------------------

COUNTS = dict(quick=dict(cov=24, rca=24, lfda=25), thorough=dict(cov=120, rca=150, lfda=200))


def guarded(f, describe):
  def thunk():
    with warnings.catch_warnings():
      warnings.simplefilter('ignore')
      with np.errstate(all='ignore'):
        try:
          return f()
        except Exception as e:     # a defect of the oracle itself: surfaced, never silently passed
          return dict(tag='oracle-error', observed='%s: %s' % (type(e).__name__, e), input=describe)
  return thunk


def cases(tier, seed):
  ml = repo()
  cnt = COUNTS['thorough' if tier == 'thorough' else 'quick']

  rng = np.random.RandomState(seed % 2 ** 32)
  for ds in covariance_datasets(rng, cnt['cov']):
    desc = 'Covariance %s d=%d n=%d rank=%d' % (ds['kind'], ds['d'], ds['n'], ds['rank'])
    yield desc, (TAG_COV,), guarded(lambda ds=ds: check_covariance(ml, ds), desc)

  rng = np.random.RandomState((seed + 1000003) % 2 ** 32)
  for ds in rca_datasets(rng, cnt['rca']):
    d = ds['d']
    base = 'RCA %s d=%d chunks=%s unknown=%d' % (ds['kind'], d, ds['sizes'], ds['unknown'])
    for ncomp in (None, d):
      desc = '%s n_components=%s' % (base, ncomp)
      yield desc, (TAG_RCA, TAG_RCA_C), guarded(lambda ds=ds, ncomp=ncomp: check_rca_full(ml, ds, ncomp), desc)
    for ncomp in range(1, d):
      desc = '%s n_components=%d' % (base, ncomp)
      yield desc + ' [dtype]', (TAG_RCA,), guarded(lambda ds=ds, ncomp=ncomp: check_rca_reduced_dtype(ml, ds, ncomp), desc)
      yield desc + ' [formula]', (TAG_RCA, TAG_RCA_C), guarded(lambda ds=ds, ncomp=ncomp: check_rca_reduced(ml, ds, ncomp), desc)

  rng = np.random.RandomState((seed + 2000003) % 2 ** 32)
  for idx, ds in enumerate(lfda_datasets(rng, cnt['lfda'])):
    d = ds['d']
    base = 'LFDA %s d=%d classes=%s k=%s' % (ds['kind'], d, ds['sizes'], ds['k'])
    for emb in ('weighted', 'orthonormalized', 'plain'):
      for ncomp in [None] + list(range(1, d + 1)):
        desc = '%s n_components=%s %s' % (base, ncomp, emb)
        yield desc + ' [formula]', (TAG_LFDA,), guarded(lambda ds=ds, ncomp=ncomp, emb=emb: check_lfda_formula(ml, ds, ncomp, emb), desc)
    for ncomp in (None, max(2, d - 1)) if d >= 2 else (None,):
      desc = '%s n_components=%s [embedding consistency]' % (base, ncomp)
      yield desc, (TAG_LFDA,), guarded(lambda ds=ds, ncomp=ncomp: check_lfda_embedding_consistency(ml, ds, ncomp), desc)
    rs = (seed * 7919 + idx) % 2 ** 32
    pick = np.random.RandomState(rs)
    combos = [(None, 'weighted', 0), (None, 'weighted', 1),
              (int(pick.randint(1, d + 1)), ('weighted', 'orthonormalized', 'plain')[int(pick.randint(3))], 0)]
    for ncomp, emb, which in combos:
      desc = '%s n_components=%s %s [relabel-%s]' % (base, ncomp, emb, ('reversed', 'renamed')[which])
      yield desc, (TAG_LFDA,), guarded(lambda ds=ds, ncomp=ncomp, emb=emb, which=which, rs=rs: check_lfda_relabel(ml, ds, ncomp, emb, which, rs),
                                       desc)
    if ds['kind'].startswith('balanced'):
      desc = '%s [scale-free identities]' % base
      yield desc, (TAG_LFDA,), guarded(lambda ds=ds: check_lfda_balanced(ml, ds), desc)


SIGNATURES = {
    'covariance-pinv': 'covariance-pinv: Covariance M differs from pinv(cov(X))',
    'lfda-embedding-consistency': "lfda-embedding-consistency: LFDA 'weighted' / 'orthonormalized' embeddings are not the documented rescalings of the plain one",
    'covariance-fit-error': 'covariance-fit-error: Covariance.fit raises on well-formed X',
    'rca-full-inverse': 'rca-full-inverse: RCA full-rank M differs from inv(average within-chunk covariance)',
    'rca-whitening': 'rca-whitening: within-chunk covariance of RCA-transformed data is not the identity',
    'rca-reduced-complex': 'rca-reduced-complex: RCA(n_components < d) returns complex components_',
    'rca-reduced-directions': 'rca-reduced-directions: RCA(n_components < d) does not keep the directions of largest total-to-within-chunk variance',
    'rca-fit-error': 'rca-fit-error: RCA.fit raises on well-formed (X, chunks)',
    'lfda-local-scale': 'lfda-local-scale: LFDA components differ from the eigenvectors of the pairwise-defined scatter matrices with k-th-neighbour local scale',
    'lfda-k-carried-across-classes': 'lfda-k-carried-across-classes: renaming the classes changes the LFDA metric',
    'lfda-weighted-eigenvalue': 'lfda-weighted-eigenvalue: LFDA weighted rows are not sqrt(generalised eigenvalue of (S_b, S_w)) x eigenvector',
    'lfda-orthonormalized-basis': 'lfda-orthonormalized-basis: LFDA orthonormalized rows are not orthonormal',
    'lfda-balanced-eigen-structure': 'lfda-balanced-eigen-structure: equal class sizes, L S_d L^T not diagonal',
    'lfda-fit-error': 'lfda-fit-error: LFDA.fit raises on well-formed (X, y)',
}


def signature(tag, desc):
  """stable across seeds: the clause's input class, refined by the layout family for LFDA / RCA"""
  s = SIGNATURES.get(tag, tag)
  words = desc.split()
  fam = words[1] if len(words) > 1 else ''
  if tag.startswith('lfda'):
    return '%s [%s classes]' % (s, fam)
  if tag.startswith('rca') or tag.startswith('covariance'):
    return '%s [%s]' % (s, fam)
  return s


def run(tier, seed):
  n = 0
  vio = []
  per_sig = {}
  counts = {}
  samples = []
  distinct = set()
  for desc, tags, thunk in cases(tier, seed):
    n += 1
    distinct.add(desc)
    if n % 53 == 1 and len(samples) < 10:
      samples.append(desc)
    b = thunk()
    if b:
      sig = signature(b['tag'], desc)
      clause = 'runtime/C09/%s' % b['tag']
      counts[sig] = counts.get(sig, 0) + 1
      if per_sig.get(sig, 0) < 1:
        per_sig[sig] = per_sig.get(sig, 0) + 1
        vio.append(dict(clause=clause, input=b['input'], observed=b['observed'], signature=sig, case=desc))
  q = COUNTS['thorough' if tier == 'thorough' else 'quick']
  return dict(cases=n, distinct_nontrivial=len(distinct),
              rule='random well-formed datasets, families: Covariance {full-rank, duplicate / constant / linearly dependent feature, fewer samples than features, '
                   'd=1}; RCA {balanced, unbalanced, singleton chunk, unknown label -1} x n_components in {None, 1..d}; LFDA {balanced, unbalanced, class smaller '
                   'than k+1, singleton class, multimodal} x k in {None, 1..d-1} x n_components in {None, 1..d} x 3 embedding types, plus class renamings and '
                   'affinity-free identities for equal class sizes; each learned matrix is compared with an independent pair-by-pair evaluation of the documented '
                   'definition; distinct = distinct (family, shape, layout, configuration, check); datasets with ill-conditioned within scatter or '
                   'nearly equal generalised eigenvalues are not generated (the eigenvectors are not determined there)',
              bound='n_features <= 6, <= 4 classes / <= 6 chunks, <= 70 points; %d Covariance, %d RCA, %d LFDA datasets (%s tier); tolerances rtol 1e-6'
                    % (q['cov'], q['rca'], q['lfda'], tier),
              standin_samples=samples, violation_counts=counts, violations=vio)


def replay_clause(cid, fail, seed):
  """first failing quick case of the learner named in cid; a case failing the clause the obligation is about
  (local scale / carried k / complex spectrum / eigenvalue weights) is preferred when there is one"""
  low = cid.lower()
  only = None
  if 'covariance' in low:
    only = (TAG_COV,)
  elif 'rca' in low or 'chunk' in low or 'inv_sqrtm' in low:
    only = (TAG_RCA, TAG_RCA_C)
  elif 'lfda' in low or '_eigh' in low or 'sum_outer' in low:
    only = (TAG_LFDA,)
  prefer = None
  for words, tag in ((('carried', 'per-class', 'perclass', 'kc', 'relabel', 'label-name'), 'lfda-k-carried-across-classes'),
                     (('sigma', 'local', 'partition', 'scale'), 'lfda-local-scale'),
                     (('weighted', 'eigenvalue', 'vals', 'tsb'), 'lfda-weighted-eigenvalue'),
                     (('real', 'complex', 'dtype'), 'rca-reduced-complex')):
    if any(w in low for w in words):
      prefer = tag
      break
  first = None
  for desc, tags, thunk in cases('quick', seed):
    if only is not None and not (set(tags) & set(only)):
      continue
    b = thunk()
    if b:
      hit = dict(failing_input=b['input'], observed='%s: %s' % (b['tag'], b['observed']), case=desc)
      if prefer is None or b['tag'] == prefer:
        return hit
      if first is None:
        first = hit
  if first is not None:
    return first
  return dict(note='no failing input among the quick stand-in cases%s' % ('' if only is None else ' of %s' % (only,)))
