"""C20 bounded stand-in / replay: PSD matrices are converted, validated and initialised as documented.

Run-time contracts on the REAL functions metric_learn._util.components_from_metric, _check_sdp_from_eigen,
_initialize_metric_mahalanobis, _pseudo_inverse_from_eig, _initialize_components (and the strict-PD rejection of
ITML / LSML / SDML at fit) over generated symmetric matrices of size 1..8 (every rank, diagonal, singular,
PSD up to rounding, near-PSD inside / outside an explicit tolerance, indefinite, non-symmetric; spectra over
16 orders of magnitude), eigenvalue vectors around +-tol, and small datasets / tuple sets for the initialisers.
bounded -- not proved.

The oracle never demands more than the documented tolerance semantics: where the documented outcome depends on an
eigenvalue lying within rounding distance of +-tol (zone B below) both documented outcomes are accepted.
"""
import warnings

import numpy as np

from .common import repo

F_CFM = '_util:components_from_metric'
F_SDP = '_util:_check_sdp_from_eigen'
F_IMM = '_util:_initialize_metric_mahalanobis'
F_PINV = '_util:_pseudo_inverse_from_eig'
F_IC = '_util:_initialize_components'
F_AUTO = '_util:_auto_select_init'
EPS = np.finfo(float).eps


def _v(clause, fn, kind, observed, inp):
  return dict(tag=clause, fn=fn, observed=observed, input=inp, signature='%s %s: %s' % (fn.split(':')[1], clause, kind))


def rand_orth(rng, n):
  Q, R = np.linalg.qr(rng.randn(n, n))
  return Q * np.sign(np.diag(R) + (np.diag(R) == 0))


def outcome(f, *a, **k):
  """('ok', value) or ('raise', exception)"""
  with warnings.catch_warnings():
    warnings.simplefilter('ignore')
    with np.errstate(all='ignore'):
      try:
        return 'ok', f(*a, **k)
      except Exception as e:       # noqa
        return 'raise', e


def ename(e):
  return '%s: %s' % (type(e).__name__, str(e)[:120])


# ---------------------------------------------------------------------------------------------------------------------
# components_from_metric

def spectra(rng, n, r, kind):
  w = np.zeros(n)
  if kind == 'flat':
    w[:r] = 1.0
  elif kind == 'wide':          # 16 orders of magnitude inside one matrix
    w[:r] = 10.0 ** (np.linspace(-8, 8, r) if r > 1 else np.array([rng.uniform(-8, 8)]))
  elif kind == 'medium':
    w[:r] = 10.0 ** rng.uniform(-3, 3, size=r)
  else:                         # 'scaled': overall scale anywhere in 1e-8..1e8
    w[:r] = 10.0 ** rng.uniform(-8, 8) * rng.uniform(1, 2, size=r)
  return rng.permutation(w)


def matrices(tier, seed):
  """(kind, M, tol, expectation)  expectation in {'psd', 'reject', 'nonsym', 'zones'}"""
  rng = np.random.RandomState(seed)
  reps = 1 if tier == 'quick' else 12
  for n in range(1, 9):
    for rep in range(reps):
      for r in range(0, n + 1):
        for kind in ('flat', 'wide', 'medium', 'scaled'):
          w = spectra(rng, n, r, kind)
          rk = 'full-rank' if r == n else ('zero' if r == 0 else 'singular')
          # exactly diagonal
          yield 'diagonal %s %s-spectrum' % (rk, kind), np.diag(w), None, 'zones'
          if n >= 2:
            Q = rand_orth(rng, n)
            M = (Q * w).dot(Q.T)
            yield 'dense %s %s-spectrum' % (rk, kind), (M + M.T) / 2, None, 'zones'
        if 0 < r:
          B = rng.randn(r, n) * 10.0 ** rng.uniform(-4, 4)
          yield 'gram L^T L of a %s L (PSD up to rounding)' % ('square' if r == n else 'low-rank'), B.T.dot(B), None, 'zones'
          Bi = np.round(rng.randn(r, n) * 3)
          yield 'gram of an integer L (exactly PSD)', Bi.T.dot(Bi), None, 'zones'
      # near-PSD w.r.t. an explicit tolerance, inside and outside; tol = 0; clearly indefinite with the default tol
      for rel in (1e-3, 1e-6):
        for fac, exp in ((0.1, 'psd'), (0.5, 'psd'), (2.0, 'reject'), (10.0, 'reject')):
          scale = 10.0 ** rng.uniform(-4, 4)
          w = scale * rng.uniform(0.5, 1.0, size=n)
          tol = rel * scale
          w[rng.randint(n)] = -fac * tol
          yield 'diagonal, one eigenvalue %g*tol below zero, explicit tol' % fac, np.diag(w), tol, exp
          if n >= 2:
            Q = rand_orth(rng, n)
            M = (Q * w).dot(Q.T)
            yield 'dense, one eigenvalue %g*tol below zero, explicit tol' % fac, (M + M.T) / 2, tol, exp
      for k in (1e-6, 1e-3, 1.0):
        scale = 10.0 ** rng.uniform(-4, 4)
        w = scale * rng.uniform(0.5, 1.0, size=n)
        w[rng.randint(n)] = -k * scale
        for tol in (None, 0.0):
          yield 'diagonal indefinite, %s tol' % ('default' if tol is None else 'zero'), np.diag(w), tol, 'reject'
          if n >= 2:
            Q = rand_orth(rng, n)
            M = (Q * w).dot(Q.T)
            yield 'dense indefinite, %s tol' % ('default' if tol is None else 'zero'), (M + M.T) / 2, tol, 'reject'
      w = 10.0 ** rng.uniform(-4, 4) * rng.uniform(0.5, 1.0, size=n)
      Q = rand_orth(rng, n)
      M = (Q * w).dot(Q.T)
      yield 'positive definite, tol zero', (M + M.T) / 2, 0.0, 'psd'
      yield 'positive definite, large explicit tol', (M + M.T) / 2, float(w.max()), 'psd'
      # non-symmetric (asymmetry far above numpy.allclose's default thresholds)
      if n >= 2:
        w = rng.uniform(1.0, 2.0, size=n)
        Q = rand_orth(rng, n)
        M = (Q * w).dot(Q.T)
        M = (M + M.T) / 2
        i, j = rng.choice(n, 2, replace=False)
        M[i, j] += 1.0 + rng.rand()
        yield 'non-symmetric dense', M, None, 'nonsym'
        D = np.diag(w)
        D[i, j] = 1.0
        yield 'non-symmetric triangular', D, None, 'nonsym'


def check_cfm(ml, kind, M, tol, exp):
  from metric_learn._util import components_from_metric
  from metric_learn.exceptions import NonPSDError
  n = M.shape[0]
  inp = dict(call='components_from_metric(M, tol)', M=M.tolist(), tol=tol)
  M0 = M.copy()
  what, val = outcome(components_from_metric, M) if tol is None else outcome(components_from_metric, M, tol)
  if not np.array_equal(M, M0):
    return _v('argument-not-mutated', F_CFM, kind, 'the caller\'s matrix was modified', inp)
  if exp == 'nonsym':
    if what == 'raise' and isinstance(val, ValueError):
      return None
    return _v('non-symmetric-rejected-with-ValueError', F_CFM, kind, ename(val) if what == 'raise' else 'returned a matrix', inp)
  w = np.linalg.eigh(M)[0] if not np.array_equal(M, np.diag(np.diag(M))) else np.diag(M).copy()
  wmax = float(np.abs(w).max()) if n else 0.0
  teff = wmax * n * EPS if tol is None else tol
  wmin = float(w.min())
  if exp == 'zones':
    # A: clearly within the tolerance -> must convert; C: clearly outside and Cholesky cannot succeed -> must reject
    if wmin >= -teff / 4:
      exp = 'psd'
    elif wmin < -4 * teff - 1e-10 * wmax:
      exp = 'reject'
    else:
      exp = 'either'
  if what == 'raise':
    if isinstance(val, NonPSDError):
      if exp in ('reject', 'either'):
        return None
      return _v('psd-matrix-converted', F_CFM, kind, 'NonPSDError although min eigenvalue %r >= -tol/4 (tol %r)' % (wmin, teff), inp)
    return _v('only-documented-exceptions', F_CFM, kind, ename(val), inp)
  if exp == 'reject':
    return _v('below-minus-tol-rejected-with-NonPSDError', F_CFM, kind,
              'returned a matrix although min eigenvalue %r < -tol (tol %r)' % (wmin, teff), inp)
  L = np.asarray(val)
  if L.shape != (n, n):
    return _v('LtL-equals-M', F_CFM, kind, 'result shape %r, documented (d, d) with d=%d' % (L.shape, n), inp)
  if not np.all(np.isfinite(L)):
    return _v('LtL-equals-M', F_CFM, kind, 'result not finite: %r' % (L.tolist(),), inp)
  R = np.einsum('ki,kj->ij', L, L)
  clip = 2 * n * max(0.0, -wmin)
  if np.array_equal(M, np.diag(np.diag(M))):
    ok = np.all(np.abs(R - M) <= 1e-13 * np.abs(M) + clip + 1e-300)
  else:
    ok = np.all(np.abs(R - M) <= 1e-12 * n * wmax + clip + 1e-300)
  if not ok:
    return _v('LtL-equals-M', F_CFM, kind, 'max |L^T L - M| = %r (max |eig| %r, min eig %r, tol %r)' %
              (float(np.max(np.abs(R - M))), wmax, wmin, teff), inp)
  return None


# ---------------------------------------------------------------------------------------------------------------------
# _check_sdp_from_eigen

def eigen_vectors(tier, seed):
  rng = np.random.RandomState(seed + 1)
  reps = 6 if tier == 'quick' else 60
  for n in range(1, 9):
    for rep in range(reps):
      for tol in (0.0, 1e-12, 1e-3, 1.0, 1e5):
        if tol > 0:
          pool = np.array([-10 * tol, -2 * tol, -tol, -tol / 2, 0.0, tol / 2, tol, 2 * tol, 10 * tol, 1e3 * tol])
        else:
          pool = np.array([-1.0, -1e-300, 0.0, 1e-300, 1.0, 1e10])
        # bias towards non-negative spectra so that all three outcomes occur
        mode = rep % 3
        cand = pool if mode == 0 else (pool[pool >= -tol] if mode == 1 else pool[pool >= tol])
        yield 'explicit tol', cand[rng.randint(len(cand), size=n)].astype(float), tol
      scale = 10.0 ** rng.uniform(-8, 8)
      w = scale * rng.uniform(0.5, 1.0, size=n)
      td = np.abs(w).max() * n * EPS
      mode = rep % 4
      if n >= 2 and mode:
        k = rng.randint(1, n)
        w[k] = {1: -4 * td, 2: rng.choice([-td / 4, 0.0, td / 4]), 3: 4 * td}[mode]
      yield 'default tol', w, None
      # single precision: the documented default uses the epsilon of w's OWN dtype ("eps is the epsilon value for
      # datatype of w"), so round-off of float32 arithmetic (~1e-7 relative) is within tolerance
      w32 = (scale32 := 10.0 ** rng.uniform(-3, 3)) * rng.uniform(0.5, 1.0, size=n)
      td32 = np.abs(w32).max() * n * float(np.finfo(np.float32).eps)
      if n >= 2 and mode:
        k = rng.randint(1, n)
        w32[k] = {1: -4 * td32, 2: rng.choice([-td32 / 4, 0.0, td32 / 4]), 3: 4 * td32}[mode]
      yield 'default tol float32', w32.astype(np.float32), None
    yield 'negative tol', np.ones(n), -1e-3
    yield 'negative tol', np.ones(n), -1e-300


def check_sdp(ml, kind, w, tol):
  from metric_learn._util import _check_sdp_from_eigen
  from metric_learn.exceptions import NonPSDError
  inp = dict(call='_check_sdp_from_eigen(w, tol)', w=w.tolist(), tol=tol)
  what, val = outcome(_check_sdp_from_eigen, w.copy()) if tol is None else outcome(_check_sdp_from_eigen, w.copy(), tol)
  if tol is not None and tol < 0:
    if what == 'raise' and isinstance(val, ValueError):
      return None
    return _v('negative-tol-ValueError', F_SDP, kind, ename(val) if what == 'raise' else 'returned %r' % (val,), inp)
  t = tol
  if t is None:
    t = max(abs(float(x)) for x in w) * len(w) * float(np.finfo(w.dtype).eps)
    # stay away from the boundary of the default tolerance (its last bit is not part of the documented semantics)
    if any(0.9 * t < abs(float(x)) < 1.1 * t for x in w):
      return None
  if any(float(x) < -t for x in w):
    want = 'NonPSDError'
  elif any(abs(float(x)) < t for x in w):
    want = False
  elif any(abs(float(x)) == t for x in w):
    # an eigenvalue exactly AT the tolerance: the documented semantics ("smaller than tol ... considered zero") leaves
    # the boundary open, except that an exactly zero eigenvalue is never definite (C20: singular priors are rejected)
    want = False if any(float(x) == 0 for x in w) else 'either'
  else:
    want = True
  if what == 'raise':
    got = 'NonPSDError' if isinstance(val, NonPSDError) else ename(val)
  else:
    got = bool(val) if isinstance(val, (bool, np.bool_)) else val
  if got is want or (isinstance(want, str) and got == want) or (want == 'either' and got in (True, False)):
    return None
  return _v('sign-test-semantics', F_SDP, '%s, expected %s' % (kind, want), 'got %r, expected %r (tol %r)' % (got, want, t), inp)


# ---------------------------------------------------------------------------------------------------------------------
# _pseudo_inverse_from_eig

def pinv_cases(tier, seed):
  rng = np.random.RandomState(seed + 2)
  reps = 2 if tier == 'quick' else 20
  for n in range(1, 9):
    for rep in range(reps):
      for r in range(1, n + 1):
        for cond in (1.0, 1e3, 1e6, 1e8):
          scale = 10.0 ** rng.uniform(-8, 8)
          w = np.zeros(n)
          w[:r] = scale * (cond ** -rng.uniform(0, 1, size=r))
          w[0] = scale
          if r > 1:
            w[1] = scale / cond
          if r < n and rep % 2:
            w[r:] = scale * 1e-22 * rng.rand(n - r)       # far below the rank tolerance: treated as zero
          w = np.sort(w)
          yield 'rank %s, condition %g' % ('full' if r == n else 'deficient', cond), w, rand_orth(rng, n), cond


def check_pinv(ml, kind, w, V, cond):
  from metric_learn._util import _pseudo_inverse_from_eig
  inp = dict(call='_pseudo_inverse_from_eig(w, V)', w=w.tolist(), V=V.tolist())
  V0 = V.copy()
  what, P = outcome(_pseudo_inverse_from_eig, w.copy(), V)
  if what == 'raise':
    return _v('penrose-equations', F_PINV, kind, ename(P), inp)
  if not np.array_equal(V, V0):
    return _v('argument-not-mutated', F_PINV, kind, 'V was modified', inp)
  A = (V * w).dot(V.T)
  n = len(w)
  if P.shape != (n, n) or not np.all(np.isfinite(P)):
    return _v('penrose-equations', F_PINV, kind, 'shape %r / non-finite' % (P.shape,), inp)
  nA, nP = np.abs(A).max(), max(np.abs(P).max(), 1e-300)
  rel = 1e-12 * max(cond, 1.0) * n
  errs = dict(APA=np.abs(A.dot(P).dot(A) - A).max() / nA, PAP=np.abs(P.dot(A).dot(P) - P).max() / nP,
              AP_sym=np.abs(A.dot(P) - A.dot(P).T).max(), PA_sym=np.abs(P.dot(A) - P.dot(A).T).max())
  bad = {k: float(v) for k, v in errs.items() if not v <= rel}
  if bad:
    return _v('penrose-equations', F_PINV, kind, 'relative residuals %r exceed %g' % (bad, rel), inp)
  return None


# ---------------------------------------------------------------------------------------------------------------------
# _initialize_metric_mahalanobis

def distinct_rows(X):
  """independent de-duplication (python set of tuples), lexicographic order"""
  return np.array(sorted(set(map(tuple, np.asarray(X).reshape(-1, np.asarray(X).shape[-1]).tolist()))), dtype=float)


def cov_of(Xd):
  Xc = Xd - Xd.sum(axis=0) / len(Xd)
  return np.einsum('ki,kj->ij', Xc, Xc) / (len(Xd) - 1)


def datasets(tier, seed):
  """(kind, input array 2-D with distinct rows or 3-D tuples with repeated points, expected definite?)"""
  rng = np.random.RandomState(seed + 3)
  reps = 1 if tier == 'quick' else 6
  for d in range(1, 6):
    for rep in range(reps):
      n = d + 3 + rng.randint(8)
      X = np.round(rng.randn(n, d) * 8) / 4 + np.arange(n)[:, None] * (1.0 / 1024)      # distinct rows
      yield 'points full-rank covariance', X, True
      pool = np.round(rng.randn(max(d + 2, 6), d) * 8) / 4 + np.arange(max(d + 2, 6))[:, None] / 1024.
      for t in (2, 3, 4):
        idx = rng.randint(len(pool), size=(n + 4, t))
        idx[0, :] = np.arange(t) % len(pool)
        yield 'tuples(%d) with repeated points' % t, pool[idx], None
      if d >= 2:
        Xs = X.copy()
        Xs[:, -1] = 3.0                                   # constant feature -> singular covariance
        yield 'points constant feature (singular covariance)', Xs, False
        Xs = X.copy()
        Xs[:, -1] = Xs[:, 0]                              # duplicated feature
        yield 'points duplicated feature (singular covariance)', Xs, False
        ps = pool.copy()
        ps[:, -1] = -1.0
        yield 'tuples(2) constant feature (singular covariance)', ps[rng.randint(len(ps), size=(n + 4, 2))], False


def _definiteness(C):
  """'definite' / 'singular' / 'indefinite' by the documented rule (eigenvalues against max|w| * d * eps), or 'ambiguous'
  when an eigenvalue lies within a factor 4 of the threshold (there the outcome is decided by rounding)"""
  from scipy.linalg import eigh
  w = eigh(np.atleast_2d(C), check_finite=False)[0]
  tol = np.abs(w).max() * len(w) * EPS
  if tol == 0:
    return 'zero'
  if np.any(w < -4 * tol):
    return 'indefinite'
  if np.any(w < -tol / 4):
    return 'ambiguous'
  if np.all(w > 4 * tol):
    return 'definite'
  if np.all((np.abs(w) < tol / 4) | (w > 4 * tol)):
    return 'singular'
  return 'ambiguous'


def check_imm_data(ml, kind, inp_arr):
  from metric_learn._util import _initialize_metric_mahalanobis as imm
  d = inp_arr.shape[-1]
  desc = dict(call='_initialize_metric_mahalanobis(input, init, ...)', input=inp_arr.tolist())
  arr0 = inp_arr.copy()
  # identity
  for ri in (False, True):
    what, val = outcome(imm, inp_arr, 'identity', None, ri, False, 'prior')
    vals = val if ri else (val,)
    if what == 'raise' or len(vals) != (2 if ri else 1) or not all(isinstance(v, np.ndarray) and np.array_equal(v, np.eye(d)) for v in vals):
      return _v('identity-is-identity', F_IMM, kind, ename(val) if what == 'raise' else repr(val)[:300], dict(desc, init='identity', return_inverse=ri))
  if what == 'ok' and val[0] is val[1]:
    return _v('identity-is-identity', F_IMM, kind, 'M and M_inv are the same object', dict(desc, init='identity', return_inverse=True))
  # covariance
  Xd = distinct_rows(inp_arr)
  if len(Xd) >= 2:
    C = cov_of(Xd)
    Xu = np.unique(np.vstack(inp_arr), axis=0) if inp_arr.ndim == 3 else inp_arr
    zone = _definiteness(np.cov(Xu, rowvar=False))
    if zone in ('definite', 'singular'):
      scaleC = np.abs(C).max()
      Pexp = np.linalg.pinv(C, rcond=1e-10, hermitian=True)
      for strict in (False, True):
        what, val = outcome(imm, inp_arr, 'covariance', None, True, strict, 'prior')
        di = dict(desc, init='covariance', return_inverse=True, strict_pd=strict)
        if strict and zone == 'singular':
          if not (what == 'raise' and isinstance(val, np.linalg.LinAlgError)):
            return _v('strict_pd-rejects-singular-with-LinAlgError', F_IMM, kind + ' covariance',
                      ename(val) if what == 'raise' else 'returned', di)
          continue
        if what == 'raise':
          return _v('covariance-is-pinv-of-covariance-of-distinct-points', F_IMM, kind, ename(val), di)
        if not (isinstance(val, tuple) and len(val) == 2):
          return _v('returns-(M, M_inv)', F_IMM, kind, 'returned %r' % (type(val),), di)
        M, Minv = val
        if M.shape != (d, d) or Minv.shape != (d, d):
          return _v('covariance-is-pinv-of-covariance-of-distinct-points', F_IMM, kind, 'shapes %r %r' % (M.shape, Minv.shape), di)
        okM = np.all(np.abs(M - Pexp) <= 1e-8 * np.abs(Pexp).max())
        okI = np.all(np.abs(Minv - C) <= 1e-11 * scaleC)
        if not (okM and okI):
          swapped = np.all(np.abs(Minv - Pexp) <= 1e-8 * np.abs(Pexp).max()) and np.all(np.abs(M - C) <= 1e-11 * scaleC)
          return _v('returns-(M, M_inv)' if swapped else 'covariance-is-pinv-of-covariance-of-distinct-points', F_IMM, kind,
                    ('the pair is returned as (M_inv, M)' if swapped else
                     'max |M - pinv(cov(distinct points))| = %r, max |M_inv - cov(distinct points)| = %r (scale %r)' %
                     (float(np.abs(M - Pexp).max()), float(np.abs(Minv - C).max()), float(scaleC))), di)
        what, M1 = outcome(imm, inp_arr, 'covariance', None, False, strict, 'prior')
        if what == 'raise' or not isinstance(M1, np.ndarray) or not np.all(np.abs(M1 - Pexp) <= 1e-8 * np.abs(Pexp).max()):
          return _v('covariance-is-pinv-of-covariance-of-distinct-points', F_IMM, kind,
                    ename(M1) if what == 'raise' else 'without return_inverse: differs from pinv(cov)', dict(di, return_inverse=False))
  # random
  for seed in (0, 7):
    for ri in (False, True):
      a = outcome(imm, inp_arr, 'random', seed, ri, False, 'prior')
      b = outcome(imm, inp_arr, 'random', seed, ri, False, 'prior')
      c = outcome(imm, inp_arr, 'random', np.random.RandomState(seed), ri, False, 'prior')
      di = dict(desc, init='random', random_state=seed, return_inverse=ri)
      if a[0] == 'raise' or b[0] == 'raise' or c[0] == 'raise':
        return _v('random-is-seed-reproducible-SPD', F_IMM, kind, ename([x[1] for x in (a, b, c) if x[0] == 'raise'][0]), di)
      A, B, Cc = (x[1][0] if ri else x[1] for x in (a, b, c))
      if not (np.array_equal(A, B) and np.array_equal(A, Cc)):
        return _v('random-is-seed-reproducible-SPD', F_IMM, kind, 'two calls with seed %d differ by %r' % (seed, float(np.abs(A - B).max())), di)
      if A.shape != (d, d) or not np.allclose(A, A.T, rtol=1e-12, atol=0) or np.linalg.eigvalsh((A + A.T) / 2).min() <= 0:
        return _v('random-is-seed-reproducible-SPD', F_IMM, kind, 'not SPD: %r' % (A.tolist(),), di)
      if ri:
        Ai = a[1][1]
        if not np.all(np.abs(A.dot(Ai) - np.eye(d)) <= 1e-9):
          return _v('returns-(M, M_inv)', F_IMM, kind, 'M M_inv differs from I by %r' % float(np.abs(A.dot(Ai) - np.eye(d)).max()), di)
  # invalid option string
  what, val = outcome(imm, inp_arr, 'covariances', None, False, False, 'prior')
  if not (what == 'raise' and isinstance(val, ValueError)):
    return _v('invalid-option-ValueError', F_IMM, kind, ename(val) if what == 'raise' else 'returned', dict(desc, init='covariances'))
  if not np.array_equal(inp_arr, arr0):
    return _v('argument-not-mutated', F_IMM, kind, 'the input data was modified', desc)
  return None


def array_inits(tier, seed):
  rng = np.random.RandomState(seed + 4)
  reps = 2 if tier == 'quick' else 12
  for d in range(1, 9):
    for rep in range(reps):
      Q = rand_orth(rng, d)
      w = 10.0 ** rng.uniform(-2, 2, size=d)
      A = (Q * w).dot(Q.T)
      yield 'positive definite array', d, (A + A.T) / 2, 'pd'
      if d >= 2:
        Bi = np.round(rng.randn(rng.randint(1, d), d) * 3)
        Bi[0, 0] = Bi[0, 0] or 1.0
        yield 'singular PSD array (integer gram)', d, Bi.T.dot(Bi), 'singular'
        z = np.diag(np.r_[rng.uniform(1, 2, size=d - 1), 0.0])
        yield 'singular PSD array (diagonal with a zero)', d, z, 'singular'
        w2 = w.copy()
        w2[0] = -w.max() * 10.0 ** rng.uniform(-3, 0)
        A2 = (Q * w2).dot(Q.T)
        yield 'indefinite array', d, (A2 + A2.T) / 2, 'indefinite'
        A3 = (A + A.T) / 2 / np.abs(A).max()
        A3[0, 1] += 1.5
        yield 'non-symmetric array', d, A3, 'nonsym'
        yield 'wrong shape (d+1, d+1)', d, np.eye(d + 1), 'shape'
        yield 'wrong shape (d, d+1)', d, np.ones((d, d + 1)), 'shape'
        yield 'wrong shape (d-1, d-1)', d, np.eye(d - 1), 'shape'
      else:
        yield 'singular PSD array (1x1 zero)', d, np.zeros((1, 1)), 'singular'
        yield 'indefinite array', d, np.array([[-1.0]]), 'indefinite'
        yield 'wrong shape (d+1, d+1)', d, np.eye(2), 'shape'
      yield 'wrong shape 1-D', d, np.ones(d), 'shape'
      if rep == 0:
        yield 'all-zero array', d, np.zeros((d, d)), 'zero'


def check_imm_array(ml, kind, d, A, exp, rng_seed):
  from metric_learn._util import _initialize_metric_mahalanobis as imm
  from metric_learn.exceptions import NonPSDError
  rng = np.random.RandomState(rng_seed)
  for data in (rng.randn(6, d), rng.randn(5, 3, d)):
    A0 = A.copy()
    for strict in (False, True):
      for ri in (False, True):
        di = dict(call='_initialize_metric_mahalanobis(input, init=A, return_inverse, strict_pd)', input_shape=list(data.shape),
                  A=A.tolist(), return_inverse=ri, strict_pd=strict)
        what, val = outcome(imm, data, A, None, ri, strict, 'prior')
        if not np.array_equal(A, A0):
          return _v('array-is-copied', F_IMM, kind, 'the caller\'s array was modified by the call', di)
        if exp in ('shape', 'nonsym'):
          if not (what == 'raise' and isinstance(val, ValueError)):
            return _v('wrong-shape-ValueError' if exp == 'shape' else 'non-symmetric-ValueError', F_IMM, kind,
                      ename(val) if what == 'raise' else 'returned', di)
          continue
        if exp == 'indefinite':
          if not (what == 'raise' and isinstance(val, NonPSDError)):
            return _v('indefinite-NonPSDError', F_IMM, kind, ename(val) if what == 'raise' else 'returned', di)
          continue
        zone = _definiteness(A)
        if exp != 'zero' and zone != {'pd': 'definite', 'singular': 'singular'}[exp]:
          continue
        if exp in ('singular', 'zero') and strict:
          if not (what == 'raise' and isinstance(val, np.linalg.LinAlgError) and not isinstance(val, NonPSDError)):
            return _v('strict_pd-rejects-singular-with-LinAlgError', F_IMM, kind, ename(val) if what == 'raise' else 'returned', di)
          continue
        if what == 'raise':
          return _v('array-used-as-given', F_IMM, kind, ename(val), di)
        M = val[0] if ri else val
        if ri and not (isinstance(val, tuple) and len(val) == 2):
          return _v('returns-(M, M_inv)', F_IMM, kind, 'returned %r' % (type(val),), di)
        if not isinstance(M, np.ndarray) or not np.array_equal(M, A):
          return _v('array-used-as-given', F_IMM, kind, 'returned matrix differs from the given one', di)
        if ri:
          Mi = val[1]
          nA, nP = max(np.abs(A).max(), 1e-300), max(np.abs(Mi).max(), 1e-300)
          cond = 1e4 if exp == 'pd' else 1e3
          res = max(np.abs(A.dot(Mi).dot(A) - A).max() / nA, np.abs(Mi.dot(A).dot(Mi) - Mi).max() / nP,
                    np.abs(A.dot(Mi) - A.dot(Mi).T).max(), np.abs(Mi.dot(A) - Mi.dot(A).T).max())
          if exp == 'pd':
            res = max(res, np.abs(A.dot(Mi) - np.eye(d)).max())
          if not res <= 1e-12 * cond * d:
            return _v('returns-(M, M_inv)', F_IMM, kind, 'the second matrix is not the (pseudo-)inverse: residual %r' % float(res), di)
        if M is A or np.shares_memory(M, A):
          return _v('array-is-copied', F_IMM, kind, 'the result shares memory with the caller\'s array', di)
        M[...] = -3.0
        if not np.array_equal(A, A0):
          return _v('array-is-copied', F_IMM, kind, 'mutating the result changed the caller\'s array', di)
  return None


def learner_strict(ml, cls, d, seed):
  """ITML / LSML / SDML reject a singular prior at fit"""
  rng = np.random.RandomState(seed)
  prior = np.diag(np.r_[np.ones(d - 1), 0.0])
  kind = '%s(prior=singular diag).fit' % cls
  di = dict(call=kind, prior=prior.tolist(), n_features=d)
  X = np.round(rng.randn(12, d) * 8) / 4 + np.arange(12)[:, None] / 64.
  if cls == 'LSML':
    est, args = ml.LSML(prior=prior, max_iter=3), (X[rng.permutation(12)[:12].reshape(3, 4)],)
  else:
    pairs = X[np.array([rng.permutation(12)[:2] for _ in range(8)])]
    est, args = getattr(ml, cls)(prior=prior), (pairs, np.array([1, -1] * 4))
  what, val = outcome(est.fit, *args)
  if what == 'raise' and isinstance(val, np.linalg.LinAlgError):
    return None
  return _v('strict_pd-rejects-singular-with-LinAlgError', F_IMM, kind, ename(val) if what == 'raise' else 'fit returned', di)


# ---------------------------------------------------------------------------------------------------------------------
# _initialize_components

def comp_cases(tier, seed):
  rng = np.random.RandomState(seed + 5)
  reps = 1 if tier == 'quick' else 4
  for rep in range(reps):
    for d in (1, 2, 3, 5):
      for n_classes in (2, 3, 4):
        for n in (3, d + 1, 4 * d + 6):
          if n < n_classes + 1:
            continue
          y = np.r_[np.arange(n_classes), rng.randint(n_classes, size=n - n_classes)]
          y = y[rng.permutation(n)]
          cent = rng.randn(n_classes, d) * 4
          X = cent[y] + rng.randn(n, d)
          yield d, n, n_classes, X, y


def _auto_rule(has_classes, d, n, k, n_classes):
  if has_classes and k <= min(d, n_classes - 1):
    return 'lda'
  if k < min(d, n):
    return 'pca'
  return 'identity'


def check_comp(ml, d, n, n_classes, X, y, seed):
  from metric_learn._util import _initialize_components as ic
  from sklearn.decomposition import PCA
  from sklearn.discriminant_analysis import LinearDiscriminantAnalysis
  rng = np.random.RandomState(seed)
  base = dict(call='_initialize_components(n_components, X, y, init, verbose, random_state, has_classes)', X=X.tolist(), y=y.tolist())
  kind = 'd=%d' % d
  enough_for_lda = n > n_classes and np.bincount(y).min() >= 1
  for k in range(1, d + 1):
    di = dict(base, n_components=k)
    # identity
    what, val = outcome(ic, k, X, y, 'identity', False, None, True)
    if what == 'raise' or not np.array_equal(val, np.eye(k, d)):
      return _v('identity-is-eye(n_components, d)', F_IC, kind, ename(val) if what == 'raise' else repr(val)[:200], dict(di, init='identity'))
    T = rng.randn(7, 3, d)
    what, val = outcome(ic, k, T, None, 'identity', False, None, False)
    if what == 'raise' or not np.array_equal(val, np.eye(k, d)):
      return _v('identity-is-eye(n_components, d)', F_IC, kind + ' tuple input', ename(val) if what == 'raise' else repr(val)[:200], dict(di, init='identity'))
    # random
    a = outcome(ic, k, X, y, 'random', False, 5, True)
    b = outcome(ic, k, X, y, 'random', False, 5, True)
    if a[0] == 'raise' or b[0] == 'raise' or a[1].shape != (k, d) or not np.array_equal(a[1], b[1]) or not np.all(np.isfinite(a[1])):
      return _v('random-is-seed-reproducible', F_IC, kind, ename(a[1]) if a[0] == 'raise' else 'shape %r / two calls differ' % (a[1].shape,),
                dict(di, init='random', random_state=5))
    # array
    A = rng.randn(k, d)
    A0 = A.copy()
    what, val = outcome(ic, k, X, y, A, False, None, True)
    if what == 'raise' or not np.array_equal(val, A0):
      return _v('array-used-as-given', F_IC, kind, ename(val) if what == 'raise' else 'differs from the given array', dict(di, init=A0.tolist()))
    if val is A or np.shares_memory(val, A):
      return _v('array-is-copied', F_IC, kind, 'result shares memory with the caller\'s array', dict(di, init=A0.tolist()))
    val[...] = 9.0
    if not np.array_equal(A, A0):
      return _v('array-is-copied', F_IC, kind, 'mutating the result changed the caller\'s array', dict(di, init=A0.tolist()))
    for nm, bad in (('wrong feature dimension', rng.randn(k, d + 1)), ('more rows than columns', rng.randn(d + 1, d)),
                    ('n_components mismatch', rng.randn(k + 1 if k < d else k - 1, d) if d > 1 else None)):
      if bad is None or bad.shape[0] == 0:
        continue
      what, val = outcome(ic, k, X, y, bad, False, None, True)
      if not (what == 'raise' and isinstance(val, ValueError)):
        return _v('array-shape-checks-ValueError', F_IC, nm, ename(val) if what == 'raise' else 'returned', dict(di, init_shape=list(bad.shape)))
    # invalid strings
    for s, hc in (('pcaa', True), ('Identity', True), ('lda', False), ('covariance', True)):
      what, val = outcome(ic, k, X, y, s, False, None, hc)
      if not (what == 'raise' and isinstance(val, ValueError)):
        return _v('invalid-init-ValueError', F_IC, 'init=%r has_classes=%r' % (s, hc), ename(val) if what == 'raise' else 'returned', dict(di, init=s, has_classes=hc))
    # pca
    exp = {}
    if k <= min(n, d):
      with warnings.catch_warnings():
        warnings.simplefilter('ignore')
        exp['pca'] = PCA(n_components=k).fit(X).components_
      what, val = outcome(ic, k, X, y, 'pca', False, 0, True)
      if what == 'raise' or val.shape != (k, d) or not np.allclose(val, exp['pca'], rtol=1e-9, atol=1e-12):
        return _v('pca-is-sklearn-PCA-components', F_IC, kind, ename(val) if what == 'raise' else 'shape %r / values differ' % (val.shape,), dict(di, init='pca'))
    if k <= min(d, n_classes - 1) and enough_for_lda:
      with warnings.catch_warnings():
        warnings.simplefilter('ignore')
        try:
          sc = LinearDiscriminantAnalysis(n_components=k).fit(X, y).scalings_.T[:k]
        except Exception:
          sc = None
      if sc is not None and sc.shape == (k, d) and np.all(np.isfinite(sc)):
        exp['lda'] = sc
        what, val = outcome(ic, k, X, y, 'lda', False, None, True)
        if what == 'raise' or val.shape != (k, d) or not np.allclose(val, sc, rtol=1e-9, atol=1e-12):
          return _v('lda-is-sklearn-LDA-scalings', F_IC, kind, ename(val) if what == 'raise' else 'shape %r / values differ' % (val.shape,), dict(di, init='lda'))
    exp['identity'] = np.eye(k, d)
    # auto
    for hc in (True, False):
      rule = _auto_rule(hc, d, n, k, n_classes)
      if rule not in exp:
        continue
      what, val = outcome(ic, k, X, y if hc else y.astype(float), 'auto', False, 0, hc)
      if what == 'raise' or val.shape != exp[rule].shape or not np.allclose(val, exp[rule], rtol=1e-9, atol=1e-12):
        others = [o for o in exp if o != rule and what == 'ok' and val.shape == exp[o].shape and np.allclose(val, exp[o], rtol=1e-9, atol=1e-12)]
        return _v('auto-follows-selection-rule', F_AUTO, 'rule says %s (has_classes=%r)' % (rule, hc),
                  ename(val) if what == 'raise' else 'auto gave %s, rule says %s (d=%d n=%d n_classes=%d n_components=%d)' %
                  ('the ' + others[0] + ' init' if others else 'something else', rule, d, n, n_classes, k), dict(di, init='auto', has_classes=hc))
  return None


# ---------------------------------------------------------------------------------------------------------------------

def cases(tier, seed):
  ml = repo()
  for kind, M, tol, exp in matrices(tier, seed):
    yield 'components_from_metric n=%d %s' % (M.shape[0], kind), (F_CFM, F_SDP), (lambda kind=kind, M=M, tol=tol, exp=exp: check_cfm(ml, kind, M, tol, exp))
  for kind, w, tol in eigen_vectors(tier, seed):
    yield '_check_sdp_from_eigen len=%d %s tol=%r' % (len(w), kind, tol), (F_SDP,), (lambda kind=kind, w=w, tol=tol: check_sdp(ml, kind, w, tol))
  for kind, w, V, cond in pinv_cases(tier, seed):
    yield '_pseudo_inverse_from_eig n=%d %s' % (len(w), kind), (F_PINV,), (lambda kind=kind, w=w, V=V, cond=cond: check_pinv(ml, kind, w, V, cond))
  for kind, arr, _ in datasets(tier, seed):
    yield '_initialize_metric_mahalanobis d=%d %s' % (arr.shape[-1], kind), (F_IMM, F_PINV, F_SDP), (lambda kind=kind, arr=arr: check_imm_data(ml, kind, arr))
  for i, (kind, d, A, exp) in enumerate(array_inits(tier, seed)):
    yield '_initialize_metric_mahalanobis d=%d init=%s' % (d, kind), (F_IMM, F_PINV, F_SDP), \
        (lambda kind=kind, d=d, A=A, exp=exp, i=i: check_imm_array(ml, kind, d, A, exp, seed * 1000 + i))
  for cls in ('ITML', 'LSML', 'SDML'):
    for d in ((2, 3) if tier == 'quick' else (2, 3, 4, 5)):
      yield '%s rejects a singular prior d=%d' % (cls, d), (F_IMM,), (lambda cls=cls, d=d: learner_strict(ml, cls, d, seed + d))
  for i, (d, n, n_classes, X, y) in enumerate(comp_cases(tier, seed)):
    yield '_initialize_components d=%d n=%d classes=%d' % (d, n, n_classes), (F_IC, F_AUTO), \
        (lambda d=d, n=n, n_classes=n_classes, X=X, y=y, i=i: check_comp(ml, d, n, n_classes, X, y, seed * 1000 + i))


def run(tier, seed):
  n = 0
  vio = []
  samples = []
  distinct = set()
  sigs = set()
  for desc, tags, thunk in cases(tier, seed):
    n += 1
    distinct.add(desc)
    if n % 173 == 1 and len(samples) < 10:
      samples.append(desc)
    try:
      bad = thunk()
    except Exception as e:       # an oracle crash is reported, never swallowed
      bad = dict(tag='oracle-error', fn=tags[0], observed='%s: %s' % (type(e).__name__, e), input=desc, signature='oracle-error: %s' % desc)
    if bad and bad['signature'] not in sigs and len(vio) < 40:
      sigs.add(bad['signature'])
      vio.append(dict(clause='runtime/C20/%s' % bad['tag'], input=bad['input'], observed=bad['observed'], signature=bad['signature'],
                      function=bad['fn']))
  return dict(cases=n, distinct_nontrivial=len(distinct),
              rule='components_from_metric on symmetric matrices of size 1..8 x every rank x {flat, wide (1e-8..1e8), medium, scaled} spectra x {diagonal, dense}, '
                   'Gram matrices, near-PSD inside/outside an explicit tol, indefinite, non-symmetric; _check_sdp_from_eigen on eigenvalue vectors drawn around +-tol '
                   '(explicit tol incl. 0, default tol, negative tol); _pseudo_inverse_from_eig on V diag(w) V^T with condition 1..1e8 at scales 1e-8..1e8 (Penrose equations); '
                   '_initialize_metric_mahalanobis on point sets / tuple sets (identity, covariance, random, array incl. wrong shape / non-symmetric / indefinite / singular, '
                   'strict_pd, return_inverse, copy semantics) and ITML/LSML/SDML fit with a singular prior; _initialize_components for every n_components <= d '
                   '(identity, random, array + shape errors, pca, lda, auto rule, invalid strings); distinct = distinct (function, size, kind) descriptions',
              bound='matrix size 1..8; datasets of <= 26 points, n_features <= 5 (initialisers) ; %s repetitions per configuration; one violation per signature (max 40)'
                    % ('1-2' if tier == 'quick' else '4-20'),
              standin_samples=samples, violations=vio)


def replay_clause(cid, fail, seed):
  target = cid.split('[')[0]
  known = (F_CFM, F_SDP, F_IMM, F_PINV, F_IC, F_AUTO)
  for only in ((target,) if target in known else ()) + (None,):
    for desc, tags, thunk in cases('quick', seed):
      if only is not None and only not in tags:
        continue
      bad = thunk()
      if bad:
        return dict(failing_input=bad['input'], observed='%s: %s' % (bad['tag'], bad['observed']))
  return dict(note='no failing input among the quick stand-in cases')
