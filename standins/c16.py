"""C16 bounded stand-in / replay: BOUNDED-EXHAUSTIVE run-time contract of threshold calibration on the REAL
`calibrate_threshold` / `predict`.  bounded -- not proved.

The estimator's fitted state is set directly (identity transformation in one dimension), so the pair ([0], [g]) has
learned distance exactly g.  Enumerated: every label vector in {-1,+1}^n containing both labels x every distance vector
over the grid {0,1,2}^n (ties, duplicated pairs with conflicting labels and zero distances all occur), and -- so that
instances WITHOUT ties are covered beyond n = 3 -- every permutation of n distinct distances 0..n-1 x the same labels.

Oracle (exact rational arithmetic on integer confusion counts): after calibrate_threshold(pairs, y, strategy, ...)
the criterion attained by predict(pairs) with the stored threshold_ equals the best value over ALL cut-offs
("+1 iff distance <= c" for c below every distance and c at each distinct distance -- these realise every prediction
vector any threshold can produce):
  accuracy-optimal   accuracy
  f_beta-optimal     F-beta of the +1 class, 0 when undefined (no true positive)
  max_tpr-optimal    TPR among cut-offs with TNR >= min_rate; the stored threshold must itself satisfy the constraint
  max_tnr-optimal    TNR among cut-offs with TPR >= min_rate; ditto
  (an admissible cut-off always exists: reject-all has TNR 1, accept-all has TPR 1)
  invalid-params-rejected                 invalid strategy / min_rate / beta -> ValueError from calibrate_threshold
  invalid-params-rejected-before-fitting  ... and from ITML/MMC/SDML.fit(pairs, y, calibration_params=...) with `_fit`
                                          (wrapped on the instance) never called and no components_ left behind
A few real fits with calibration_params (ITML, MMC, SDML on random pairs) are checked with the same oracle on the
learned distances.  signature: 'tied distances' when the instance has duplicate distance values, else 'distinct distances'.
"""
import itertools
import multiprocessing
import warnings
from fractions import Fraction

import numpy as np

from .common import repo, make_fitted

TAG_CAL = 'base_metric:_PairsClassifierMixin.calibrate_threshold'
TAG_VAL = 'base_metric:_PairsClassifierMixin._validate_calibration_params'
TAG_FIT = {'ITML': 'itml:ITML.fit', 'MMC': 'mmc:MMC.fit', 'SDML': 'sdml:SDML.fit'}

STRATEGIES = ([('accuracy', {})] +
              [('f_beta', dict(beta=b)) for b in (0.5, 1.0, 2.0)] +
              [('max_tpr', dict(min_rate=r)) for r in (0, 0.5, 1)] +
              [('max_tnr', dict(min_rate=r)) for r in (0, 0.5, 1)])

GRID = (0, 1, 2)


# ---------------------------------------------------------------------------------------------------------------
# oracle
# ---------------------------------------------------------------------------------------------------------------
def counts(pred, y):
  tp = int(np.sum((pred == 1) & (y == 1)))
  fp = int(np.sum((pred == 1) & (y == -1)))
  tn = int(np.sum((pred == -1) & (y == -1)))
  fn = int(np.sum((pred == -1) & (y == 1)))
  return tp, fp, tn, fn


def criterion(strategy, kw, c):
  """-> (admissible?, value as Fraction)"""
  tp, fp, tn, fn = c
  P, N = tp + fn, tn + fp
  if strategy == 'accuracy':
    return True, Fraction(tp + tn, P + N)
  if strategy == 'f_beta':
    b2 = Fraction(kw['beta']) ** 2
    if tp == 0:
      return True, Fraction(0)
    return True, (1 + b2) * tp / ((1 + b2) * tp + b2 * fn + fp)
  r = Fraction(kw['min_rate'])
  tpr, tnr = Fraction(tp, P), Fraction(tn, N)
  if strategy == 'max_tpr':
    return tnr >= r, tpr
  return tpr >= r, tnr


def check_calibrated(est, pairs, y, strategy, kw):
  """the estimator has just been calibrated on (pairs, y): -> None or (clause, observed)"""
  y = np.asarray(y)
  pred = np.asarray(est.predict(pairs))
  dist = np.asarray(est.pair_distance(pairs))
  if pred.shape != y.shape or not np.all((pred == 1) | (pred == -1)):
    return '%s-optimal' % strategy, 'predict returned %r' % (pred.tolist(),)
  ok, got = criterion(strategy, kw, counts(pred, y))
  best, best_c = None, None
  for c in [None] + sorted(set(dist.tolist())):
    p = np.where(dist <= c, 1, -1) if c is not None else -np.ones(len(y), dtype=int)
    adm, v = criterion(strategy, kw, counts(p, y))
    if adm and (best is None or v > best):
      best, best_c = v, c
  name = {'accuracy': 'accuracy', 'f_beta': 'F-beta', 'max_tpr': 'TPR', 'max_tnr': 'TNR'}[strategy]
  if best is not None and not ok:
    return '%s-optimal' % strategy, ('threshold_=%r violates the constraint %s >= %s although the cut-off %s is admissible (%s %s)'
                                     % (est.threshold_, 'TNR' if strategy == 'max_tpr' else 'TPR', kw['min_rate'],
                                        'reject-all' if best_c is None else 'distance <= %r' % best_c, name, best))
  if best is not None and got != best:
    return '%s-optimal' % strategy, 'threshold_=%r attains %s %s; the cut-off %s attains %s' % (
        est.threshold_, name, got, 'reject-all' if best_c is None else 'distance <= %r' % best_c, best)
  return None


def grid_pairs(dists):
  p = np.zeros((len(dists), 2, 1))
  p[:, 1, 0] = dists
  return p


def check_instance(est, y, dists, strategy, kw):
  pairs = grid_pairs(dists)
  yy = np.array(y)
  with warnings.catch_warnings():
    warnings.simplefilter('ignore')
    try:
      est.calibrate_threshold(pairs, yy, strategy=strategy, **kw)
      return check_calibrated(est, pairs, yy, strategy, kw)
    except Exception as e:
      return '%s-optimal' % strategy, 'raised %s: %s' % (type(e).__name__, str(e)[:200])


def has_ties(dists):
  return len(set(dists)) < len(dists)


# ---------------------------------------------------------------------------------------------------------------
# enumeration
# ---------------------------------------------------------------------------------------------------------------
def label_vectors(n):
  return [l for l in itertools.product((-1, 1), repeat=n) if -1 in l and 1 in l]


def blocks(tier):
  """work units (family, n, labels): each is the full set of distance vectors for one label vector"""
  n_grid, n_perm = (5, 5) if tier == 'quick' else (7, 6)
  out = []
  for n in range(2, n_grid + 1):
    out += [('grid', n, l) for l in label_vectors(n)]
  for n in range(2, n_perm + 1):
    out += [('perm', n, l) for l in label_vectors(n)]
  return out


def distance_vectors(family, n):
  if family == 'grid':
    return itertools.product(GRID, repeat=n)
  return itertools.permutations(range(n))


_EST = {}


def _estimator(cls='ITML'):
  if cls not in _EST:
    _EST[cls] = make_fitted(repo(), cls, np.eye(1))
  return _EST[cls]


def _work(block):
  """-> (n evaluations, {(clause, signature): [count, first input, first observed]}, stats {(strategy-desc, tied): [n, bad]})"""
  family, n, labels = block
  est = _estimator()
  found = {}
  stats = {}
  evals = 0
  for dists in distance_vectors(family, n):
    tied = has_ties(dists)
    for strategy, kw in STRATEGIES:
      evals += 1
      bad = check_instance(est, labels, dists, strategy, kw)
      st = stats.setdefault((strategy, tied), [0, 0])
      st[0] += 1
      if bad:
        st[1] += 1
        key = (bad[0], 'tied distances' if tied else 'distinct distances')
        if key in found:
          found[key][0] += 1
        else:
          found[key] = [1, dict(estimator='ITML with components_=[[1.]]', pairs='[[0.],[d_i]]', distances=list(dists), y=list(labels),
                                strategy=strategy, **kw), bad[1]]
  return evals, found, stats


# ---------------------------------------------------------------------------------------------------------------
# parameter validation
# ---------------------------------------------------------------------------------------------------------------
class _Obj:
  def __repr__(self):
    return '<object>'


INVALID = ([dict(strategy=s) for s in ('acc', 'ACCURACY', '', None, 1, 'f1', 'max_fpr')] +
           [dict(strategy=s, min_rate=r) for s in ('max_tpr', 'max_tnr')
            for r in (None, -0.1, 1.1, -1, 2, float('nan'), float('inf'), 'a', '0.5', [0.5], _Obj())] +
           [dict(strategy=s) for s in ('max_tpr', 'max_tnr')] +
           [dict(strategy='f_beta', beta=b) for b in (None, 'a', '1', [1.0], _Obj())] +
           [dict(strategy='nope', min_rate=0.5, beta=1.0)])


def train_pairs(rng, n=12, d=2):
  y = np.array([1, -1] * (n // 2))
  a = rng.randn(n, d)
  b = a + rng.randn(n, d) * np.where(y == 1, 0.3, 2.0)[:, None]
  return np.stack([a, b], axis=1), y


def check_invalid_calibrate(ml, cls, kw):
  est = make_fitted(ml, cls, np.eye(1), threshold=0.25)
  pairs, y = grid_pairs((0, 1, 2, 1)), np.array([1, -1, -1, 1])
  with warnings.catch_warnings():
    warnings.simplefilter('ignore')
    try:
      est.calibrate_threshold(pairs, y, **kw)
    except ValueError:
      return None
    except Exception as e:
      return 'invalid-params-rejected', 'raised %s (not ValueError): %s' % (type(e).__name__, str(e)[:200])
  return 'invalid-params-rejected', 'returned; threshold_=%r' % (est.threshold_,)


def check_invalid_fit(ml, cls, kw, seed):
  est = getattr(ml, cls)()
  calls = []
  inner = est._fit

  def spy(*a, **k):
    calls.append(1)
    return inner(*a, **k)
  est._fit = spy
  pairs, y = train_pairs(np.random.RandomState(seed))
  with warnings.catch_warnings():
    warnings.simplefilter('ignore')
    try:
      est.fit(pairs, y, calibration_params=dict(kw))
      out = 'returned'
    except ValueError:
      out = None
    except Exception as e:
      out = 'raised %s (not ValueError): %s' % (type(e).__name__, str(e)[:200])
  if calls or hasattr(est, 'components_'):
    return 'invalid-params-rejected-before-fitting', '_fit was called %d time(s) before the parameters were rejected (%s)' % (
        len(calls), out or 'ValueError')
  if out:
    return 'invalid-params-rejected-before-fitting', out
  return None


def check_real_fit(ml, cls, strategy, kw, seed):
  """fit(pairs, y, calibration_params=...) on a small training set, then the optimality oracle on the learned distances"""
  pairs, y = train_pairs(np.random.RandomState(seed), n=14, d=2)
  ctor = dict(ITML=dict(random_state=0, max_iter=50), MMC=dict(random_state=0, max_iter=20), SDML=dict(random_state=0, prior='identity', sparsity_param=0.01))[cls]
  est = getattr(ml, cls)(**ctor)
  with warnings.catch_warnings():
    warnings.simplefilter('ignore')
    try:
      with np.errstate(all='ignore'):
        est.fit(pairs, y, calibration_params=dict(strategy=strategy, **kw))
    except Exception:
      return None          # the solver's own failure modes are not this property's concern
    bad = check_calibrated(est, pairs, y, strategy, kw)
  return bad


def side_cases(ml, tier, seed):
  """(description, tags, function -> None or (clause, observed), input, signature)"""
  for cls in ('ITML', 'MMC', 'SDML'):
    for kw in INVALID:
      desc = '%s.calibrate_threshold(valid pairs, %s)' % (cls, ', '.join('%s=%r' % kv for kv in kw.items()))
      yield desc, (TAG_CAL, TAG_VAL), (lambda cls=cls, kw=kw: check_invalid_calibrate(ml, cls, kw)), desc, 'invalid parameters to calibrate_threshold'
      desc = '%s().fit(valid pairs, y, calibration_params={%s})' % (cls, ', '.join('%s=%r' % kv for kv in kw.items()))
      yield desc, (TAG_FIT[cls], TAG_VAL), (lambda cls=cls, kw=kw: check_invalid_fit(ml, cls, kw, seed)), desc, 'invalid calibration_params to fit'
    # the shared method on the two other classes: reduced enumeration
    for n in (2, 3):
      for labels in label_vectors(n):
        for dists in itertools.product(GRID, repeat=n):
          if cls == 'ITML':
            continue
          for strategy, kw in STRATEGIES:
            desc = '%s grid n=%d y=%r d=%r %s %r' % (cls, n, labels, dists, strategy, kw)
            yield (desc, (TAG_CAL,), (lambda cls=cls, labels=labels, dists=dists, strategy=strategy, kw=kw:
                                      check_instance(_estimator(cls), labels, dists, strategy, kw)),
                   dict(estimator='%s with components_=[[1.]]' % cls, distances=list(dists), y=list(labels), strategy=strategy, **kw),
                   'tied distances' if has_ties(dists) else 'distinct distances')
    for k in range(2 if tier == 'quick' else 10):
      for strategy, kw in STRATEGIES:
        desc = '%s().fit(random pairs #%d, calibration_params=%s %r)' % (cls, k, strategy, kw)
        yield (desc, (TAG_CAL, TAG_FIT[cls]), (lambda cls=cls, strategy=strategy, kw=kw, k=k: check_real_fit(ml, cls, strategy, kw, seed * 1000 + k)),
               desc, 'fit with calibration_params on random pairs')


# ---------------------------------------------------------------------------------------------------------------
# interface
# ---------------------------------------------------------------------------------------------------------------
def cases(tier, seed):
  ml = repo()
  for family, n, labels in blocks(tier):
    for dists in distance_vectors(family, n):
      for strategy, kw in STRATEGIES:
        def thunk(labels=labels, dists=dists, strategy=strategy, kw=kw):
          bad = check_instance(_estimator(), labels, dists, strategy, kw)
          if bad:
            return dict(tag=bad[0], observed=bad[1], input=dict(estimator='ITML with components_=[[1.]]', pairs='[[0.],[d_i]]',
                                                                 distances=list(dists), y=list(labels), strategy=strategy, **kw),
                        signature='tied distances' if has_ties(dists) else 'distinct distances')
          return None
        yield '%s n=%d y=%r d=%r %s %r' % (family, n, labels, dists, strategy, kw), (TAG_CAL,), thunk
  for desc, tags, fn, inp, sig in side_cases(ml, tier, seed):
    def thunk(fn=fn, inp=inp, sig=sig):
      bad = fn()
      if bad:
        return dict(tag=bad[0], observed=bad[1], input=inp, signature=sig)
      return None
    yield desc, tags, thunk


def run(tier, seed):
  ml = repo()
  _estimator()
  work = blocks(tier)
  ctx = multiprocessing.get_context('fork')
  with ctx.Pool(min(16, multiprocessing.cpu_count())) as pool:
    results = pool.map(_work, work, chunksize=1 if tier == 'quick' else 2)
  n = 0
  found = {}
  stats = {}
  for evals, f, st in results:          # in enumeration order (n ascending): the first hit is a smallest one
    n += evals
    for key, (cnt, inp, obs) in f.items():
      if key in found:
        found[key]['count'] += cnt
      else:
        found[key] = dict(clause='runtime/C16/%s' % key[0], input=inp, observed=obs, signature=key[1], count=cnt)
    for key, (a, b) in st.items():
      s = stats.setdefault(key, [0, 0])
      s[0] += a
      s[1] += b
  distinct = n
  samples = ['grid n=3 y=(-1,-1,1) d=(0,0,0) accuracy', 'grid n=5 y=(1,-1,1,-1,-1) d=(2,0,1,1,0) max_tpr min_rate=0.5',
             'perm n=5 y=(1,1,-1,1,-1) d=(3,0,4,1,2) f_beta beta=2']
  for desc, tags, fn, inp, sig in side_cases(ml, tier, seed):
    n += 1
    distinct += 1
    if len(samples) < 8 and n % 53 == 0:
      samples.append(desc)
    bad = fn()
    if bad:
      key = (bad[0], sig)
      if key in found:
        found[key]['count'] += 1
      else:
        found[key] = dict(clause='runtime/C16/%s' % bad[0], input=inp, observed=bad[1], signature=sig, count=1)
  n_grid, n_perm = (5, 5) if tier == 'quick' else (7, 6)
  return dict(cases=n, distinct_nontrivial=distinct,
              rule='bounded-exhaustive: every label vector in {-1,+1}^n with both labels x every distance vector in {0,1,2}^n (n = 2..%d) and x every '
                   'permutation of n distinct distances (n = 2..%d), each under accuracy, f_beta (beta 0.5, 1, 2), max_tpr and max_tnr (min_rate 0, 0.5, 1); '
                   'plus invalid strategy/min_rate/beta values to calibrate_threshold and to ITML/MMC/SDML.fit (with _fit wrapped to count calls), the n <= 3 grid on '
                   'MMC and SDML, and real fits with calibration_params; every (instance, strategy, parameter) is distinct' % (n_grid, n_perm),
              bound='n <= %d pairs over a 3-value distance grid, n <= %d pairs with distinct distances; 1-D identity metric' % (n_grid, n_perm),
              standin_samples=samples,
              per_strategy={'%s/%s' % (k[0], 'tied' if k[1] else 'distinct'): dict(evaluations=v[0], violations=v[1]) for k, v in sorted(stats.items())},
              violations=list(found.values()))


def replay_clause(cid, fail, seed):
  want = cid.split('/')[2] if cid.startswith('runtime/C16/') else None
  ml = repo()
  if want is None or want.startswith('invalid'):
    for desc, tags, fn, inp, sig in side_cases(ml, 'quick', seed):
      if 'grid' in desc or 'random pairs' in desc:
        continue
      if want is None and not any(t.split('[')[0] == cid.split('[')[0] for t in tags):
        continue
      bad = fn()
      if bad and (want is None or bad[0] == want):
        return dict(failing_input=inp, observed=bad[1])
    if want is not None:
      return dict(note='no failing input among the quick stand-in cases')
  for desc, tags, thunk in cases('quick', seed):
    if want is not None and not desc.split(' ')[-2 if False else 0] in ('grid', 'perm'):
      continue
    if want is not None and (' %s ' % want.replace('-optimal', '')) not in desc:
      continue
    bad = thunk()
    if bad and (want is None or bad['tag'] == want):
      return dict(failing_input=bad['input'], observed=bad['observed'])
  return dict(note='no failing input among the quick stand-in cases')
