"""C16 bounded stand-in / replay: BOUNDED-EXHAUSTIVE run-time contract of threshold calibration on the REAL
`calibrate_threshold` / `predict`.  bounded -- not proved.

The estimator's fitted state is set directly (identity transformation in one dimension), so the pair ([0], [g]) has
learned distance exactly g.  Enumerated: every label vector in {-1,+1}^n containing both labels x every distance vector
over the grid {0,1,2}^n (ties, duplicated pairs with conflicting labels and zero distances all occur), and -- so that
instances WITHOUT ties are covered beyond n = 3 -- every permutation of n distinct distances 0..n-1 x the same labels.

Oracle (exact rational arithmetic on integer confusion counts): after calibrate_threshold(pairs, y, strategy, ...)
the criterion attained by predict(pairs) with the stored threshold_ equals the best value over ALL cut-offs
("+1 iff distance <= c" for c below every distance and c at each distinct distance -- these realise every prediction
vector any threshold can produce):
  accuracy-optimal   accuracy
  f_beta-optimal     F-beta of the +1 class, 0 when undefined (no true positive)
  max_tpr-optimal    TPR among cut-offs with TNR >= min_rate; the stored threshold must itself satisfy the constraint
  max_tnr-optimal    TNR among cut-offs with TPR >= min_rate; ditto
  (an admissible cut-off always exists: reject-all has TNR 1, accept-all has TPR 1)
  invalid-params-rejected                 invalid strategy / min_rate / beta -> ValueError from calibrate_threshold
  invalid-params-rejected-before-fitting  ... and from ITML/MMC/SDML.fit(pairs, y, calibration_params=...) with `_fit`
                                          (wrapped on the instance) never called and no components_ left behind
A few real fits with calibration_params (ITML, MMC, SDML on random pairs) are checked with the same oracle on the
learned distances.  signature: 'tied distances' when the instance has duplicate distance values, else 'distinct distances'.
"""
import itertools
import multiprocessing
import warnings
from fractions import Fraction

import numpy as np

from .common import repo, make_fitted

TAG_CAL = 'base_metric:_PairsClassifierMixin.calibrate_threshold'
TAG_VAL = 'base_metric:_PairsClassifierMixin._validate_calibration_params'
TAG_FIT = {'ITML': 'itml:ITML.fit', 'MMC': 'mmc:MMC.fit', 'SDML': 'sdml:SDML.fit'}

STRATEGIES = ([('accuracy', {})] +
              [('f_beta', dict(beta=b)) for b in (0.5, 1.0, 2.0)] +
              [('max_tpr', dict(min_rate=r)) for r in (0, 0.5, 1)] +
              [('max_tnr', dict(min_rate=r)) for r in (0, 0.5, 1)])

GRID = (0, 1, 2)


# ---------------------------------------------------------------------------------------------------------------
# oracle
# ---------------------------------------------------------------------------------------------------------------
def counts(pred, y):
  """confusion counts (tp, fp, tn, fn) of a +-1 prediction sequence against +-1 labels (plain integers)"""
  tp = fp = tn = fn = 0
  for p, t in zip(pred, y):
    if p == 1:
      if t == 1:
        tp += 1
      else:
        fp += 1
    elif t == 1:
      fn += 1
    else:
      tn += 1
  return tp, fp, tn, fn


def criterion(strategy, kw, c):
  """-> (admissible?, value as Fraction)"""
  tp, fp, tn, fn = c
  P, N = tp + fn, tn + fp
  if strategy == 'accuracy':
    return True, Fraction(tp + tn, P + N)
  if strategy == 'f_beta':
    b2 = Fraction(kw['beta']) ** 2
    if tp == 0:
      return True, Fraction(0)
    return True, (1 + b2) * tp / ((1 + b2) * tp + b2 * fn + fp)
  tpr, tnr = Fraction(tp, P), Fraction(tn, N)
  # admissibility as a user of the library computes it: the rate tn/N (tp/P) as a float against the float min_rate.  (min_rate = 0.2
  # means "one in five": the cut-off with TNR 1/5 is admissible, although the double 0.2 is a hair above the rational 1/5.)
  if strategy == 'max_tpr':
    return (tn / N) >= kw['min_rate'], tpr
  return (tp / P) >= kw['min_rate'], tnr


def check_calibrated(est, pairs, y, strategy, kw, dist=None):
  """the estimator has just been calibrated on (pairs, y): -> None or (clause, observed).
  `dist`: the learned distances of the pairs when they are known by construction, else read from pair_distance"""
  y = [int(v) for v in y]
  pred = np.asarray(est.predict(pairs)).tolist()
  if dist is None:
    dist = np.asarray(est.pair_distance(pairs)).tolist()
  if len(pred) != len(y) or any(p not in (1, -1) for p in pred):
    return '%s-optimal' % strategy, 'predict returned %r' % (pred,)
  ok, got = criterion(strategy, kw, counts(pred, y))
  best, best_c = None, None
  for c in [None] + sorted(set(dist)):
    p = [1 if (c is not None and d <= c) else -1 for d in dist]
    adm, v = criterion(strategy, kw, counts(p, y))
    if adm and (best is None or v > best):
      best, best_c = v, c
  name = {'accuracy': 'accuracy', 'f_beta': 'F-beta', 'max_tpr': 'TPR', 'max_tnr': 'TNR'}[strategy]
  if best is not None and not ok:
    return '%s-optimal' % strategy, ('threshold_=%r violates the constraint %s >= %s although the cut-off %s is admissible (%s %s)'
                                     % (float(est.threshold_), 'TNR' if strategy == 'max_tpr' else 'TPR', kw['min_rate'],
                                        'reject-all' if best_c is None else 'distance <= %r' % best_c, name, best))
  if best is not None and got != best:
    return '%s-optimal' % strategy, 'threshold_=%r attains %s %s; the cut-off %s attains %s' % (
        float(est.threshold_), name, got, 'reject-all' if best_c is None else 'distance <= %r' % best_c, best)
  return None


def grid_pairs(dists):
  p = np.zeros((len(dists), 2, 1))
  p[:, 1, 0] = dists
  return p


def check_instance(est, y, dists, strategy, kw):
  pairs = grid_pairs(dists)
  yy = np.array(y)
  with warnings.catch_warnings():
    warnings.simplefilter('ignore')
    try:
      est.calibrate_threshold(pairs, yy, strategy=strategy, **kw)
      return check_calibrated(est, pairs, yy, strategy, kw, dist=[float(d) for d in dists])
    except Exception as e:
      return '%s-optimal' % strategy, 'raised %s: %s' % (type(e).__name__, str(e)[:200])


def has_ties(dists):
  return len(set(dists)) < len(dists)


# ---------------------------------------------------------------------------------------------------------------
# enumeration
# ---------------------------------------------------------------------------------------------------------------
def label_vectors(n):
  return [l for l in itertools.product((-1, 1), repeat=n) if -1 in l and 1 in l]


ONE_PER_STRATEGY = [STRATEGIES[0], STRATEGIES[2], STRATEGIES[5], STRATEGIES[8]]   # accuracy, f_beta 1, max_tpr 0.5, max_tnr 0.5


def blocks(tier):
  """work units (family, n, labels, strategies): each is a full set of distance vectors for one label vector.
  quick:    grid n = 2..5 (all 10 strategy settings), distinct distances n = 2..4 (all) and n = 5 (one setting per strategy)
  thorough: grid n = 2..6, distinct distances n = 2..6, and n = 7 over the grid UP TO ORDER: every label vector x every
            non-decreasing and every non-increasing distance vector (= every labelled multiset of 7 distances)"""
  out = []
  if tier == 'quick':
    for n in range(2, 6):
      out += [('grid', n, l, STRATEGIES) for l in label_vectors(n)]
    for n in range(2, 5):
      out += [('perm', n, l, STRATEGIES) for l in label_vectors(n)]
    out += [('perm', 5, l, ONE_PER_STRATEGY) for l in label_vectors(5)]
    for fam in NEAR_MAPS:
      for n in range(2, 5):
        out += [(fam, n, l, ONE_PER_STRATEGY) for l in label_vectors(n)]
  else:
    for n in range(2, 7):
      out += [('grid', n, l, STRATEGIES) for l in label_vectors(n)]
    for n in range(2, 7):
      out += [('perm', n, l, STRATEGIES) for l in label_vectors(n)]
    out += [('sorted', 7, l, STRATEGIES) for l in label_vectors(7)]
    for fam in NEAR_MAPS:
      for n in range(2, 6):
        out += [(fam, n, l, STRATEGIES) for l in label_vectors(n)]
  return out


# distinct but NEARLY equal distances (relative gaps ~1e-6, absolute gaps ~1e-12): a legitimate validation set must still get
# the optimal cut-off between them (added after seeded change C16-1: np.isclose used to group "tied" scores)
NEAR_MAPS = {'near-rel': {0: 1.0, 1: 1.0 + 2.0 ** -20, 2: 1.0 + 2.0 ** -19},
             'near-abs': {0: 0.0, 1: 2.0 ** -40, 2: 2.0 ** -39}}


def distance_vectors(family, n):
  if family in NEAR_MAPS:
    m = NEAR_MAPS[family]
    return [tuple(m[g] for g in v) for v in itertools.product(GRID, repeat=n)]
  if family == 'grid':
    return itertools.product(GRID, repeat=n)
  if family == 'sorted':
    up = list(itertools.combinations_with_replacement(GRID, n))
    return up + [u[::-1] for u in up if u[::-1] != u]
  return itertools.permutations(range(n))


_EST = {}


def _estimator(cls='ITML'):
  if cls not in _EST:
    _EST[cls] = make_fitted(repo(), cls, np.eye(1))
  return _EST[cls]


def _work(block):
  """-> (n evaluations, {(clause, signature): [count, first input, first observed]}, stats {(strategy-desc, tied): [n, bad]})"""
  family, n, labels, strategies = block
  est = _estimator()
  found = {}
  stats = {}
  evals = 0
  for dists in distance_vectors(family, n):
    tied = has_ties(dists)
    for strategy, kw in strategies:
      evals += 1
      bad = check_instance(est, labels, dists, strategy, kw)
      st = stats.setdefault((strategy, tied), [0, 0])
      st[0] += 1
      if bad:
        st[1] += 1
        key = (bad[0], 'tied distances' if tied else 'distinct distances')
        if key in found:
          found[key][0] += 1
        else:
          found[key] = [1, dict(estimator='ITML with components_=[[1.]]', pairs='[[0.],[d_i]]', distances=list(dists), y=list(labels),
                                strategy=strategy, **kw), bad[1]]
  return evals, found, stats


# ---------------------------------------------------------------------------------------------------------------
# parameter validation
# ---------------------------------------------------------------------------------------------------------------
class _Obj:
  def __repr__(self):
    return '<object>'


INVALID = ([dict(strategy=s) for s in ('acc', 'ACCURACY', '', None, 1, 'f1', 'max_fpr')] +
           [dict(strategy=s, min_rate=r) for s in ('max_tpr', 'max_tnr')
            for r in (None, -0.1, 1.1, -1, 2, float('nan'), float('inf'), 'a', '0.5', [0.5], _Obj())] +
           [dict(strategy=s) for s in ('max_tpr', 'max_tnr')] +
           [dict(strategy='f_beta', beta=b) for b in (None, 'a', '1', [1.0], _Obj())] +
           [dict(strategy='nope', min_rate=0.5, beta=1.0)])


def train_pairs(rng, n=12, d=2):
  y = np.array([1, -1] * (n // 2))
  a = rng.randn(n, d)
  b = a + rng.randn(n, d) * np.where(y == 1, 0.3, 2.0)[:, None]
  return np.stack([a, b], axis=1), y


def check_invalid_calibrate(ml, cls, kw):
  est = make_fitted(ml, cls, np.eye(1), threshold=0.25)
  pairs, y = grid_pairs((0, 1, 2, 1)), np.array([1, -1, -1, 1])
  with warnings.catch_warnings():
    warnings.simplefilter('ignore')
    try:
      est.calibrate_threshold(pairs, y, **kw)
    except ValueError:
      return None
    except Exception as e:
      return 'invalid-params-rejected', 'raised %s (not ValueError): %s' % (type(e).__name__, str(e)[:200])
  return 'invalid-params-rejected', 'returned; threshold_=%r' % (est.threshold_,)


def check_invalid_fit(ml, cls, kw, seed):
  est = getattr(ml, cls)()
  calls = []
  inner = est._fit

  def spy(*a, **k):
    calls.append(1)
    return inner(*a, **k)
  est._fit = spy
  pairs, y = train_pairs(np.random.RandomState(seed))
  with warnings.catch_warnings():
    warnings.simplefilter('ignore')
    try:
      est.fit(pairs, y, calibration_params=dict(kw))
      out = 'returned'
    except ValueError:
      out = None
    except Exception as e:
      out = 'raised %s (not ValueError): %s' % (type(e).__name__, str(e)[:200])
  if calls or hasattr(est, 'components_'):
    return 'invalid-params-rejected-before-fitting', '_fit was called %d time(s) before the parameters were rejected (%s)' % (
        len(calls), out or 'ValueError')
  if out:
    return 'invalid-params-rejected-before-fitting', out
  return None


REAL_FITS = {}


def check_real_fit(ml, cls, strategy, kw, seed):
  """fit(pairs, y, calibration_params=...) on a small training set, then the optimality oracle on the learned distances"""
  pairs, y = train_pairs(np.random.RandomState(seed), n=14, d=2)
  ctor = dict(ITML=dict(random_state=0, max_iter=50), MMC=dict(random_state=0, max_iter=20), SDML=dict(random_state=0, prior='identity', balance_param=0.01, sparsity_param=0.5))[cls]
  est = getattr(ml, cls)(**ctor)
  with warnings.catch_warnings():
    warnings.simplefilter('ignore')
    try:
      with np.errstate(all='ignore'):
        est.fit(pairs, y, calibration_params=dict(strategy=strategy, **kw))
    except Exception as e:
      if hasattr(est, 'components_'):     # the metric was learned: the failure is the calibration's
        return '%s-optimal' % strategy, 'fit raised %s after the metric was learned: %s' % (type(e).__name__, str(e)[:200])
      REAL_FITS['solver failed'] = REAL_FITS.get('solver failed', 0) + 1
      return None          # the solver's own failure modes are not this property's concern
    REAL_FITS['completed'] = REAL_FITS.get('completed', 0) + 1
    bad = check_calibrated(est, pairs, y, strategy, kw)
  return bad


def side_cases(ml, tier, seed):
  """(description, tags, function -> None or (clause, observed), input, signature)"""
  for cls in ('ITML', 'MMC', 'SDML'):
    for kw in INVALID:
      desc = '%s.calibrate_threshold(valid pairs, %s)' % (cls, ', '.join('%s=%r' % kv for kv in kw.items()))
      yield desc, (TAG_CAL, TAG_VAL), (lambda cls=cls, kw=kw: check_invalid_calibrate(ml, cls, kw)), desc, 'invalid parameters to calibrate_threshold'
      desc = '%s().fit(valid pairs, y, calibration_params={%s})' % (cls, ', '.join('%s=%r' % kv for kv in kw.items()))
      yield desc, (TAG_FIT[cls], TAG_VAL), (lambda cls=cls, kw=kw: check_invalid_fit(ml, cls, kw, seed)), desc, 'invalid calibration_params to fit'
    # the shared method on the two other classes: reduced enumeration
    for n in (2, 3):
      for labels in label_vectors(n):
        for dists in itertools.product(GRID, repeat=n):
          if cls == 'ITML':
            continue
          for strategy, kw in STRATEGIES:
            desc = '%s grid n=%d y=%r d=%r %s %r' % (cls, n, labels, dists, strategy, kw)
            yield (desc, (TAG_CAL,), (lambda cls=cls, labels=labels, dists=dists, strategy=strategy, kw=kw:
                                      check_instance(_estimator(cls), labels, dists, strategy, kw)),
                   dict(estimator='%s with components_=[[1.]]' % cls, distances=list(dists), y=list(labels), strategy=strategy, **kw),
                   'tied distances' if has_ties(dists) else 'distinct distances')
    # min_rate attained EXACTLY by a cut-off (rates k/N that are not exactly representable: N = 5, 10 negatives / positives)
    if cls == 'ITML':
      rs = np.random.RandomState(seed + 16)
      for N in ((5,) if tier == 'quick' else (5, 10, 7)):
        for rep_ in range(3 if tier == 'quick' else 8):
          n = N + 3
          order = rs.permutation(n)
          for strategy in ('max_tpr', 'max_tnr'):
            # N of the constrained class, 3 of the other
            labels = tuple((-1 if strategy == 'max_tpr' else 1) if i < N else (1 if strategy == 'max_tpr' else -1) for i in order)
            dists = tuple(float(v) for v in range(n))
            for k_ in range(1, N):
              kw = dict(min_rate=k_ / N)
              desc = 'ITML boundary n=%d y=%r d=0..%d %s min_rate=%d/%d' % (n, labels, n - 1, strategy, k_, N)
              yield (desc, (TAG_CAL,), (lambda labels=labels, dists=dists, strategy=strategy, kw=kw: check_instance(_estimator('ITML'), labels, dists, strategy, kw)),
                     dict(estimator='ITML with components_=[[1.]]', distances=list(dists), y=list(labels), strategy=strategy, **kw),
                     'min_rate attained exactly (k/N not representable)')
    for k in range(2 if tier == 'quick' else 10):
      for strategy, kw in STRATEGIES:
        desc = '%s().fit(random pairs #%d, calibration_params=%s %r)' % (cls, k, strategy, kw)
        yield (desc, (TAG_CAL, TAG_FIT[cls]), (lambda cls=cls, strategy=strategy, kw=kw, k=k: check_real_fit(ml, cls, strategy, kw, seed * 1000 + k)),
               desc, 'fit with calibration_params on random pairs')


# ---------------------------------------------------------------------------------------------------------------
# interface
# ---------------------------------------------------------------------------------------------------------------
def cases(tier, seed):
  ml = repo()
  for family, n, labels, strategies in blocks(tier):
    for dists in distance_vectors(family, n):
      for strategy, kw in strategies:
        def thunk(labels=labels, dists=dists, strategy=strategy, kw=kw):
          bad = check_instance(_estimator(), labels, dists, strategy, kw)
          if bad:
            return dict(tag=bad[0], observed=bad[1], input=dict(estimator='ITML with components_=[[1.]]', pairs='[[0.],[d_i]]',
                                                                 distances=list(dists), y=list(labels), strategy=strategy, **kw),
                        signature='tied distances' if has_ties(dists) else 'distinct distances')
          return None
        yield '%s n=%d y=%r d=%r %s %r' % (family, n, labels, dists, strategy, kw), (TAG_CAL,), thunk
  for desc, tags, fn, inp, sig in side_cases(ml, tier, seed):
    def thunk(fn=fn, inp=inp, sig=sig):
      bad = fn()
      if bad:
        return dict(tag=bad[0], observed=bad[1], input=inp, signature=sig)
      return None
    yield desc, tags, thunk


def run(tier, seed):
  ml = repo()
  _estimator()
  REAL_FITS.clear()
  work = blocks(tier)
  ctx = multiprocessing.get_context('fork')
  with ctx.Pool(min(16, multiprocessing.cpu_count())) as pool:
    results = pool.map(_work, work, chunksize=1 if tier == 'quick' else 2)
  n = 0
  found = {}
  stats = {}
  for evals, f, st in results:          # in enumeration order (n ascending): the first hit is a smallest one
    n += evals
    for key, (cnt, inp, obs) in f.items():
      if key in found:
        found[key]['count'] += cnt
      else:
        found[key] = dict(clause='runtime/C16/%s' % key[0], input=inp, observed=obs, signature=key[1], count=cnt)
    for key, (a, b) in st.items():
      s = stats.setdefault(key, [0, 0])
      s[0] += a
      s[1] += b
  distinct = n
  samples = ['grid n=3 y=(-1,-1,1) d=(0,0,0) accuracy', 'grid n=5 y=(1,-1,1,-1,-1) d=(2,0,1,1,0) max_tpr min_rate=0.5',
             'perm n=5 y=(1,1,-1,1,-1) d=(3,0,4,1,2) f_beta beta=1']
  for desc, tags, fn, inp, sig in side_cases(ml, tier, seed):
    n += 1
    distinct += 1
    if len(samples) < 8 and n % 53 == 0:
      samples.append(desc)
    bad = fn()
    if bad:
      key = (bad[0], sig)
      if key in found:
        found[key]['count'] += 1
      else:
        found[key] = dict(clause='runtime/C16/%s' % bad[0], input=inp, observed=bad[1], signature=sig, count=1)
  if tier == 'quick':
    enum = ('{0,1,2}^n for n = 2..5, and every permutation of n distinct distances for n = 2..4 (n = 5: one parameter setting per strategy)')
    bound = 'n <= 5 pairs over a 3-value distance grid (exhaustive), n <= 5 pairs with distinct distances; 1-D identity metric'
  else:
    enum = ('{0,1,2}^n for n = 2..6, every permutation of n distinct distances for n = 2..6, and for n = 7 every non-decreasing / non-increasing '
            'vector over {0,1,2} (every labelled multiset of 7 distances, not every ordering)')
    bound = 'n <= 6 pairs over a 3-value distance grid (exhaustive), n = 7 up to ordering, n <= 6 pairs with distinct distances; 1-D identity metric'
  return dict(cases=n, distinct_nontrivial=distinct,
              rule='bounded-exhaustive: every label vector in {-1,+1}^n with both labels x every distance vector in %s, each under accuracy, f_beta '
                   '(beta 0.5, 1, 2), max_tpr and max_tnr (min_rate 0, 0.5, 1); plus invalid strategy/min_rate/beta values to calibrate_threshold and to '
                   'ITML/MMC/SDML.fit (with _fit wrapped to count calls), the n <= 3 grid on MMC and SDML, and real fits with calibration_params; '
                   'every (instance, strategy, parameter) is distinct' % enum,
              bound=bound,
              standin_samples=samples, real_fits=dict(REAL_FITS),
              per_strategy={'%s/%s' % (k[0], 'tied' if k[1] else 'distinct'): dict(evaluations=v[0], violations=v[1]) for k, v in sorted(stats.items())},
              violations=list(found.values()))


def replay_clause(cid, fail, seed):
  """first failing case for the clause: cid is 'runtime/C16/<clause>' or the id of a failed proof obligation"""
  want = cid.split('/')[2] if cid.startswith('runtime/C16/') else None
  target = cid.split('[')[0]
  strategy = want[:-len('-optimal')] if want and want.endswith('-optimal') else None
  for desc, tags, thunk in cases('quick', seed):
    if strategy is not None and (' %s ' % strategy) not in desc:
      continue
    if want is not None and want.startswith('invalid') and not ('calibrate_threshold(' in desc or '.fit(valid' in desc):
      continue
    if want is None and target in (TAG_CAL, TAG_VAL) + tuple(TAG_FIT.values()) and target not in tags:
      continue
    bad = thunk()
    if bad and (want is None or bad['tag'] == want):
      return dict(failing_input=bad['input'], observed=bad['observed'])
  return dict(note='no failing input among the quick stand-in cases')
