#!/verif/.venv/bin/python
"""./verif.sh replay <file>: re-runs the failing input / names the failed obligation of a replay file"""
import json, sys, os, importlib
HERE = os.path.dirname(os.path.abspath(__file__))
sys.path.insert(0, HERE)
d = json.load(open(sys.argv[1]))
print('property  :', d['property'])
print('obligation:', d['obligation'])
print('status    :', d['status'])
if d.get('failing_input') is None:
  print('no failing input was found; verifier output follows')
  print(json.dumps(d.get('solver_output'), indent=1)[:4000])
  sys.exit(1)
print('failing input:', json.dumps(d['failing_input'])[:2000])
print('observed when first found:', d.get('observed'))
mod = importlib.import_module('standins.' + d['property'].lower())
if hasattr(mod, 'replay_clause'):
  r = mod.replay_clause(d['obligation'], d.get('solver_output') or {}, 0)
  print('re-run now :', json.dumps(r, default=str)[:2000])
  sys.exit(1 if r and r.get('failing_input') is not None else 0)
