#!/usr/bin/env python3
"""print a repo module without docstrings (reading aid only, not part of the verifier)"""
import ast,sys
for mod in sys.argv[1:]:
    src=open(f'/repo/metric_learn/{mod}.py',newline='').read().replace('\r\n','\n')
    tree=ast.parse(src)
    lines=src.split('\n')
    skip=set()
    for n in ast.walk(tree):
        if isinstance(n,(ast.FunctionDef,ast.ClassDef,ast.Module)) and n.body and isinstance(n.body[0],ast.Expr) and isinstance(n.body[0].value,ast.Constant) and isinstance(n.body[0].value.value,str):
            d=n.body[0]
            for i in range(d.lineno,d.end_lineno+1): skip.add(i)
    print('#'*30,mod)
    for i,l in enumerate(lines,1):
        if i not in skip and l.strip(): print(f'{i:4d} {l}')
