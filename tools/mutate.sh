#!/bin/bash
# usage: tools/mutate.sh <file-relative-to-metric_learn> <python-regex> <replacement> -- <props...>
# applies one textual mutation to a scratch copy of /repo (outside /repo and /verif), runs the checks against it, removes the copy
set -e
f="$1"; pat="$2"; rep="$3"; shift 3; [ "$1" == "--" ] && shift
d=$(mktemp -d /tmp/mut.XXXXXX)
cp -r /repo/metric_learn "$d/metric_learn"
python3 - "$d/metric_learn/$f" "$pat" "$rep" <<'PY'
import re,sys
p,pat,rep=sys.argv[1:4]
s=open(p,newline='').read()
n=len(re.findall(pat,s))
assert n==1, 'pattern matches %d times'%n
open(p,'w',newline='').write(re.sub(pat,rep,s))
PY
rc=0
for prop in "$@"; do VERIF_REPO="$d" /verif/.venv/bin/python /verif/check.py $prop 2>&1 | grep -E "^(VIOLATION|UNDECIDED|ERROR|C[0-9]+ tier|KNOWN)" | cut -c1-260 || true; done
rm -rf "$d"
