#!/bin/bash
# usage: tools/seeded_eval.sh <PROP> <k> [extra props to run]
# confirms a sub-agent's change (demo passes without / fails with it) in its scratch worktree, runs our checks against it in /repo,
# undoes it, and files it under /verif/seeded/<PROP>-<k>/
P=$1; K=$2; shift 2
OUT=/tmp/mutwt/${P}_out${OUTSFX}; WT=/tmp/mutwt/$P; KOFF=${KOFF:-0}
[ -f $OUT/patch_$K.diff ] || { echo "no patch $OUT/patch_$K.diff"; exit 1; }
git -C $WT checkout -q -- . 
cp $OUT/demo_$K.py $WT/_demo_$K.py
( cd $WT && OMP_NUM_THREADS=2 timeout 900 /venv/bin/python _demo_$K.py >/tmp/mutwt/${P}_demo_${K}_without.log 2>&1 ); RC0=$?
git -C $WT apply $OUT/patch_$K.diff || { echo "patch does not apply"; exit 1; }
( cd $WT && OMP_NUM_THREADS=2 timeout 900 /venv/bin/python _demo_$K.py >/tmp/mutwt/${P}_demo_${K}_with.log 2>&1 ); RC1=$?
git -C $WT checkout -q -- . ; rm -f $WT/_demo_$K.py
echo "demo without change: exit $RC0 ; with change: exit $RC1"
[ -z "$(git -C /repo status --porcelain)" ] || { echo "/repo not clean"; exit 1; }
git -C /repo apply $OUT/patch_$K.diff || exit 1
RES=""
for Q in $P "$@"; do
  LINE=$(cd /verif && timeout 1500 ./verif.sh check $Q 2>&1 | grep -E "^(VIOLATION|UNDECIDED|ERROR|C[0-9]+ tier)" | cut -c1-300)
  echo "$LINE" | tail -6
  RES="$RES
--- check $Q
$LINE"
done
git -C /repo checkout -- .
D=/verif/seeded/$P-$((K+KOFF)); mkdir -p $D
cp $OUT/patch_$K.diff $D/patch.diff; cp $OUT/demo_$K.py $D/demo.py
python3 - "$OUT/meta_$K.json" "$D/meta.json" "$RC0" "$RC1" "$RES" "$P" <<'PY'
import json,sys
src,dst,rc0,rc1,res,prop=sys.argv[1:7]
try: m=json.load(open(src))
except Exception: m={}
m['property']=prop
m['confirmed_demo_exit_without_change']=int(rc0); m['confirmed_demo_exit_with_change']=int(rc1)
m['what_i_ran']='tools/seeded_eval.sh: demo in the scratch worktree without/with the patch; then git -C /repo apply patch.diff; ./verif.sh check <props>; git -C /repo checkout -- .'
m['check_output']=res.strip().splitlines()
m['detected']=any(l.startswith('VIOLATION') for l in res.splitlines())
json.dump(m,open(dst,'w'),indent=1)
print('detected:',m['detected'])
PY
