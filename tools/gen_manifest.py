#!/usr/bin/env python3
"""regenerates MANIFEST.json from contracts/manifest_meta.py (single source of truth for levels / notes)"""
import json, sys, os
sys.path.insert(0, '/verif')
HERE = '/verif'
props = [json.loads(l) for l in open(os.path.join(HERE, 'properties.jsonl'))]
sys.path.insert(0, HERE)
import importlib.util
spec = importlib.util.spec_from_file_location('manifest_meta', os.path.join(HERE, 'contracts', 'manifest_meta.py'))
mm = importlib.util.module_from_spec(spec); spec.loader.exec_module(mm)
META = mm.META
CLAIMED = mm.CLAIMED
m = dict(version=1, setup_cmd='./setup.sh',
         hooks=dict(guard='METRIC_LEARN_VERIF',
                    enable='none: the verifier reads /repo/metric_learn/*.py as source text on every run and the stand-ins import the working tree unmodified; /repo carries no hook',
                    baseline_off_cmd='cd /repo && /venv/bin/python -m pytest -ra -q -p no:cacheprovider --timeout=900 --continue-on-collection-errors',
                    source_commits=[], add_only=True),
         engines=[dict(name='npvc', path='npvc/', serves_properties=sorted(CLAIMED),
                       kind_free_text='contract-based deductive verification: VC generation from the ast of the real functions (sidecar contracts in contracts/), discharged by z3 (cvc5 cross-check in the thorough tier); Lean/Mathlib for the mathematical axioms; bounded run-time stand-ins in standins/')],
         checks=[], notes='see DESIGN.md; exit 0 held / 1 violation / 2 undecided / 3 tool error', not_applicable=[])
for p in props:
  pid = p['id']
  if pid in CLAIMED:
    md = META[pid]
    m['checks'].append(dict(property_id=pid, quick_cmd='./verif.sh check %s --tier quick' % pid,
                            thorough_cmd='./verif.sh check %s --tier thorough' % pid,
                            evidence_file='/verif/evidence/%s.json' % pid, replay_cmd_template='./verif.sh replay {path}', engine='npvc',
                            level_claimed=dict(category=md['level'], text=md['level_text'], design_ref='DESIGN.md section 3 (%s)' % pid),
                            level_note=md['level_note'], technique=md['technique']))
  else:
    m['not_applicable'].append(dict(property_id=pid, reason=mm.NOT_YET.get(pid, 'check not built yet in this session (planned, see DESIGN.md section 3)')))
json.dump(m, open(os.path.join(HERE, 'MANIFEST.json'), 'w'), indent=1)
import jsonschema
jsonschema.validate(m, json.load(open('/root/.vp/MANIFEST.schema.json')))
print('MANIFEST.json: %d checks, %d not_applicable' % (len(m['checks']), len(m['not_applicable'])))
