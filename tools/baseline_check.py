#!/usr/bin/env python3
"""runs the repository suite (xdist) and checks that every test of BASELINE.stable_pass still passes"""
import json, subprocess, sys, xml.etree.ElementTree as ET, os, tempfile
base = json.load(open('/root/.vp/BASELINE.json'))
want = set(base['stable_pass'])
out = tempfile.mktemp(suffix='.xml')
subprocess.run(['/venv/bin/python', '-m', 'pytest', '-q', '-p', 'no:cacheprovider', '-n', sys.argv[1] if len(sys.argv) > 1 else '10', '--timeout=900',
                '--continue-on-collection-errors', '--junitxml=' + out], cwd='/repo', stdout=subprocess.DEVNULL, stderr=subprocess.DEVNULL)
passed = set(); failed = set()
for tc in ET.parse(out).getroot().iter('testcase'):
  name = tc.get('classname') + '::' + tc.get('name')
  bad = any(ch.tag in ('failure', 'error') for ch in tc)
  skipped = any(ch.tag == 'skipped' for ch in tc)
  if bad: failed.add(name)
  elif not skipped: passed.add(name)
os.unlink(out)
# junit classnames use dots: test.metric_learn_test.TestX::name  (same form as BASELINE)
missing = sorted(want - passed)
print('baseline stable_pass: %d, passing now: %d of them; total passed %d failed %d' % (len(want), len(want & passed), len(passed), len(failed)))
for m in missing[:20]: print('  NOT PASSING:', m)
sys.exit(1 if missing else 0)
