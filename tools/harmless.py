#!/usr/bin/env python3
"""Harmless-edit corpus: semantics-preserving rewrites of /repo's source, each applied to a scratch copy (outside /repo and /verif, removed
afterwards) and checked with the affected properties.  A check must NOT print a VIOLATION line for any of them; `UNDECIDED` (exit 2:
"construct / external outside the verified subset", "sidecar invariant no longer binds") is the documented, accepted outcome for rewrites
the verifier cannot follow.  usage: tools/harmless.py [name-substring]"""
import os
import re
import shutil
import subprocess
import sys
import tempfile

EDITS = [
    # (name, file, regex, replacement, properties)
    ('pair_distance: named temporaries', 'base_metric.py',
     r'pairwise_diffs = self\.transform\(pairs\[:, 1, :\] - pairs\[:, 0, :\]\)',
     'second = pairs[:, 1, :]\n    first = pairs[:, 0, :]\n    delta = second - first\n    pairwise_diffs = self.transform(delta)', ['C01', 'C02']),
    ('transform: np.dot spelling', 'base_metric.py', r'return X_checked\.dot\(self\.components_\.T\)', 'return np.dot(X_checked, self.components_.T)', ['C01', 'C02', 'C03']),
    ('transform: @ spelling', 'base_metric.py', r'return X_checked\.dot\(self\.components_\.T\)', 'return X_checked @ self.components_.T', ['C01', 'C02']),
    ('pair_distance: x*x for x**2', 'base_metric.py', r'np\.sqrt\(np\.sum\(pairwise_diffs\*\*2, axis=-1\)\)', 'np.sqrt(np.sum(pairwise_diffs * pairwise_diffs, axis=-1))', ['C01', 'C02']),
    ('_check_n_components: nested ifs', '_util.py', r'  if 0 < n_components <= n_features:\r?\n    return n_components',
     '  if n_components > 0:\n    if n_components <= n_features:\n      return n_components', ['C06', 'C03']),
    ('itml: gamma read later (reordered independent statements)', 'itml.py', r'    gamma = self\.gamma\r?\n(    pos_pairs, neg_pairs = pairs\[y == 1\], pairs\[y == -1\]\r?\n)',
     r'\1    gamma = self.gamma\n', ['C11', 'C19']),
    ('itml: extra verbose print', 'itml.py', r'(      normsum = np\.linalg\.norm\(_lambda\) \+ np\.linalg\.norm\(lambdaold\))',
     r"      if self.verbose:\n        print('sweep', it)\n\1", ['C11']),
    ('covariance: intermediate name', 'covariance.py', r'    M = np\.atleast_2d\(np\.cov\(X, rowvar=False\)\)', '    C_ = np.cov(X, rowvar=False)\n    M = np.atleast_2d(C_)', ['C09', 'C19']),
    ('predict (pairs): comparison flipped around', 'base_metric.py', r'return 2 \* \(- self\.decision_function\(pairs\) <= self\.threshold_\) - 1',
     'return 2 * (self.threshold_ >= - self.decision_function(pairs)) - 1', ['C04']),
    ('constraints: flatnonzero for where()[0] (external without contract -> undecided is fine)', 'constraints.py',
     r'known_label_idx, = np\.where\(self\.partial_labels >= 0\)', 'known_label_idx = np.flatnonzero(self.partial_labels >= 0)', ['C07']),
    ('lsml: renamed loop variable', 'lsml.py', r'(?s)for step_size in step_sizes:(.*?)M_best = new_metric',
     lambda m: m.group(0).replace('step_size', 'eta').replace('etas', 'step_sizes'), ['C12']),
    ('scml: renamed accumulator (sidecar invariant binds by name -> undecided is fine)', 'scml.py', r'\bavg_grad_w\b', 'mean_grad', ['C15']),
    ('rca: inverse square root spelled with a reciprocal (term pattern not recognised -> undecided is fine)', 'rca.py',
     r'return \(vecs / np\.sqrt\(vals\)\)\.dot\(vecs\.T\)', 'return (vecs * (1. / np.sqrt(vals))).dot(vecs.T)', ['C09']),
    ('scml: operands of the row scaling swapped', 'scml.py', r'return np\.sqrt\(w\.T\)\*basis', 'return basis * np.sqrt(w.T)', ['C15']),
    ('covariance: explicit default keyword', 'covariance.py', r'M = scipy\.linalg\.pinvh\(M\)', 'M = scipy.linalg.pinvh(M, check_finite=True)', ['C09']),
    ('itml: renamed dual variable (sidecar invariant binds by name -> undecided is fine)', 'itml.py', r'\b_lambda\b', 'lam', ['C11']),
    ('pseudo-inverse: logical_not for ~', '_util.py', r'w\[~large\] = 0', 'w[np.logical_not(large)] = 0', ['C20']),
    ('lmnn: objective difference renamed (at-break clause binds by name -> undecided is fine)', 'lmnn.py', r'\bdelta_obj\b', 'improvement', ['C10']),
    ('sdml: intermediate for the loss matrix', 'sdml.py', r'loss_matrix = \(diff\.T \* y\)\.dot\(diff\)', 'signed = diff.T * y\n    loss_matrix = signed.dot(diff)', ['C13']),
    ('sdml: loss matrix as similar-pair scatter minus dissimilar-pair scatter, in float64 (term not recognised -> undecided is fine)', 'sdml.py',
     r'loss_matrix = \(diff\.T \* y\)\.dot\(diff\)',
     'dpos = diff[y > 0].astype(float)\n    dneg = diff[y < 0].astype(float)\n    loss_matrix = dpos.T.dot(dpos) - dneg.T.dot(dneg)', ['C13']),
    ('nca: private loss method renamed (contract target gone -> undecided is fine)', 'nca.py', r'\b_loss_grad_lbfgs\b', '_objective_and_gradient', ['C10']),
    ('mmc: private solver method renamed (contract target gone -> undecided is fine)', 'mmc.py', r'\b_fit_full\b', '_fit_full_matrix', ['C14']),
    ('components_from_metric: else-less return', '_util.py', r'    return np\.diag\(np\.sqrt\(np\.maximum\(0, np\.diag\(metric\)\)\)\)\r?\n  else:\r?\n    try:',
     '    return np.diag(np.sqrt(np.maximum(0, np.diag(metric))))\n  if True:\n    try:', ['C20']),
]


def main():
  flt = sys.argv[1] if len(sys.argv) > 1 else ''
  bad = 0
  for name, f, pat, rep, props in EDITS:
    if flt not in name:
      continue
    d = tempfile.mkdtemp(prefix='harmless.', dir='/tmp')
    try:
      shutil.copytree('/repo/metric_learn', os.path.join(d, 'metric_learn'))
      p = os.path.join(d, 'metric_learn', f)
      s = open(p, newline='').read()
      n = len(re.findall(pat, s))
      if n == 0:
        print('SKIP  %-70s pattern not found' % name)
        continue
      s2 = re.sub(pat, rep, s, count=0 if name.startswith(('scml: renamed', 'itml: renamed', 'lmnn', 'nca: private', 'mmc: private')) else 1)
      if s2 == s:
        print('SKIP  %-70s edit is a no-op' % name)
        continue
      open(p, 'w', newline='').write(s2)
      r = subprocess.run(['/venv/bin/python', '-c', 'import sys; sys.path.insert(0, %r); import metric_learn' % d], capture_output=True, text=True)
      if r.returncode != 0:
        print('SKIP  %-70s edited tree does not import: %s' % (name, r.stderr.strip().splitlines()[-1] if r.stderr.strip() else ''))
        continue
      for prop in props:
        out = subprocess.run(['/verif/.venv/bin/python', '/verif/check.py', prop], capture_output=True, text=True, env=dict(os.environ, VERIF_REPO=d))
        vio = [l for l in out.stdout.splitlines() if l.startswith('VIOLATION')]
        und = [l for l in out.stdout.splitlines() if l.startswith('UNDECIDED')]
        verdict = 'FALSE-ALARM' if vio else ('undecided' if und else 'held')
        bad += bool(vio)
        print('%-11s %-70s %s exit=%d %s' % (verdict, name, prop, out.returncode, (vio or und or [''])[0][:160]))
    finally:
      shutil.rmtree(d, ignore_errors=True)
  print('false alarms: %d' % bad)
  return 1 if bad else 0


if __name__ == '__main__':
  sys.exit(main())
