#!/bin/bash
# usage: tools/seeded_sweep.sh [parallelism]  -- regression sweep: every filed seeded change is applied to a scratch copy of /repo's metric_learn
# (outside /repo and /verif, removed afterwards) and checked with its own property's quick check; prints one line per change.
P=${1:-4}
cd /verif
one() {
  d=$1; id=$(basename $d); prop=${id%%-*}
  SC=$(mktemp -d /tmp/sweep.XXXXXX); cp -r /repo/metric_learn $SC/metric_learn
  if ! ( cd $SC && patch -p1 -s --binary < $d/patch.diff >/dev/null 2>&1 ); then echo "$id patch-does-not-apply"; rm -rf $SC; return; fi
  out=$(VERIF_REPO=$SC PYTHONHASHSEED=0 timeout 1500 .venv/bin/python check.py $prop 2>&1)
  v=$(echo "$out" | grep -c "^VIOLATION"); u=$(echo "$out" | grep -c "^UNDECIDED")
  first=$(echo "$out" | grep "^VIOLATION" | head -1 | sed 's/.*obligation=//' | cut -c1-110)
  echo "$id violations=$v undecided=$u $first"
  rm -rf $SC
}
export -f one
ls -d /verif/seeded/C??-* | xargs -P $P -I{} bash -c 'one {}'
