"""libspec entries (assumed contracts) for builtins, numpy, scipy and scikit-learn."""
import ast
import z3

from .values import *
from .exec import Unsupported, feasible
from .libspec import Cx, promote, FRESH, is_arr
from . import theory as TH
from . import ttype as TT


def kind_of_scalar(v):
  if isinstance(v, VBool):
    return 'b'
  if isinstance(v, VInt):
    return 'i'
  return 'f'


def scalar_term(cx, v):
  t = cx.ex.num(v)
  if t is None:
    return None
  return z3.ToReal(t) if t.sort() == z3.IntSort() else t


def wrap_scalar(t, kind):
  if kind in ('i', 'b') and t.sort() == z3.IntSort():
    return VInt(t)
  return VReal(t)


def bshape(cx, da, db):
  """numpy broadcasting of two dim lists -> result dims (raises ValueError path when incompatible)"""
  n = max(len(da), len(db))
  da = [None] * (n - len(da)) + list(da)
  db = [None] * (n - len(db)) + list(db)
  out = []
  for x, y in zip(da, db):
    if x is None:
      out.append(y)
    elif y is None:
      out.append(x)
    else:
      xs, ys = z3.simplify(x), z3.simplify(y)
      if xs.eq(ys):
        out.append(x)
      elif z3.is_int_value(xs) and xs.as_long() == 1:
        out.append(y)
      elif z3.is_int_value(ys) and ys.as_long() == 1:
        out.append(x)
      else:
        cx.may_raise('ValueError', z3.And(x != y, x != 1, y != 1), 'operands could not be broadcast')
        out.append(z3.If(x == 1, y, x))
  return out


class NP:
  def __init__(self, lib):
    self.lib = lib

  # ------------------------------------------------------------------------------------ attributes
  def getattr_(self, cx, base, attr):
    p = cx.p
    if isinstance(base, VArr):
      st = cx.st(base)
      if attr == 'ndim':
        return [(p, VInt(st.shape.ndim()))]
      if attr == 'shape':
        if st.shape.concrete:
          return [(p, VTuple([VInt(d) for d in st.shape.dims]))]
        return [(p, VShapeOf(base))]
      if attr == 'size':
        return [(p, VInt(st.shape.size()))]
      if attr == 'T':
        return [(p, self.transpose(cx, base))]
      if attr == 'dtype':
        d_ = VOpaque('dtype:' + st.kind)
        d_.of_term = st.term            # np.finfo(w.dtype).eps is the machine epsilon OF THAT ARRAY's precision
        return [(p, d_)]
      if attr == 'real':
        return [(p, cx.new(st.term if st.kind != 'c' else None, st.shape.dims, 'f' if st.kind == 'c' else st.kind,
                           st.owner, base=(base.loc, st.version)))]
      return [(p, VBoundExt(base, attr))]
    if isinstance(base, VShapeOf):
      raise Unsupported('attribute of symbolic shape')
    if isinstance(base, (VReal, VInt)) and attr in ('real',):
      return [(p, base)]
    if isinstance(base, VRef):
      return [(p, VBoundExt(base, attr))]
    from .libspec_shape import VExtObj
    if isinstance(base, VExtObj):
      h = self.lib.extobj_attrs.get((base.kind, attr))
      if h is not None:
        return [(p, h(cx, base))]
      return [(p, VBoundExt(base, attr))]
    if isinstance(base, VSuper):
      mro = cx.ex.prog.classes[base.obj.cls].mro
      after = mro[mro.index(base.cls) + 1:]
      for c in after:
        if c in cx.ex.prog.classes and attr in cx.ex.prog.classes[c].methods:
          return [(p, VFunc(cx.ex.prog.classes[c].methods[attr], cx.ex.prog.classes[c].module, bound=base.obj, owner=c))]
      if attr == '__init__':
        return [(p, VExt(object.__init__, 'object.__init__'))]     # BaseEstimator & co define no __init__
      raise Unsupported('super().%s not found' % attr)
    return None

  def transpose(self, cx, a):
    st = cx.st(a)
    if not st.shape.concrete:
      raise Unsupported('.T on symbolic-rank array')
    dims = list(reversed(st.shape.dims))
    term = TH.tr(st.term) if st.shape.rank == 2 else (st.term if st.shape.rank <= 1 else None)
    return cx.new(term, dims, st.kind, st.owner, base=(a.loc, st.version), vf=st.vf, tt=st.tt)

  # ------------------------------------------------------------------------------------- subscripts
  def getitem(self, cx, base, idx):
    p = cx.p
    if isinstance(base, VShapeOf):
      st = cx.st(base.arr)
      if isinstance(idx, VInt):
        inb = z3.And(idx.t >= -st.shape.ndim(), idx.t < st.shape.ndim())
        bad = p.fork()
        bad.assume(z3.Not(inb))
        if feasible(bad.pc):
          cx.ex.raise_(bad, 'IndexError', 'tuple index out of range at line %s' % cx.line())
        p.assume(inb)
        if not feasible(p.pc):
          return []
        i = z3.If(idx.t < 0, idx.t + st.shape.ndim(), idx.t)
        return [(p, VInt(st.shape.dim(z3.simplify(i))))]
      raise Unsupported('slice of symbolic shape')
    if not isinstance(base, VArr):
      return None
    st = cx.st(base)
    if not st.shape.concrete:
      from .contracts import refine_rank
      refine_rank(p, base)
      st = cx.st(base)
    if not st.shape.concrete:
      raise Unsupported('indexing a symbolic-rank array (line %s)' % cx.line())
    items = idx.items if isinstance(idx, VTuple) else [idx]
    return self.index(cx, base, st, items)

  def index(self, cx, base, st, items):
    """general numpy indexing at the shape level; value terms for the recognised patterns"""
    p = cx.p
    dims = list(st.shape.dims)
    rank = len(dims)
    # expand ellipsis
    def consumed(it):
      if isinstance(it, VNone) or (isinstance(it, VOpaque) and it.what == '...'):
        return 0
      if isinstance(it, VArr) and cx.st(it).kind == 'b' and cx.st(it).shape.concrete:
        return max(1, cx.st(it).shape.rank)        # a boolean mask consumes as many axes as it has
      return 1
    n_real = sum(consumed(it) for it in items)
    if any(isinstance(it, VOpaque) and it.what == '...' for it in items):
      k = [i for i, it in enumerate(items) if isinstance(it, VOpaque) and it.what == '...'][0]
      items = items[:k] + [VSlice(None, None, None)] * (rank - n_real) + items[k + 1:]
      n_real = sum(consumed(it) for it in items)
    if n_real > rank:
      cx.ex.raise_(p, 'IndexError', 'too many indices at line %s' % cx.line())
      return []
    items = list(items) + [VSlice(None, None, None)] * (rank - n_real)
    out_dims = []
    adv_dims = None
    adv_pos = None
    axis = 0
    is_view = True
    pattern = []
    for it in items:
      if isinstance(it, VNone):
        out_dims.append(z3.IntVal(1))
        pattern.append(('new',))
        continue
      if axis >= len(dims):
        raise Unsupported('index with more items than axes (line %s)' % cx.line())
      d = dims[axis]
      if isinstance(it, VInt):
        inb = z3.And(it.t >= -d, it.t < d)
        bad = p.fork()
        bad.assume(z3.Not(inb))
        if feasible(bad.pc):
          cx.ex.raise_(bad, 'IndexError', 'index out of bounds at line %s' % cx.line())
        p.assume(inb)
        pattern.append(('int', it.t, axis))
      elif isinstance(it, VSlice):
        full = it.lo is None and it.hi is None and it.step is None
        if full:
          out_dims.append(d)
          pattern.append(('all', axis))
        else:
          out_dims.append(self.slice_len(cx, it, d))
          pattern.append(('slice', it, axis))
      elif isinstance(it, VListRef):
        is_view = False
        if adv_dims is None:
          adv_dims, adv_pos = [p.lists[it.lid]['n']], len(out_dims)
        pattern.append(('symlist', it, axis))
      elif isinstance(it, VList):
        # list of ints: advanced index
        is_view = False
        n = len(it.items)
        if adv_dims is None:
          adv_dims, adv_pos = [z3.IntVal(n)], len(out_dims)
        pattern.append(('list', it, axis))
      elif isinstance(it, VArr):
        is_view = False
        ist = cx.st(it)
        if ist.kind == 'b':
          # boolean mask over ist.rank axes
          # the number of selected entries is a function of the mask: the same mask selects the same count
          cache = p.heap.setdefault('__maskcount__', {})
          ckey = (it.loc, ist.version)
          tot = ist.shape.size()
          if ckey in cache:
            cnt = cache[ckey]
          else:
            cnt = fresh('nsel', z3.IntSort())
            cache[ckey] = cnt
            p.assume(cnt >= 0)
            p.assume(cnt <= tot)
          if ist.tag and ist.tag[0] == 'min-count':
            p.assume(cnt >= ist.tag[1])
          if adv_dims is None:
            adv_dims, adv_pos = [cnt], len(out_dims)
          pattern.append(('mask', it, axis))
          axis += ist.shape.rank - 1
        else:
          if adv_dims is None:
            adv_dims, adv_pos = list(ist.shape.dims), len(out_dims)
          else:
            adv_dims = bshape(cx, adv_dims, list(ist.shape.dims))
          pattern.append(('arr', it, axis))
          cx.frame_obligation(it, d, 'fancy index on axis %d' % axis)
      else:
        raise Unsupported('index item %r (line %s)' % (it, cx.line()))
      axis += 1
    if adv_dims is not None:
      out_dims = out_dims[:adv_pos] + adv_dims + out_dims[adv_pos:]
    if not feasible(p.pc):
      return []
    term = self.index_term(cx, st, pattern, out_dims)
    if not out_dims:
      # scalar
      if term is None:
        term = fresh('elem', z3.RealSort() if st.kind in ('f', 'c') else z3.IntSort())
      if st.kind == 'b':
        return [(p, VBool(term if term.sort() == z3.BoolSort() else term != 0))]
      sc = wrap_scalar(term, st.kind)
      sc.tt = self._index_tt(cx, st, items)
      if st.vf is not None:
        sc.vf = st.vf
      if st.tag and st.tag[0] == 'range' and isinstance(sc, VInt):
        p.assume(sc.t >= st.tag[1])
        p.assume(sc.t < st.tag[2])
      return [(p, sc)]
    owner = st.owner if is_view else FRESH
    v = cx.new(term, out_dims, st.kind, owner, base=(base.loc, st.version) if is_view else None, vf=st.vf, tt=self._index_tt(cx, st, items))
    arrs = [x for x in pattern if x[0] == 'arr']
    if len(arrs) == 1 and arrs[0][2] == 0 and all(x[0] in ('arr', 'all') for x in pattern):
      # ghost provenance: result = base[idx]  (used by the call-structure refinement clauses of C08)
      p.store[v.loc] = p.store[v.loc].replace(tag=('gather', base.loc, arrs[0][1].loc))
    return [(p, v)]

  def _index_tt(self, cx, st, items):
    """indexing keeps the translation type of the indexed array as long as the indices themselves are translation invariant"""
    base_t = st.tt or TT.INV
    idx_ts = [TT.tt_of(cx.p, it) for it in items if isinstance(it, (VArr, VInt, VList, VTuple))]
    return base_t if all(t == TT.INV for t in idx_ts) else TT.BAD

  def slice_len(self, cx, sl, d):
    p = cx.p
    lo = sl.lo.t if sl.lo is not None else None
    hi = sl.hi.t if sl.hi is not None else None
    if sl.step is not None:
      stp = sl.step.conc()
      if stp == -1 and lo is None and hi is None:
        return d
      if stp != 1:
        raise Unsupported('slice step (line %s)' % cx.line())
    def norm(t):
      t = z3.If(t < 0, t + d, t)
      return z3.If(t < 0, 0, z3.If(t > d, d, t))
    a = norm(lo) if lo is not None else z3.IntVal(0)
    b = norm(hi) if hi is not None else d
    return z3.simplify(z3.If(b - a < 0, 0, b - a))

  def index_term(self, cx, st, pattern, out_dims):
    """value terms for: a[i] (row / element), a[:, j] and a[:, j, :] (take1), a[i, j]"""
    if st.term is None:
      return None
    kinds = [x[0] for x in pattern]
    r = st.shape.rank
    elem_sort_real = st.kind in ('f', 'c')
    if len(kinds) >= 2 and kinds[0] == 'all' and kinds[1] == 'new' and all(k == 'all' for k in kinds[2:]):
      return TH.addaxis1(st.term)
    if kinds == ['new', 'all'] and r == 1:
      return TH.addaxis0(st.term)
    if kinds[0] == 'int' and all(k == 'all' for k in kinds[1:]):
      i = self.nonneg_index(cx, pattern[0][1], st.shape.dims[0])
      if r == 1:
        if not elem_sort_real:
          cx.p.assume(z3.IsInt(TH.at1(st.term, i)))         # an integer array holds integers
        return TH.at1(st.term, i) if elem_sort_real else z3.ToInt(TH.at1(st.term, i))
      return TH.row(st.term, i)
    if r >= 2 and kinds[0] == 'all' and kinds[1] == 'int' and all(k == 'all' for k in kinds[2:]):
      return TH.take1(st.term, pattern[1][1])
    if r == 1 and kinds == ['slice']:
      sl = pattern[0][1]
      if sl.lo is None and sl.step is None and sl.hi is not None and isinstance(sl.hi, VInt):
        return TH.slice0(st.term, sl.hi.t)                 # a[:n]
    if r == 1 and kinds == ['arr']:
      ist = cx.st(pattern[0][1])
      if ist.term is not None and ist.kind == 'i' and ist.shape.concrete:
        if ist.shape.rank == 1:
          return TH.takev(st.term, ist.term)               # b[I], I one-dimensional
        if ist.shape.rank == 2:
          return TH.itake(st.term, ist.term)               # b[I], I two-dimensional
    if r == 2 and kinds == ['int', 'int']:
      return TH.at2(st.term, pattern[0][1], pattern[1][1]) if elem_sort_real else None
    if r == 3 and kinds[0] == 'all' and kinds[1] in ('slice', 'list') and kinds[2] == 'all':
      cols = self.concrete_cols(cx, pattern[1], st.shape.dims[1])
      if cols is not None and len(cols) == 2:
        return TH.cols2(st.term, z3.IntVal(cols[0]), z3.IntVal(cols[1]))
    return None

  def concrete_cols(self, cx, pat, d):
    if pat[0] == 'list':
      cs = [x.conc() if isinstance(x, VInt) else None for x in pat[1].items]
      return None if any(c is None for c in cs) else cs
    sl = pat[1]
    dn = cx.conc(d)
    if dn is None:
      return None
    lo = sl.lo.conc() if sl.lo is not None else None
    hi = sl.hi.conc() if sl.hi is not None else None
    if (sl.lo is not None and lo is None) or (sl.hi is not None and hi is None):
      return None
    return list(range(dn))[slice(lo, hi)]

  def nonneg_index(self, cx, i, d0):
    """python index -> position: i itself when the path condition gives i >= 0 (keeps terms free of if-then-else)"""
    si = z3.simplify(i)
    if z3.is_int_value(si):
      return si if si.as_long() >= 0 else z3.simplify(si + d0)
    sv = z3.Solver()
    sv.set(timeout=1000)
    sv.add(*[c for c in cx.p.pc if not z3.is_quantifier(c) and not (z3.is_and(c) and any(z3.is_quantifier(x) for x in c.children()))])
    sv.add(i < 0)
    if sv.check() == z3.unsat:
      return i
    return z3.simplify(z3.If(i < 0, i + d0, i))

  def setitem(self, cx, base, idx, v, augmented=False):
    p = cx.p
    if not isinstance(base, VArr):
      raise Unsupported('item assignment on %r (line %s)' % (base, cx.line()))
    st = cx.st(base)
    value = None
    if st.shape.concrete and st.term is not None:
      sv = scalar_term(cx, v) if isinstance(v, (VInt, VReal, VBool)) else None
      if st.shape.rank == 1 and isinstance(idx, VInt) and sv is not None:
        i = self.nonneg_index(cx, idx.t, st.shape.dims[0])
        if not (z3.is_const(sv) or z3.is_rational_value(sv)):
          nm = fresh('stored', z3.RealSort())               # name the stored value: terms used in e-matching patterns
          p.assume(nm == sv)                                # must not contain if-then-else
          sv = nm
        if not z3.is_const(i) and not z3.is_int_value(i):
          ni = fresh('pos', z3.IntSort())
          p.assume(ni == i)
          i = ni
        value = TH.upd1(st.term, i, sv)                     # a[i] = s
      elif isinstance(idx, VArr) and cx.st(idx).kind == 'b' and sv is not None and st.shape.rank == 1 and cx.st(idx).term is not None:
        mt = cx.st(idx).term
        if z3.is_app(mt) and mt.decl().name() == 'cmp_eq_s' and mt.arg(0).eq(st.term):
          value = TH.setwhere_eq(st.term, mt.arg(1), sv)    # a[a == c] = s
        else:
          value = TH.setmask(st.term, mt, sv)               # a[mask] = s
      elif isinstance(idx, VSlice) and idx.lo is None and idx.hi is None and idx.step is None and isinstance(v, VArr):
        vs = cx.st(v)
        if vs.term is not None and vs.shape.concrete and vs.shape.rank == st.shape.rank:
          value = vs.term                                   # a[:] = b  (same shape: numpy raises otherwise)
    self.write(cx, base, 'item assignment', value=value)
    whole = isinstance(idx, VSlice) and idx.lo is None and idx.hi is None and idx.step is None
    newt = TT.tt_of(p, v) if whole else TT.same([st.tt or TT.INV, TT.tt_of(p, v)])
    if not all(TT.tt_of(p, it) == TT.INV for it in (idx.items if isinstance(idx, VTuple) else [idx]) if isinstance(it, (VArr, VInt))):
      newt = TT.BAD
    p.store[base.loc] = p.store[base.loc].replace(tt=newt)
    if st.kind in ('i', 'b') and isinstance(v, (VArr, VInt)):
      f = cx.vf_of(v)
      cur = cx.st(base)
      if f is not None and (cur.vf is None or not getattr(cur, '_vf_fixed', False)):
        newf = f if cur.vf is None or cur.tag == ('vf-empty',) else cx.join_vf([base, v])
        p.store[base.loc] = cur.replace(vf=newf)
    return [p]

  def write(self, cx, a, what, value=None):
    """in-place write into array a: ownership side obligation + value update"""
    p = cx.p
    st = cx.st(a)
    site = 'L%s' % cx.line()
    p.side.append(('own', 'inplace-write-owned:%s' % site, list(p.pc), z3.BoolVal(len(st.owner) == 0),
                   '%s into an array that may share memory with %s' % (what, sorted(st.owner)) if st.owner else what + ' into an owned array'))
    p.events.append(('write', site, tuple(sorted(st.owner))))
    newterm = value if value is not None else fresh('w', T)
    p.store[a.loc] = st.replace(term=newterm, version=st.version + 1)
    # a write through a view clobbers the base as well
    b = st.base
    while b is not None and b[0] in p.store:
      bst = p.store[b[0]]
      p.store[b[0]] = bst.replace(term=fresh('w', T), version=bst.version + 1)
      b = bst.base

  def inplace(self, cx, op, cur, r):
    p = cx.p
    st = cx.st(cur)
    res = self.binop(cx, op, cur, r)
    out = []
    for q, v in res:
      c2 = Cx(cx.lib, cx.ex, q, cx.node, cx.module, cx.name)
      val = q.store[v.loc].term if isinstance(v, VArr) else None
      if isinstance(v, VArr):
        # result must have the shape of the target (numpy raises otherwise)
        vs = q.store[v.loc].shape
        if vs.rank != st.shape.rank:
          raise Unsupported('in-place op changes rank (line %s)' % cx.line())
        if KIND(q.store[v.loc].kind) > KIND(st.kind) and st.kind in ('i', 'b'):
          c2.may_raise('TypeError', None, 'in-place op cannot cast to integer array')
      self.write(c2, cur, 'augmented assignment', value=val)
      q.store[cur.loc] = q.store[cur.loc].replace(tt=TT.tt_of(q, v))
      out.append(q)
    return out

  # ---------------------------------------------------------------------------------------- operators
  def operand(self, cx, v):
    """-> (term or None, dims, kind, scalar_z3 or None)"""
    if isinstance(v, (VStr, VNone)):
      return None, [], 'O', None          # comparison of an array with a string / None: elementwise, all False
    if isinstance(v, VArr):
      st = cx.st(v)
      if not st.shape.concrete:
        from .contracts import refine_rank
        refine_rank(cx.p, v)
        st = cx.st(v)
      if not st.shape.concrete:
        raise Unsupported('arithmetic on symbolic-rank array')
      return st.term, list(st.shape.dims), st.kind, None
    t = scalar_term(cx, v)
    if t is None:
      if isinstance(v, VInf):
        return None, [], 'f', None
      raise Unsupported('array arithmetic with %r' % (v,))
    return None, [], kind_of_scalar(v), t

  def binop(self, cx, op, l, r):
    p = cx.p
    lt, ld, lk, ls = self.operand(cx, l)
    rt, rd, rk, rs = self.operand(cx, r)
    if isinstance(op, ast.MatMult):
      return [(p, self.dot(cx, l, r))]
    dims = bshape(cx, ld, rd)
    kind = promote(lk, rk)
    if isinstance(op, ast.Div):
      kind = promote(kind, 'f')
    term = None
    same = len(ld) == len(rd) and all(z3.simplify(x).eq(z3.simplify(y)) for x, y in zip(ld, rd))
    if not same and len(ld) == len(rd) and ld and lt is not None and rt is not None:
      sv = z3.Solver()
      sv.set(timeout=800)
      sv.add(*p.pc)
      sv.add(z3.Or(*[x != y for x, y in zip(ld, rd)]))
      same = sv.check() == z3.unsat
    if lt is not None and rt is not None and same:
      if isinstance(op, ast.Sub):
        term = TH.sub(lt, rt)
      elif isinstance(op, ast.Add):
        term = TH.add(lt, rt)
      elif isinstance(op, ast.Mult):
        term = TH.sq(lt) if lt.eq(rt) else TH.mul(lt, rt)        # x * x is x ** 2 (one normal form for the two spellings)
    elif ls is not None and rt is not None:
      if isinstance(op, ast.Div):
        term = TH.sdivl(ls, rt)
      elif isinstance(op, ast.Add):
        term = TH.sadd(rt, ls)
      if isinstance(op, ast.Mult):
        term = TH.neg(rt) if z3.simplify(ls == -1) is True or z3.is_true(z3.simplify(ls == -1)) else TH.smul(ls, rt)
    elif lt is not None and rs is not None:
      if isinstance(op, ast.Mult):
        term = TH.neg(lt) if z3.is_true(z3.simplify(rs == -1)) else TH.smul(rs, lt)
      elif isinstance(op, ast.Pow) and z3.is_true(z3.simplify(rs == 2)):
        term = TH.sq(lt)
      elif isinstance(op, ast.Sub):
        term = TH.ssub(lt, rs)
      elif isinstance(op, ast.Add):
        term = TH.sadd(lt, rs)
      elif isinstance(op, ast.Div):
        term = TH.sdivr(lt, rs)
    if term is None and isinstance(op, ast.Mult) and lt is not None and rt is not None:
      if len(ld) == 2 and len(rd) == 1 and self._eq(cx, ld[1], rd[0]):
        term = TH.colscale(lt, rt)
      elif len(ld) == 2 and len(rd) == 2 and self._eq(cx, ld[1], rd[1]) and self._eq(cx, rd[0], z3.IntVal(1)):
        term = TH.colscale2(lt, rt)
      elif len(ld) == 2 and len(rd) == 2 and self._eq(cx, ld[0], rd[0]) and self._eq(cx, rd[1], z3.IntVal(1)):
        term = TH.rowscale(lt, rt)
      elif len(ld) == 2 and len(rd) == 2 and self._eq(cx, ld[0], rd[0]) and self._eq(cx, ld[1], z3.IntVal(1)):
        term = TH.rowscale(rt, lt)                          # (n, 1) * (n, d): the same row scaling, operands the other way round
    if term is None and isinstance(op, ast.Div) and lt is not None and rt is not None:
      if len(ld) == 2 and len(rd) == 1 and self._eq(cx, ld[1], rd[0]):
        term = TH.coldiv(lt, rt)
    if term is None:
      cx.note('value of array %s not modelled' % type(op).__name__)
    opn = 'sub' if isinstance(op, ast.Sub) else 'add' if isinstance(op, ast.Add) else 'other'
    return [(p, cx.new(term, dims, kind, tt=TT.arith(opn, TT.tt_of(p, l), TT.tt_of(p, r))))]

  def _eq(self, cx, x, y):
    if z3.simplify(x).eq(z3.simplify(y)):
      return True
    sv = z3.Solver()
    sv.set(timeout=500)
    sv.add(*[c for c in cx.p.pc if not z3.is_quantifier(c)])
    sv.add(x != y)
    return sv.check() == z3.unsat

  def unop(self, cx, op, v):
    st = cx.st(v)
    t_ = TT.INV if TT.tt_of(cx.p, v) == TT.INV else TT.BAD
    if op == '-':
      return cx.new(TH.neg(st.term) if st.term is not None else None, st.shape.dims, st.kind, tt=t_)
    if op == '~':
      return cx.new(TH.notT(st.term) if st.term is not None else None, st.shape.dims, 'b', tt=t_)
    raise Unsupported('unary ' + op)

  def compare(self, cx, op, l, r):
    lt, ld, lk, ls = self.operand(cx, l)
    rt, rd, rk, rs = self.operand(cx, r)
    dims = bshape(cx, ld, rd)
    term = None
    name = {ast.Lt: 'lt', ast.LtE: 'le', ast.Gt: 'gt', ast.GtE: 'ge', ast.Eq: 'eq', ast.NotEq: 'ne'}[type(op)]
    if lt is not None and rs is not None:
      term = TH.cmps(name)(lt, rs)
    elif ls is not None and rt is not None:
      flip = {'lt': 'gt', 'le': 'ge', 'gt': 'lt', 'ge': 'le', 'eq': 'eq', 'ne': 'ne'}[name]
      term = TH.cmps(flip)(rt, ls)
    elif lt is not None and rt is not None:
      term = TH.cmpa(name)(lt, rt)
    res = cx.new(term, dims, 'b', tt=TT.arith('cmp', TT.tt_of(cx.p, l), TT.tt_of(cx.p, r)))
    if name == 'eq' and isinstance(l, VArr) and rs is not None and cx.st(l).tag and cx.st(l).tag[0] == 'uniq-inv':
      m = cx.st(l).tag[1]
      c = z3.ToInt(rs) if rs.sort() == z3.RealSort() else rs
      cx.p.store[res.loc] = cx.p.store[res.loc].replace(tag=('min-count', z3.If(z3.And(c >= 0, c < m), 1, 0)))
    return res

  def contains(self, cx, container, item):
    return None

  def arr_truth(self, cx, v):
    st = cx.st(v)
    if st.shape.concrete and st.shape.rank == 0:
      return fresh('truth', z3.BoolSort())
    if st.shape.concrete:
      # numpy: ValueError for more than one element (DeprecationWarning / error for zero elements)
      bad = cx.p.fork()
      bad.assume(st.shape.size() != 1)
      if feasible(bad.pc):
        cx.ex.raise_(bad, 'ValueError', 'the truth value of an array with more than one element is ambiguous (line %s)' % cx.line())
      cx.p.assume(st.shape.size() == 1)
      return fresh('truth', z3.BoolSort())
    raise Unsupported('truth value of an array (line %s)' % cx.line())

  def unpack(self, cx, v, n):
    st = cx.st(v)
    if not st.shape.concrete or st.shape.rank < 1:
      raise Unsupported('unpacking a 0-d / symbolic array')
    d0 = st.shape.dims[0]
    if n is None:
      n = cx.conc(d0)
      if n is None:
        raise Unsupported('star-unpacking an array of symbolic length (line %s)' % cx.line())
    else:
      bad = cx.p.fork()
      bad.assume(d0 != n)
      if feasible(bad.pc):
        cx.ex.raise_(bad, 'ValueError', 'unpack of array first axis (line %s)' % cx.line())
      cx.p.assume(d0 == n)
    out = []
    for i in range(n):
      (q, x), = self.index(cx, v, st, [VInt(i)])
      out.append(x)
    return out

  # ------------------------------------------------------------------------------------------- dot
  def dot(self, cx, a, b):
    p = cx.p
    if not is_arr(a) or not is_arr(b):
      raise Unsupported('dot with scalar operand')
    sa, sb = cx.st(a), cx.st(b)
    ra, rb = sa.shape.rank, sb.shape.rank
    kind = promote(sa.kind, sb.kind)
    ta, tb = sa.term, sb.term
    has = ta is not None and tb is not None
    if (ra, rb) == (2, 2):
      cx.may_raise('ValueError', sa.shape.dims[1] != sb.shape.dims[0], 'shapes not aligned')
      return cx.new(TH.mm(ta, tb) if has else None, [sa.shape.dims[0], sb.shape.dims[1]], kind)
    if (ra, rb) == (2, 1):
      cx.may_raise('ValueError', sa.shape.dims[1] != sb.shape.dims[0], 'shapes not aligned')
      return cx.new(TH.mv(ta, tb) if has else None, [sa.shape.dims[0]], kind)
    if (ra, rb) == (1, 2):
      cx.may_raise('ValueError', sa.shape.dims[0] != sb.shape.dims[0], 'shapes not aligned')
      return cx.new(TH.vm(ta, tb) if has else None, [sb.shape.dims[1]], kind)
    if (ra, rb) == (1, 1):
      cx.may_raise('ValueError', sa.shape.dims[0] != sb.shape.dims[0], 'shapes not aligned')
      return VReal(TH.dot(ta, tb)) if has else VReal(fresh('dot', z3.RealSort()))
    if ra >= 2 and rb == 2:
      cx.may_raise('ValueError', sa.shape.dims[-1] != sb.shape.dims[0], 'shapes not aligned')
      return cx.new(None, list(sa.shape.dims[:-1]) + [sb.shape.dims[1]], kind)
    raise Unsupported('dot of ranks %d,%d (line %s)' % (ra, rb, cx.line()))


KIND = lambda k: {'b': 0, 'i': 1, 'f': 2, 'c': 3, 'O': 4}[k]


class VShapeOf(V):
  """`.shape` of a symbolic-rank array"""
  def __init__(self, arr):
    self.arr = arr


def install(lib):
  np_ = NP(lib)
  lib.np = np_
  import numpy as np
  import builtins
  import warnings as _w
  ext, method = lib.ext, lib.method
  lib.generic_methods = {}
  lib.opaque_methods = {}

  # ----------------------------------------------------------------------------------------- builtins
  @ext('builtins.isinstance', 'python isinstance on the static python type of the symbolic value')
  def _isinstance(cx, v, t):
    types = t.items if isinstance(t, VTuple) else [t]
    names = set()
    for x in types:
      if isinstance(x, VExt):
        names.add(getattr(x.obj, '__name__', str(x.obj)))
      elif isinstance(x, VClass):
        names.add(x.name)
      else:
        raise Unsupported('isinstance against %r' % (x,))
    pyt = {VInt: {'int'}, VReal: {'float'}, VBool: {'bool', 'int'}, VStr: {'str'}, VNone: set(), VArr: {'ndarray'},
           VTuple: {'tuple'}, VList: {'list'}, VDict: {'dict'}, VInf: {'float'}}
    for k, tn in pyt.items():
      if isinstance(v, k):
        return VBool(bool(tn & names))
    if isinstance(v, VObj):
      return VBool(any(n in cx.ex.prog.classes[v.cls].mro for n in names))
    if isinstance(v, VOpaque):
      return VBool(fresh('isinstance', z3.BoolSort()))
    if isinstance(v, VRef):
      if v.types is not None:
        # the contract states the python type set of this opaque value
        if v.types & names:
          if v.types <= names or (('bool' in v.types) and 'int' in names and v.types <= names | {'bool'}):
            return VBool(True)
          return VBool(z3.Function('isinst_' + '_'.join(sorted(names)), Ref, z3.BoolSort())(v.t))
        return VBool(False)
      return VBool(z3.Function('isinst_' + '_'.join(sorted(names)), Ref, z3.BoolSort())(v.t))
    raise Unsupported('isinstance of %r' % (v,))

  @ext('builtins.len')
  def _len(cx, v):
    if isinstance(v, (VTuple, VList)):
      return VInt(len(v.items))
    if isinstance(v, VDict):
      return VInt(len(v.d))
    if isinstance(v, VStr):
      return VInt(len(v.s))
    if isinstance(v, VArr):
      st = cx.st(v)
      if st.shape.concrete and st.shape.rank >= 1:
        return VInt(st.shape.dims[0])
      raise Unsupported('len of 0-d / symbolic-rank array')
    if isinstance(v, VSet):
      return VInt(v.card)
    if isinstance(v, VListRef):
      return VInt(cx.p.lists[v.lid]['n'])
    raise Unsupported('len of %r' % (v,))

  def _minmax(name):
    def h(cx, *args):
      if len(args) == 1 and isinstance(args[0], (VTuple, VList)):
        args = args[0].items
      ts = [cx.ex.num(a) for a in args]
      if any(t is None for t in ts):
        raise Unsupported('%s of %r' % (name, args))
      if len({t.sort().name() for t in ts}) > 1:
        ts = [z3.ToReal(t) if t.sort() == z3.IntSort() else t for t in ts]
      acc = ts[0]
      for t in ts[1:]:
        acc = z3.If(t < acc, t, acc) if name == 'min' else z3.If(t > acc, t, acc)
      return cx.ex.wrapnum(acc)
    return h
  ext('builtins.min')(_minmax('min'))
  ext('builtins.max')(_minmax('max'))

  @ext('builtins.abs')
  def _abs(cx, v):
    if isinstance(v, VArr):
      return np_abs(cx, v)
    t = cx.ex.num(v)
    return cx.ex.wrapnum(z3.If(t < 0, -t, t))

  @ext('builtins.int')
  def _int(cx, v):
    if isinstance(v, VInt):
      return v
    if isinstance(v, VBool):
      return VInt(cx.ex.num(v))
    if isinstance(v, VReal):
      return VInt(z3.ToInt(v.t))      # exact for the integral-valued reals it is applied to (np.sum of ints, np.ceil)
    raise Unsupported('int(%r)' % (v,))

  @ext('builtins.bool')
  def _bool(cx, v=None):
    if v is None:
      return VBool(False)
    return VBool(cx.ex.truth(v, cx.p))

  @ext('builtins.float', 'float(x): x for numbers; TypeError for None/sequences; ValueError for unparsable strings')
  def _float(cx, v):
    if isinstance(v, (VInt, VBool)):
      return VReal(z3.ToReal(cx.ex.num(v)))
    if isinstance(v, VReal) or isinstance(v, VInf):
      return v
    if isinstance(v, VNone) or isinstance(v, (VTuple, VList, VDict)):
      cx.ex.raise_(cx.p, 'TypeError', 'float() of non-number')
      return []
    if isinstance(v, VStr):
      try:
        return VReal(float(v.s))
      except ValueError:
        cx.ex.raise_(cx.p, 'ValueError', 'float() of string')
        return []
    if isinstance(v, VRef):
      # opaque object: float() may succeed (number-like), raise TypeError or ValueError
      cx.may_raise('TypeError', z3.Function('float_typeerror', Ref, z3.BoolSort())(v.t))
      cx.may_raise('ValueError', z3.Function('float_valueerror', Ref, z3.BoolSort())(v.t))
      return VReal(z3.Function('float_of', Ref, z3.RealSort())(v.t))
    if isinstance(v, VArr):
      return VReal(fresh('float', z3.RealSort()))
    raise Unsupported('float(%r)' % (v,))

  @ext('builtins.str')
  def _str(cx, *a):
    if len(a) == 1 and isinstance(a[0], VInt) and a[0].conc() is not None:
      return VStr(str(a[0].conc()))
    if len(a) == 1 and isinstance(a[0], VStr):
      return a[0]
    return VOpaque('msg')

  @ext('builtins.repr')
  def _repr(cx, *a):
    return VOpaque('msg')

  @ext('builtins.type')
  def _type(cx, v):
    return VOpaque('type')

  @ext('builtins.print')
  def _print(cx, *a, **k):
    return VNone()

  @ext('builtins.dict')
  def _dict(cx, *a, **k):
    if a:
      raise Unsupported('dict(positional)')
    return VDict(k)

  @ext('builtins.callable')
  def _callable(cx, v):
    if isinstance(v, (VFunc, VExt, VClass)):
      return VBool(True)
    if isinstance(v, VRef) and v.types is not None:
      return VBool('callable' in v.types)
    if isinstance(v, VRef):
      return VBool(z3.Function('is_callable', Ref, z3.BoolSort())(v.t))
    if isinstance(v, VObj):
      owner, fn = cx.ex.prog.resolve_method(v.cls, '__call__')
      return VBool(fn is not None)
    return VBool(False)

  @ext('builtins.getattr')
  def _getattr(cx, o, name, *default):
    if not isinstance(name, VStr):
      raise Unsupported('getattr with symbolic name')
    if isinstance(o, VObj):
      h = cx.p.heap[o.oid]
      if name.s in h:
        return h[name.s]
      owner, valnode = cx.ex.prog.class_attr(o.cls, name.s)
      if valnode is not None:
        (q, v), = cx.ex.ev(valnode, cx.p, cx.ex.prog.classes[owner].module)
        return v
      owner, fn = cx.ex.prog.resolve_method(o.cls, name.s)
      if fn is not None:
        return VFunc(fn, cx.ex.prog.classes[owner].module, bound=o, owner=owner)
      if default:
        return default[0]
      cx.ex.raise_(cx.p, 'AttributeError', 'getattr')
      return []
    raise Unsupported('getattr on %r' % (o,))

  @ext('builtins.hasattr')
  def _hasattr(cx, o, name):
    if isinstance(o, VObj) and isinstance(name, VStr):
      h = cx.p.heap[o.oid]
      if name.s in h:
        return VBool(True)
      if name.s in h.get('__absent__', ()) or h.get('__closed__'):
        return VBool(False)
      if name.s in h.get('__maybe__', {}):
        return VBool(h['__maybe__'][name.s])
      raise Unsupported('hasattr(%s, %s): presence not declared by the contract' % (o.cls, name.s))
    raise Unsupported('hasattr on %r' % (o,))

  @ext('builtins.vars')
  def _vars(cx, o):
    if isinstance(o, VObj):
      return VVarsOf(o)
    raise Unsupported('vars')

  @ext('builtins.any')
  def _any(cx, v):
    if isinstance(v, VArr):
      st = cx.st(v)
      return VBool(TH.anyT(st.term) if st.term is not None else fresh('any', z3.BoolSort()))
    raise Unsupported('any(%r)' % (v,))

  @ext('builtins.super')
  def _super(cx, cls=None, obj=None):
    if cls is None:
      raise Unsupported('zero-argument super()')
    return VSuper(cls.name, obj)

  @ext('object.__init__')
  def _objinit(cx, *a, **k):
    return VNone()

  @ext('builtins.range')
  def _range(cx, *a):
    return VRange(*a)

  @ext('builtins.enumerate')
  def _enum(cx, v):
    return VEnumerate(v)

  @ext('builtins.zip')
  def _zip(cx, *a):
    return VZip(list(a))

  @ext('builtins.reversed')
  def _rev(cx, v):
    return VReversed(v)

  @ext('builtins.list')
  def _list(cx, *a):
    if not a:
      return VList([])
    v = a[0]
    if isinstance(v, (VList, VTuple)):
      return VList(list(v.items))
    if isinstance(v, VListRef):
      return v
    return VOpaque('list(%s)' % type(v).__name__)

  @ext('builtins.set')
  def _set(cx, *a):
    if not a:
      lid = fresh_name('l')
      cx.p.lists[lid] = dict(n=z3.IntVal(0), elem=None, isset=True)
      return VListRef(lid)
    v = a[0]
    if isinstance(v, VTuple) and len(v.items) == 1 and isinstance(v.items[0], VArr):
      v = v.items[0]                  # set(np.where(m)[0])
    if isinstance(v, VArr):
      st = cx.st(v)
      lid = fresh_name('l')
      n = fresh('card', z3.IntSort())
      cx.p.assume(n >= 0)
      cx.p.assume(n <= st.shape.size())
      e = VInt(fresh('member', z3.IntSort()))
      if st.vf is not None:
        e.vf = st.vf
      cx.p.lists[lid] = dict(n=n, elem=e, isset=True, distinct_of=v.loc)
      return VListRef(lid)
    return VOpaque('set')

  @ext('builtins.sum')
  def _sum(cx, v, *rest):
    if isinstance(v, VListRef):
      e = cx.p.lists[v.lid].get('elem')
      if isinstance(e, VInt) or e is None:
        t = fresh('sum', z3.IntSort())
        cx.p.side.append(('assume', 'sum-of-nonnegatives', list(cx.p.pc), t >= 0, 'sum over a list')) if False else None
        return VInt(t)
      if isinstance(e, VReal):
        return VReal(fresh('sum', z3.RealSort()))
    if isinstance(v, (VList, VTuple)) and all(isinstance(x, (VInt, VReal)) for x in v.items):
      acc = None
      for x in v.items:
        acc = x.t if acc is None else acc + x.t
      return cx.ex.wrapnum(acc) if acc is not None else VInt(z3.IntVal(0))
    if isinstance(v, VArr):
      st = cx.st(v)
      return VInt(fresh('sum', z3.IntSort())) if st.kind in ('i', 'b') else VReal(fresh('sum', z3.RealSort()))
    raise Unsupported('sum(%r)' % (v,))

  @ext('warnings.warn', 'records the category as a ghost event; message text dropped')
  def _warn(cx, msg=None, category=None, *a, **k):
    cat = 'UserWarning'
    if category is not None:
      cat = category.name if isinstance(category, VClass) else getattr(category.obj, '__name__', 'UserWarning')
    cx.p.events.append(('warn', cat, cx.line()))
    return VNone()

  @ext('time.time')
  def _time(cx):
    return VReal(fresh('time', z3.RealSort()))

  @ext('sys.stdout.flush')
  def _flush(cx):
    return VNone()

  # -------------------------------------------------------------------------------- numpy: elementwise
  def elementwise(sym, kind=None, positive=False):
    def h(cx, a, *rest, **kw):
      if kw.get('out') is not None or kw.get('where') is not None:
        raise Unsupported('out=/where= (line %s)' % cx.line())
      if not isinstance(a, VArr):
        t = scalar_term(cx, a)
        if t is None:
          raise Unsupported('%s of %r' % (sym, a))
        f = getattr(TH, sym + '_s', None)
        return VReal(f(t)) if f is not None else VReal(fresh(sym, z3.RealSort()))
      st = cx.st(a)
      f = getattr(TH, sym + 'T', None)
      return cx.new(f(st.term) if (f is not None and st.term is not None) else None, st.shape.dims, kind or st.kind)
    return h
  ext('numpy.sqrt', 'elementwise; result float; nan for negatives (A-real: argument assumed >= 0 where values are used)')(elementwise('sqrt', 'f'))
  ext('numpy.exp')(elementwise('exp', 'f'))
  ext('numpy.log')(elementwise('log', 'f'))
  ext('numpy.square')(elementwise('sq'))
  ext('numpy.isnan')(elementwise('isnan', 'b'))
  ext('numpy.isfinite')(elementwise('isfinite', 'b'))
  ext('numpy.sign')(elementwise('sign'))
  ext('numpy.ceil')(elementwise('ceil', 'f'))
  ext('numpy.rint', 'elementwise rounding to the nearest integer (float result)')(elementwise('rint', 'f'))
  ext('numpy.floor')(elementwise('floor', 'f'))
  def np_conj(cx, a, **kw):
    if isinstance(a, VArr) and cx.st(a).kind in ('f', 'i', 'b'):
      st = cx.st(a)
      return cx.new(st.term, st.shape.dims, st.kind)        # the conjugate of a real array is (a copy of) itself
    return elementwise('conj')(cx, a)
  ext('numpy.conjugate', 'identity on real arrays')(np_conj)

  def np_abs(cx, a, **kw):
    return elementwise('abs')(cx, a)
  ext('numpy.abs')(np_abs)

  @ext('numpy.maximum', 'elementwise maximum with broadcasting')
  def _maximum(cx, a, b, **kw):
    return minmax2(cx, a, b, 'maximum')

  @ext('numpy.minimum')
  def _minimum(cx, a, b, **kw):
    return minmax2(cx, a, b, 'minimum')

  def minmax2(cx, a, b, name):
    at, ad, ak, as_ = np_.operand(cx, a)
    bt, bd, bk, bs = np_.operand(cx, b)
    dims = bshape(cx, ad, bd)
    term = None
    if as_ is not None and bt is not None:
      term = getattr(TH, name + '_s')(as_, bt)
    elif bs is not None and at is not None:
      term = getattr(TH, name + '_s')(bs, at)
    if not dims:
      x, y = as_, bs
      return VReal(z3.If(x >= y, x, y) if name == 'maximum' else z3.If(x <= y, x, y))
    return cx.new(term, dims, promote(ak, bk))

  # ------------------------------------------------------------------------------ numpy: reductions
  def reduction(name):
    def h(cx, a, axis=None, keepdims=None, **kw):
      if isinstance(a, (VList, VTuple)) and a.items and all(isinstance(x, (VInt, VReal)) for x in a.items) and name in ('max', 'amax', 'min', 'sum'):
        ts = [x.t for x in a.items]
        acc = ts[0]
        for t in ts[1:]:
          acc = acc + t if name == 'sum' else z3.If(t > acc, t, acc) if name in ('max', 'amax') else z3.If(t < acc, t, acc)
        return cx.ex.wrapnum(acc)
      if isinstance(a, VListRef):
        t = fresh(name, z3.IntSort())
        e = cx.p.lists[a.lid].get('elem')
        if isinstance(e, VInt) and name == 'sum':
          cx.p.side.append(('assume', 'sum-of-nonnegatives', list(cx.p.pc), t >= 0, 'np.sum over a list'))
        return VInt(t)
      if isinstance(a, (VList, VTuple)):
        return VOpaque('np.%s(list)' % name)
      st = cx.st(a)
      ax = axis.conc() if isinstance(axis, VInt) else None
      if axis is not None and not isinstance(axis, VNone) and ax is None:
        raise Unsupported('reduction over symbolic / tuple axis')
      kd = keepdims is not None and isinstance(keepdims, VBool) and keepdims.conc()
      r = st.shape.rank
      kind = st.kind if name in ('sum', 'max', 'min', 'amax') else 'f'
      if name == 'sum' and st.kind == 'b':
        kind = 'i'
      if name in ('argmax', 'argmin'):
        kind = 'i'
      if ax is None:
        if name in ('argmax', 'argmin'):
          cx.may_raise('ValueError', st.shape.size() == 0, 'attempt to get arg%s of an empty sequence' % name[3:])
          t = fresh(name, z3.IntSort())
          cx.p.assume(t >= 0)
          cx.p.assume(t < st.shape.size())
          return VInt(t)
        if name in ('max', 'min', 'amax'):
          cx.may_raise('ValueError', st.shape.size() == 0, 'zero-size array to reduction')
        f = {'sum': TH.vsum, 'mean': TH.vmean, 'max': TH.vmax, 'amax': TH.vmax}.get(name) if r == 1 else None
        t = f(st.term) if (f is not None and st.term is not None) else None
        if kind in ('i', 'b'):
          return VInt(z3.ToInt(t) if t is not None else fresh(name, z3.IntSort()))
        return VReal(t if t is not None else fresh(name, z3.RealSort()))
      if ax < 0:
        ax += r
      dims = [d for k, d in enumerate(st.shape.dims) if k != ax] if not kd else \
             [d if k != ax else z3.IntVal(1) for k, d in enumerate(st.shape.dims)]
      term = None
      if name == 'sum' and ax == r - 1 and not kd and st.term is not None and r == 2:
        term = TH.sumlast(st.term)
      if not dims:
        if kind in ('i', 'b'):
          return VInt(fresh(name, z3.IntSort()))
        t = TH.vsum(st.term) if (name == 'sum' and st.term is not None) else fresh(name, z3.RealSort())
        return VReal(t)
      return cx.new(term, dims, kind)
    return h
  for nm, dotted in (('sum', 'numpy.sum'), ('max', 'numpy.max'), ('amax', 'numpy.amax'), ('min', 'numpy.min'),
                     ('mean', 'numpy.mean'), ('argmax', 'numpy.argmax'), ('argmin', 'numpy.argmin')):
    ext(dotted)(reduction(nm))
    method(nm if nm != 'amax' else 'max')(reduction(nm))

  # ------------------------------------------------------------------------------------ numpy: dot
  @ext('numpy.dot', 'matrix/vector product; ValueError when inner dimensions differ')
  def _dot(cx, a, b, **kw):
    return np_.dot(cx, a, b)
  ext('numpy.matmul')(_dot)

  @method('dot')
  def _mdot(cx, a, b):
    return np_.dot(cx, a, b)

  @method('copy')
  def _copy(cx, a, **kw):
    st = cx.st(a)
    return cx.new(TH.copyT(st.term) if st.term is not None else None, st.shape.dims, st.kind, vf=st.vf)

  @method('ravel')
  def _ravel(cx, a, **kw):
    st = cx.st(a)
    t_ = st.term if (st.shape.rank == 1 or st.term is None) else TH.ravel(st.term)
    return cx.new(t_, [st.shape.size()], st.kind, st.owner, base=(a.loc, st.version), vf=st.vf)

  @method('flatten')
  def _flatten(cx, a, **kw):
    st = cx.st(a)
    return cx.new(TH.ravel(st.term) if st.term is not None else None, [st.shape.size()], st.kind, vf=st.vf)

  @method('astype')
  def _astype(cx, a, dtype, copy=None, **kw):
    st = cx.st(a)
    k = dtype_kind(dtype)
    maycopy = not (isinstance(copy, VBool) and copy.conc() is False)
    if not st.shape.concrete:   # symbolic rank (validators): same shape object
      return cx.p.new_loc(ArrState(st.term, st.shape, k, FRESH if maycopy else st.owner, None if maycopy else (a.loc, st.version), vf=st.vf))
    return cx.new(st.term, st.shape.dims, k, FRESH if maycopy else st.owner, base=None if maycopy else (a.loc, st.version), vf=st.vf)

  @method('squeeze')
  def _squeeze(cx, a, **kw):
    st = cx.st(a)
    if not st.shape.concrete:
      # rank unknown: result rank is at most the input rank
      nd = fresh('sq.ndim', z3.IntSort())
      dims = z3.Function(fresh_name('sq.dim'), z3.IntSort(), z3.IntSort())
      cx.p.assume(nd >= 0)
      cx.p.assume(nd <= st.shape.ndim())
      return cx.p.new_loc(ArrState(fresh('sq', T), Shape(nd, dims), st.kind, st.owner))
    # concrete rank: every axis of length 1 disappears (fork on each axis)
    out = []
    import itertools
    for keep in itertools.product([True, False], repeat=st.shape.rank):
      q = cx.p.fork()
      for k, d in zip(keep, st.shape.dims):
        q.assume(d != 1 if k else d == 1)
      if not feasible(q.pc):
        continue
      dims = [d for k, d in zip(keep, st.shape.dims) if k]
      out.append((q, q.new_loc(ArrState(st.term if all(keep) or st.shape.rank == 1 else TH.squeezeT(st.term), Shape(len(dims), dims),
                                        st.kind, st.owner, (a.loc, st.version)))))
    return out

  def dtype_kind(d):
    if isinstance(d, VExt):
      n = getattr(d.obj, '__name__', str(d.obj))
      if 'float' in n:
        return 'f'
      if 'int' in n:
        return 'i'
      if 'bool' in n:
        return 'b'
      if 'complex' in n:
        return 'c'
    if isinstance(d, VStr):
      return {'numeric': 'f'}.get(d.s, 'f')
    if isinstance(d, VNone):
      return None
    return 'f'
  lib.dtype_kind = dtype_kind

  lib._elementwise = elementwise
  lib._reduction = reduction

  from . import libspec_more
  libspec_more.install(lib, np_)
  from . import libspec_shape
  libspec_shape.install(lib, np_)


class VSuper(V):
  def __init__(self, cls, obj):
    self.cls, self.obj = cls, obj


class VVarsOf(V):
  def __init__(self, obj):
    self.obj = obj


class VRange(V):
  def __init__(self, *a):
    self.args = a


class VEnumerate(V):
  def __init__(self, v):
    self.v = v


class VZip(V):
  def __init__(self, vs):
    self.vs = vs


class VReversed(V):
  def __init__(self, v):
    self.v = v
