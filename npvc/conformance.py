"""Conformance sampling of the `lib` (and, as a sanity check, all) axioms against the INSTALLED numpy: every axiom that has a
generator description is evaluated on random instances through the numpy interpretation of the theory symbols.
Reported as sampled -- never as proved.  An axiom that evaluates to False on an instance is a bug in libspec/theory."""
import numpy as np
import z3

from . import theory as TH


class NoInterp(Exception):
  pass


def gen_value(kind, sizes, rng):
  name, _, args = kind.partition('(')
  args = [a for a in args.rstrip(')').split(',') if a]
  def dim(a):
    if a.isdigit():
      return int(a)
    if a not in sizes:
      sizes[a] = int(rng.randint(1, 5))
    return sizes[a]
  if name == 'mat':
    return rng.randn(dim(args[0]), dim(args[1]))
  if name == 'vec':
    return rng.randn(dim(args[0]))
  if name == 'row':
    return rng.randn(1, dim(args[0]))
  if name == 'pmat':
    return rng.rand(dim(args[0]), dim(args[1])) + 0.1
  if name == 'pvec':
    return rng.rand(dim(args[0])) + 0.1
  if name == 'ivec':
    return rng.randint(0, dim(args[0]), size=dim(args[0])).astype(float)
  if name == 'bvec':
    return rng.rand(dim(args[0])) > 0.5
  if name == 'pm1':
    return rng.choice([-1.0, 1.0], size=dim(args[0]))
  if name == 'ten':
    return rng.randn(dim(args[0]), dim(args[1]), dim(args[2]))
  if name == 'idx':
    return int(rng.randint(0, dim(args[0])))
  if name == 'spd':
    d_ = dim(args[0])
    A_ = rng.randn(d_, d_)
    return A_ @ A_.T + 0.5 * np.eye(d_)
  if name == 'real':
    return float(rng.randn())
  if name == 'nnreal':
    return float(abs(rng.randn()))
  raise NoInterp('generator ' + kind)


def evaluate(t, env):
  """z3 term -> python/numpy value under env (decl name -> value)"""
  if z3.is_quantifier(t):
    raise NoInterp('nested quantifier')
  if z3.is_int_value(t):
    return t.as_long()
  if z3.is_rational_value(t):
    return float(t.numerator_as_long()) / float(t.denominator_as_long())
  if z3.is_true(t):
    return True
  if z3.is_false(t):
    return False
  d = t.decl()
  k = d.kind()
  name = d.name()
  ch = t.children()
  if k == z3.Z3_OP_UNINTERPRETED:
    if not ch:
      if name in env:
        return env[name]
      raise NoInterp('free constant ' + name)
    s = TH.SYMS.get(name)
    if s is None or s.np is None:
      raise NoInterp('symbol without numpy interpretation: ' + name)
    return s.np(*[evaluate(c, env) for c in ch])
  vs = [evaluate(c, env) for c in ch]
  if k == z3.Z3_OP_ADD:
    r = vs[0]
    for v in vs[1:]:
      r = r + v
    return r
  if k == z3.Z3_OP_SUB:
    r = vs[0]
    for v in vs[1:]:
      r = r - v
    return r
  if k == z3.Z3_OP_MUL:
    r = vs[0]
    for v in vs[1:]:
      r = r * v
    return r
  if k in (z3.Z3_OP_DIV, z3.Z3_OP_IDIV):
    return vs[0] / vs[1] if k == z3.Z3_OP_DIV else vs[0] // vs[1]
  if k == z3.Z3_OP_UMINUS:
    return -vs[0]
  if k == z3.Z3_OP_TO_REAL:
    return vs[0]
  if k == z3.Z3_OP_TO_INT:
    import math
    return int(math.floor(vs[0]))
  if k == z3.Z3_OP_IS_INT:
    return float(vs[0]).is_integer()
  if k == z3.Z3_OP_EQ:
    a, b = vs
    if isinstance(a, np.ndarray) or isinstance(b, np.ndarray):
      a, b = np.asarray(a), np.asarray(b)
      return a.shape == b.shape and bool(np.allclose(a.astype(float), b.astype(float), rtol=1e-9, atol=1e-9, equal_nan=True))
    if isinstance(a, bool) or isinstance(b, bool):
      return bool(a) == bool(b)
    return abs(a - b) <= 1e-9 * max(1.0, abs(a), abs(b))
  if k == z3.Z3_OP_LE:
    return vs[0] <= vs[1] + 1e-9 * max(1.0, abs(vs[0]), abs(vs[1]))
  if k == z3.Z3_OP_GE:
    return vs[0] >= vs[1] - 1e-9 * max(1.0, abs(vs[0]), abs(vs[1]))
  if k == z3.Z3_OP_LT:
    return vs[0] < vs[1]
  if k == z3.Z3_OP_GT:
    return vs[0] > vs[1]
  if k == z3.Z3_OP_AND:
    return all(vs)
  if k == z3.Z3_OP_OR:
    return any(vs)
  if k == z3.Z3_OP_NOT:
    return not vs[0]
  if k == z3.Z3_OP_IMPLIES:
    return (not vs[0]) or vs[1]
  if k == z3.Z3_OP_ITE:
    return vs[1] if vs[0] else vs[2]
  if k == z3.Z3_OP_DISTINCT:
    return len(set(vs)) == len(vs)
  raise NoInterp('operator ' + name)


def sample_axiom(ax, rng, n=20):
  """-> (instances evaluated, list of failing instances)"""
  f = ax.formula
  if not ax.gen or not z3.is_quantifier(f):
    return 0, []
  nv = f.num_vars()
  names = [f.var_name(i) for i in range(nv)]
  consts = [z3.Const('cs!' + names[i], f.var_sort(i)) for i in range(nv)]
  body = z3.substitute_vars(f.body(), *reversed(consts))
  done, bad = 0, []
  for _ in range(n):
    sizes = {}
    env = {}
    try:
      for nm in names:
        if nm not in ax.gen:
          raise NoInterp('no generator for variable ' + nm)
        env['cs!' + nm] = gen_value(ax.gen[nm], sizes, rng)
      ok = evaluate(body, env)
    except NoInterp:
      return done, bad
    except (IndexError, ValueError):
      continue
    done += 1
    if not ok:
      bad.append({k: (v.tolist() if hasattr(v, 'tolist') else v) for k, v in env.items()})
  return done, bad


def run(seed=0, n=20):
  rng = np.random.RandomState(seed)
  report = {}
  for ax in TH.AXIOMS:
    done, bad = sample_axiom(ax, rng, n)
    report[ax.name] = dict(kind=ax.kind, sampled=done, failures=bad[:2])
  return report


if __name__ == '__main__':
  import json
  r = run()
  bad = {k: v for k, v in r.items() if v['failures']}
  print('%d axioms, %d sampled, %d with failures' % (len(r), sum(1 for v in r.values() if v['sampled']), len(bad)))
  for k, v in bad.items():
    print('FAIL', k, json.dumps(v['failures'])[:300])
  print('not sampled:', sorted(k for k, v in r.items() if not v['sampled']))
