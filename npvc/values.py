"""Symbolic value domain of the npvc executor.

Scalars are z3 terms (Python int -> Int, float -> Real [assumption A-real], bool -> Bool).  Opaque Python
objects are elements of the uninterpreted sort Ref (identity only).  Arrays are *references* (loc) into
the path's store; their shape is kept Python-side as z3 Int terms, their value (when tracked) is a z3 term
of the uninterpreted sort T whose meaning is given by the axioms in npvc/theory.py.
"""
import itertools
import z3

Ref = z3.DeclareSort('Ref')
T = z3.DeclareSort('T')          # tensors (arrays of any rank): value view
_cnt = itertools.count()


def fresh_name(p):
  return '%s!%d' % (p, next(_cnt))


def fresh(p, sort):
  return z3.Const(fresh_name(p), sort)


class V:
  pass


class VInt(V):
  def __init__(self, t):
    self.t = z3.IntVal(t) if isinstance(t, int) else t

  def conc(self):
    t = z3.simplify(self.t)
    return t.as_long() if z3.is_int_value(t) else None

  def __repr__(self):
    return 'VInt(%s)' % self.t


class VReal(V):
  def __init__(self, t):
    if isinstance(t, (int, float)):
      t = z3.RealVal(repr(float(t))) if isinstance(t, float) else z3.RealVal(t)
    self.t = t

  def __repr__(self):
    return 'VReal(%s)' % self.t


class VInf(V):
  """np.inf / float('inf') as a distinguished constant (sign = +1 / -1); only comparisons and `is` are modelled"""
  def __init__(self, sign=1):
    self.sign = sign


class VBool(V):
  def __init__(self, t):
    self.t = z3.BoolVal(t) if isinstance(t, bool) else t

  def conc(self):
    t = z3.simplify(self.t)
    if z3.is_true(t):
      return True
    if z3.is_false(t):
      return False
    return None

  def __repr__(self):
    return 'VBool(%s)' % self.t


class VNone(V):
  def __repr__(self):
    return 'VNone'


NONE_REF = z3.Const('None', Ref)
_strconsts = {}


def strconst(s):
  if s not in _strconsts:
    _strconsts[s] = z3.Const('str:' + s, Ref)
  return _strconsts[s]


def distinct_axioms():
  cs = [NONE_REF] + list(_strconsts.values())
  return [z3.Distinct(*cs)] if len(cs) > 1 else []


class VStr(V):
  def __init__(self, s):
    self.s = s

  @property
  def ref(self):
    return strconst(self.s)

  def __repr__(self):
    return 'VStr(%r)' % self.s


class VRef(V):
  """opaque python object; `types` optionally records what the contract promises about its python type
  (e.g. {'str'}, {'int','float'}) for isinstance tests"""
  def __init__(self, t, types=None, name=None):
    self.t = t
    self.types = types
    self.name = name

  def __repr__(self):
    return 'VRef(%s)' % self.t


class VTuple(V):
  def __init__(self, items):
    self.items = list(items)

  def __repr__(self):
    return 'VTuple(%r)' % (self.items,)


class VList(V):
  def __init__(self, items):
    self.items = list(items)

  def __repr__(self):
    return 'VList(%r)' % (self.items,)


class VDict(V):
  def __init__(self, d):
    self.d = dict(d)

  def __repr__(self):
    return 'VDict(%r)' % (self.d,)


class VArr(V):
  def __init__(self, loc):
    self.loc = loc

  def __repr__(self):
    return 'VArr(@%s)' % self.loc


class VObj(V):
  def __init__(self, oid, cls):
    self.oid, self.cls = oid, cls

  def __repr__(self):
    return 'VObj(%s#%s)' % (self.cls, self.oid)


class VFunc(V):
  """function defined in metric_learn: AST node + defining module + closure env + bound self"""
  def __init__(self, node, module, closure=None, bound=None, owner=None):
    self.node, self.module, self.closure, self.bound, self.owner = node, module, closure, bound, owner

  def __repr__(self):
    return 'VFunc(%s)' % getattr(self.node, '_qual', self.node.name)


class VClass(V):
  def __init__(self, name):
    self.name = name

  def __repr__(self):
    return 'VClass(%s)' % self.name


class VExt(V):
  """an object of numpy/scipy/sklearn/stdlib (function, module, class or constant)"""
  def __init__(self, obj, dotted):
    self.obj, self.dotted = obj, dotted

  def __repr__(self):
    return 'VExt(%s)' % self.dotted


class VBoundExt(V):
  """method of a symbolic value implemented by libspec: recv.name"""
  def __init__(self, recv, name):
    self.recv, self.name = recv, name

  def __repr__(self):
    return 'VBoundExt(%r.%s)' % (self.recv, self.name)


class VExc(V):
  def __init__(self, cls, args=(), cause=None):
    self.cls, self.args, self.cause = cls, args, cause

  def __repr__(self):
    return 'VExc(%s)' % self.cls


class VOpaque(V):
  """a value whose content is not modelled (formatted message, time stamp, estimator of sklearn, ...)"""
  def __init__(self, what=''):
    self.what = what

  def __repr__(self):
    return 'VOpaque(%s)' % self.what


class VSlice(V):
  def __init__(self, lo, hi, step):
    self.lo, self.hi, self.step = lo, hi, step


class VSymList(V):
  """list of symbolic length n whose element at the generic index i (a z3 Int constant, 0 <= i < n) is elem"""
  def __init__(self, n, i, elem):
    self.n, self.i, self.elem = n, i, elem


class VListRef(V):
  """python list of symbolic length (built by append inside a loop, or the keys/values of a Counter): the state
  {'n': z3 Int, 'elem': sample element or None} lives in path.lists[lid] (copied on fork)"""
  def __init__(self, lid):
    self.lid = lid

  def __repr__(self):
    return 'VListRef(%s)' % self.lid


class VSet(V):
  """python set abstracted as membership predicate (z3 array elem -> Bool) + cardinality Int"""
  def __init__(self, mem, card, sort):
    self.mem, self.card, self.sort = mem, card, sort


# ----------------------------------------------------------------------------------------------- arrays
class Shape:
  """rank is a python int (dims: list of z3 Int) or a z3 Int (dims: z3 function Int->Int) for validators"""
  def __init__(self, rank, dims):
    self.rank, self.dims = rank, dims

  @property
  def concrete(self):
    return isinstance(self.rank, int)

  def ndim(self):
    return z3.IntVal(self.rank) if self.concrete else self.rank

  def dim(self, i):
    if self.concrete:
      if isinstance(i, int):
        return self.dims[i]
      raise TypeError('symbolic axis on concrete-rank shape')
    return self.dims(z3.IntVal(i) if isinstance(i, int) else i)

  def size(self):
    assert self.concrete
    r = z3.IntVal(1)
    for d in self.dims:
      r = r * d
    return r

  def __repr__(self):
    return 'Shape(%s,%s)' % (self.rank, self.dims if self.concrete else '<sym>')


class ArrState:
  """immutable record; in-place writes replace the record in path.store"""
  __slots__ = ('term', 'shape', 'kind', 'owner', 'base', 'version', 'tag', 'vf', 'tt')

  def __init__(self, term, shape, kind='f', owner=('fresh',), base=None, version=0, tag=None, vf=None, tt=None):
    # tt ("translation type", ghost, property C19): how the array changes when every training point is translated by a constant
    # vector c:  'pos' = its points move by (a linear image of) c,  'inv' = unchanged,  'bad' = neither can be shown,  None = not classified yet
    self.tt = tt
    # vf ("value frame", ghost): for an array of integer INDICES, the length of the axis its values index
    # (a z3 Int term); arrays of indices into different axes must not be mixed up (C07: "indices refer to the caller's array")
    self.term, self.shape, self.kind, self.owner, self.base, self.version, self.tag, self.vf = \
        term, shape, kind, owner, base, version, tag, vf

  def replace(self, **kw):
    d = {k: getattr(self, k) for k in self.__slots__}
    d.update(kw)
    return ArrState(**d)
