"""Translation typing (ghost abstract domain for property C19).

Every value carries how it changes when all training points are translated by a constant vector c:
  'pos' -- an array of points: each point moves by c (or by a fixed linear image of c);
  'inv' -- unchanged;   'bad' -- not shown to be either.
Typing rules (sound by elementary algebra):  pos - pos = inv,  pos +/- inv = pos,  inv op inv = inv,  pos compared with pos = inv,
indexing / stacking / copying / unique rows keep the type,  cov / pairwise distances / PCA / LDA / k-NN indices of pos = inv,
mean over the sample axis of pos = pos,  (pos) @ (inv) = pos;  every other use of a pos value is 'bad'.
A learner whose components_ types as 'inv' provably learns a translation-invariant metric."""
from .values import *

INV, POS, BAD = 'inv', 'pos', 'bad'


def tt_of(p, v):
  if isinstance(v, VArr):
    t = p.store[v.loc].tt if v.loc in p.store else None
    return t or INV
  if isinstance(v, (VReal, VInt, VBool)):
    return getattr(v, 'tt', None) or INV
  if isinstance(v, (VTuple, VList)):
    return same([tt_of(p, x) for x in v.items])
  if isinstance(v, VListRef):
    e = p.lists.get(v.lid, {}).get('elem')
    return tt_of(p, e) if e is not None else INV
  if isinstance(v, VDict):
    return worst([tt_of(p, x) for x in v.d.values()])
  return INV


def same(ts):
  """type of a stack / collection: all equal -> that type, otherwise bad"""
  ts = list(ts)
  if not ts:
    return INV
  if BAD in ts:
    return BAD
  return ts[0] if all(t == ts[0] for t in ts) else BAD


def worst(ts):
  """default for an operation without a rule: invariant only if every input is"""
  ts = list(ts)
  return INV if all(t == INV for t in ts) else BAD


def arith(op, a, b):
  if BAD in (a, b):
    return BAD
  if a == INV and b == INV:
    return INV
  if op == 'sub':
    return INV if (a, b) == (POS, POS) else POS if (a, b) == (POS, INV) else BAD
  if op == 'add':
    return POS if POS in (a, b) and INV in (a, b) else BAD
  if op == 'cmp':
    return INV if (a, b) == (POS, POS) else BAD
  if op == 'dot':
    return POS if POS in (a, b) and INV in (a, b) else BAD
  return BAD


def set_tt(p, v, t):
  if isinstance(v, VArr) and v.loc in p.store:
    p.store[v.loc] = p.store[v.loc].replace(tt=t)
  elif isinstance(v, (VReal, VInt, VBool)):
    try:
      v.tt = t
    except Exception:
      pass
  elif isinstance(v, (VTuple, VList)):
    for x in v.items:
      set_tt(p, x, t)
  return v


def default_result(p, res, args):
  """result of an operation without a specific rule"""
  t = worst([tt_of(p, a) for a in args])
  def fill(v):
    if isinstance(v, VArr):
      if v.loc in p.store and p.store[v.loc].tt is None:
        set_tt(p, v, t)
    elif isinstance(v, (VReal, VInt, VBool)):
      if getattr(v, 'tt', None) is None and t != INV:
        set_tt(p, v, t)
    elif isinstance(v, (VTuple, VList)):
      for x in v.items:
        fill(x)
  fill(res)
