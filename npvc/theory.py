"""Value theory of arrays: uninterpreted symbols over the sort T with
  * a numpy interpretation per symbol (used to conformance-sample the axioms and to evaluate terms on
    concrete instances), and
  * axioms, each tagged `math` (has a Lean/Mathlib theorem in /verif/lean, by name), `def` (definition of a
    spec function) or `lib` (assumed behaviour of numpy, conformance-sampled only).
Axioms are quantified with explicit e-matching patterns; only the axioms whose head symbols occur in an
obligation are loaded into that query.
"""
import z3
from .values import T

R, I, B = z3.RealSort(), z3.IntSort(), z3.BoolSort()


class Sym:
  def __init__(self, name, dom, rng, np=None):
    self.name, self.dom, self.rng, self.np = name, dom, rng, np
    self.f = z3.Function(name, *dom, rng)

  def __call__(self, *a):
    return self.f(*a)


SYMS = {}


def sym(name, dom, rng, np=None):
  s = Sym(name, dom, rng, np)
  SYMS[name] = s
  return s


import numpy as _np


def _row(a, i):
  return a[int(i)]


# ---- observers
at1 = sym('at1', (T, I), R, lambda a, i: float(a[int(i)]))
at2 = sym('at2', (T, I, I), R, lambda a, i, j: float(a[int(i), int(j)]))
row = sym('row', (T, I), T, _row)                         # index on the first axis
take1 = sym('take1', (T, I), T, lambda a, j: a[:, int(j)])    # index on the second axis: a[:, j]
# ---- linear algebra
mm = sym('mm', (T, T), T, lambda a, b: a @ b)             # matrix @ matrix
mv = sym('mv', (T, T), T, lambda a, v: a @ v)             # matrix @ vector
vm = sym('vm', (T, T), T, lambda v, a: v @ a)             # vector @ matrix
dot = sym('dot', (T, T), R, lambda u, v: float(u @ v))    # inner product of vectors
tr = sym('tr', (T,), T, lambda a: a.T)
add = sym('add', (T, T), T, lambda a, b: a + b)
sub = sym('sub', (T, T), T, lambda a, b: a - b)
mul = sym('mul', (T, T), T, lambda a, b: a * b)           # elementwise, same shape
neg = sym('neg', (T,), T, lambda a: -a)
smul = sym('smul', (R, T), T, lambda c, a: c * a)
sq = sym('sq', (T,), T, lambda a: a ** 2)
sqrtT = sym('sqrtT', (T,), T, lambda a: _np.sqrt(a))
sumlast = sym('sumlast', (T,), T, lambda a: a.sum(axis=-1))   # rank >= 2 -> rank-1 lower
vsum = sym('vsum', (T,), R, lambda v: float(v.sum()))         # sum of a vector
outer = sym('outer', (T, T), T, lambda u, v: _np.outer(u, v))
eye = sym('eye', (I,), T, lambda n: _np.eye(int(n)))
copyT = sym('copyT', (T,), T, lambda a: a.copy())
sqrt = sym('sqrt', (R,), R, lambda x: float(_np.sqrt(x)))
sqrt_s = sqrt
cols2 = sym('cols2', (T, I, I), T, lambda a, j, k: a[:, [int(j), int(k)]])    # a[:, [j, k]] of a rank-3 array
ssub = sym('ssub', (T, R), T, lambda a, c: a - c)
sadd = sym('sadd', (T, R), T, lambda a, c: a + c)
notT = sym('notT', (T,), T, lambda a: ~a)
anyT = sym('anyT', (T,), B, lambda a: bool(a.any()))
ravel = sym('ravel', (T,), T, lambda a: a.ravel())
maximum_s = sym('maximum_s', (R, T), T, lambda c, a: _np.maximum(c, a))
minimum_s = sym('minimum_s', (R, T), T, lambda c, a: _np.minimum(c, a))
absT = sym('absT', (T,), T, lambda a: _np.abs(a))
signT = sym('signT', (T,), T, lambda a: _np.sign(a))
expT = sym('expT', (T,), T, lambda a: _np.exp(a))
isnanT = sym('isnanT', (T,), T, lambda a: _np.isnan(a))
_CMP = {'lt': lambda a, b: a < b, 'le': lambda a, b: a <= b, 'gt': lambda a, b: a > b, 'ge': lambda a, b: a >= b,
        'eq': lambda a, b: a == b, 'ne': lambda a, b: a != b}
for _n, _f in _CMP.items():
  sym('cmp_%s_s' % _n, (T, R), T, _f)      # array <op> scalar -> boolean array (elements 1.0 / 0.0 under at1)
  sym('cmp_%s_a' % _n, (T, T), T, _f)


def cmps(name):
  return SYMS['cmp_%s_s' % name]


def cmpa(name):
  return SYMS['cmp_%s_a' % name]


nonfinite = sym('nonfinite', (T,), B, lambda a: bool(not _np.isfinite(a).all()))
roc_auc = sym('roc_auc', (T, T), R, None)
mat11 = sym('mat11', (R,), T, lambda c: _np.array([[c]]))
eye2 = sym('eye2', (I, I), T, lambda n, m: _np.eye(int(n), int(m)))
zeros = sym('zeros', (I,), T, lambda n: _np.zeros(int(n)))
ones_like = sym('ones_like', (T,), T, lambda a: _np.ones_like(a))
zeros_like = sym('zeros_like', (T,), T, lambda a: _np.zeros_like(a))
array_equal = sym('array_equal', (T, T), B, lambda a, b: bool(_np.array_equal(a, b)))
allclose = sym('allclose', (T, T), B, lambda a, b: bool(_np.allclose(a, b)))
diagm = sym('diagm', (T,), T, lambda v: _np.diag(v))
diagv = sym('diagv', (T,), T, lambda a: _np.diag(a))
is_pd = sym('is_pd', (T,), B, lambda a: bool(_np.all(_np.linalg.eigvalsh((a + a.T) / 2) > 0)))
chol = sym('chol', (T,), T, lambda a: _np.linalg.cholesky(a))
eigvals = sym('eigvals', (T,), T, lambda a: _np.linalg.eigh(a)[0])
eigvecs = sym('eigvecs', (T,), T, lambda a: _np.linalg.eigh(a)[1])
EPS = z3.Real('EPS')          # machine epsilon of float64: an unspecified positive real
eps_of = sym('eps_of', (T,), R, lambda a: float(_np.finfo(a.dtype).eps) if a.dtype.kind == 'f' else float(_np.finfo(float).eps))   # of an array's dtype

from .values import Ref as _Ref
papply = sym('papply', (_Ref, T), T, None)             # result of applying a user callable to an array
prank = sym('prank', (_Ref, T), I, None)               # its rank
squeeze1 = sym('squeeze1', (T,), T, lambda a: a[:, 0]) # a[:, 0] of an array whose axis 1 has length 1
cstack2 = sym('cstack2', (T, T), T, lambda a, b: _np.column_stack((a, b)))

ptuples = sym('ptuples', (_Ref, T), T, None)           # tuples formed from a 2-D array of indicators by a callable

vmean = sym('vmean', (T,), R, lambda v: float(v.mean()))
all_pm1 = sym('all_pm1', (T,), B, lambda v: bool(_np.all(_np.abs(v) == 1)))
frac_pos = sym('frac_pos', (T,), R, lambda v: float((v == 1).mean()))

squeezeT = sym('squeezeT', (T,), T, lambda a: a.squeeze())

finiteT = sym('finiteT', (T,), B, lambda a: bool(_np.isfinite(a).all()))
zerosl = sym('zerosl', (T,), T, lambda a: _np.zeros_like(a))
zerosmm = sym('zerosmm', (T, T), T, lambda a, b: _np.zeros_like(a) @ b)

arange = sym('arange', (I,), T, lambda n: _np.arange(int(n)))
vstack3 = sym('vstack3', (T,), T, lambda a: _np.vstack(a))
uniqueT = sym('uniqueT', (T,), T, None)
unique_rows = sym('unique_rows', (T,), T, lambda a: _np.unique(a, axis=0))      # np.unique(a, axis=0): the distinct rows, sorted
unique_inv = sym('unique_inv', (T,), T, None)
unique_counts = sym('unique_counts', (T,), T, None)
argsortT = sym('argsortT', (T,), T, lambda a: _np.argsort(a))
whereT = sym('whereT', (T,), T, lambda a: _np.where(a)[0])
itake = sym('itake', (T, T), T, lambda b, I_: b[I_.astype(int)])         # b[I] : 1-D b indexed by an integer array I of rank 2
takev = sym('takev', (T, T), T, lambda b, I_: b[I_.astype(int)])         # b[I] : 1-D b indexed by a 1-D integer array I
fnorm = sym('fnorm', (T,), R, lambda a: float(_np.linalg.norm(a)))
cov = sym('cov', (T,), T, lambda X: _np.atleast_2d(_np.cov(X, rowvar=False)))
covb = sym('covb', (T,), T, lambda X: _np.atleast_2d(_np.cov(X, rowvar=False, bias=True)))
atleast2d = sym('atleast2d', (T,), T, lambda a: _np.atleast_2d(a))
pinv = sym('pinv', (T,), T, lambda a: _np.linalg.pinv(a))
inv = sym('inv', (T,), T, lambda a: _np.linalg.inv(a))
logabsdet = sym('logabsdet', (T,), R, lambda a: float(_np.linalg.slogdet(a)[1]))
reshapeT = sym('reshapeT', (T,), T, None)
normalize_rows = sym('normalize_rows', (T,), T, lambda a: a / _np.linalg.norm(a, axis=1, keepdims=True))
pdist2 = sym('pdist2', (T,), T, None)
glasso = sym('glasso', (T, R), T, None)

indexer_of = sym('indexer_of', (_Ref,), _Ref, None)       # the ArrayIndexer callable built from an array-like preprocessor

vmax = sym('vmax', (T,), R, lambda v: float(v.max()))
cfm = sym('cfm', (T,), T, None)                         # components_from_metric(M)

ndistinct = sym('ndistinct', (T,), I, lambda v: int(len(_np.unique(v))))

of_list = sym('of_list', (_Ref,), T, None)            # ndarray holding the numbers of a python list

lenT = sym('lenT', (T,), I, lambda a: len(a))
wit = sym('wit', (T,), I, None)                        # index of a true entry of a boolean vector (when there is one)

addaxis1 = sym('addaxis1', (T,), T, lambda a: a[:, None])       # a[:, np.newaxis]

upd1 = sym('upd1', (T, I, R), T, lambda a, i, s: _np.concatenate([a[:int(i)], [s], a[int(i) + 1:]]))   # a with a[i] = s
pd = sym('pd', (T,), B, lambda a: bool(_np.allclose(a, a.T) and _np.all(_np.linalg.eigvalsh((a + a.T) / 2) > 0)))
nonzero = sym('nonzero', (T,), B, lambda v: bool(_np.any(v != 0)))

sdivwhere = sym('sdivwhere', (R, T, T), T, lambda c, w, m: _np.divide(c, w, where=m.astype(bool), out=w.astype(float).copy()))   # np.divide(c, w, where=m, out=w)
setmask = sym('setmask', (T, T, R), T, lambda a, m, s: _np.where(m.astype(bool), s, a))      # a[m] = s  (m boolean mask)
setwhere_eq = sym('setwhere_eq', (T, R, R), T, lambda a, c, s: _np.where(a == c, s, a))      # a[a == c] = s

sqT = sq
zeros2 = sym('zeros2', (I, I), T, lambda n, m: _np.zeros((int(n), int(m))))
sdivl = sym('sdivl', (R, T), T, lambda c, a: c / a)          # scalar / array
sdivr = sym('sdivr', (T, R), T, lambda a, c: a / c)          # array / scalar

colscale = sym('colscale', (T, T), T, lambda A, y: A * y)                 # A * y  with A (d, n), y (n,): column j scaled by y[j]
coldiv = sym('coldiv', (T, T), T, lambda A, y: A / y)                   # A / y  with A (d, n), y (n,): column j divided by y[j]
rowscale = sym('rowscale', (T, T), T, lambda A, c: A * c)                  # A * c  with A (n, d), c (n, 1): row i scaled by c[i, 0]
colscale2 = sym('colscale2', (T, T), T, lambda A, r: A * r)               # A * r  with r of shape (1, n)
addaxis0 = sym('addaxis0', (T,), T, lambda v: v[None, :])
psd = sym('psd', (T,), B, lambda a: bool(_np.all(_np.linalg.eigvalsh((a + a.T) / 2) >= -1e-9 * max(1.0, abs(a).max()))))
allT = sym('allT', (T,), B, lambda a: bool(a.all()))
isfiniteT = sym('isfiniteT', (T,), T, lambda a: _np.isfinite(a))

is_initial = sym('is_initial', (T,), B, None)           # ghost: this matrix is the untouched copy of the initial matrix

# ---- spec functions (contract vocabulary)
mdist = sym('mdist', (T, T, T), R,                         # d_L(x, y) = || L (x - y) ||_2
            lambda L, x, y: float(_np.sqrt(((L @ (x - y)) ** 2).sum())))
gram = sym('gram', (T,), T, lambda L: L.T @ L)            # M = L^T L
qform = sym('qform', (T, T), R, lambda M, v: float(v @ M @ v))   # v^T M v


class Ax:
  def __init__(self, name, kind, formula, heads, lean=None, gen=None, ieee=False):
    self.name, self.kind, self.formula, self.heads, self.lean, self.gen, self.ieee = name, kind, formula, heads, lean, gen, ieee


AXIOMS = []


def ax(name, kind, vars_, body, pats, heads, lean=None, gen=None, ieee=False):
  """ieee=True: the identity holds EXACTLY in binary64 arithmetic (sign symmetry / indexing), so it may be used
  in the exact-identity obligations of C01"""
  f = z3.ForAll(vars_, body, patterns=pats, qid=name) if vars_ else body
  AXIOMS.append(Ax(name, kind, f, set(heads), lean, gen, ieee))


a, b, c, L, M, u, v, x, y, z = [z3.Const(n, T) for n in 'a b c L M u v x y z'.split()]
i, j, n = z3.Ints('i j n')
s, t = z3.Reals('s t')

# gens give (shapes by variable) for conformance sampling: 'mat(k,d)', 'vec(d)', ...
# ---- lib: rows of elementwise / product terms (numpy semantics, conformance-sampled)
ax('row_sub', 'lib', [a, b, i], row(sub(a, b), i) == sub(row(a, i), row(b, i)),
   [z3.MultiPattern(row(sub(a, b), i))], ['row', 'sub'], ieee=True, gen=dict(a='mat(n,d)', b='mat(n,d)', i='idx(n)'))
ax('row_add', 'lib', [a, b, i], row(add(a, b), i) == add(row(a, i), row(b, i)),
   [z3.MultiPattern(row(add(a, b), i))], ['row', 'add'], gen=dict(a='mat(n,d)', b='mat(n,d)', i='idx(n)'))
ax('row_take1', 'lib', [a, i, j], row(take1(a, j), i) == row(row(a, i), j),
   [z3.MultiPattern(row(take1(a, j), i))], ['row', 'take1'], ieee=True, gen=dict(a='ten(n,t,d)', i='idx(n)', j='idx(t)'))
ax('row_mm_tr', 'lib', [a, L, i], row(mm(a, tr(L)), i) == mv(L, row(a, i)),
   [z3.MultiPattern(row(mm(a, tr(L)), i))], ['row', 'mm', 'tr'], gen=dict(a='mat(n,d)', L='mat(k,d)', i='idx(n)'))
ax('row_sq', 'lib', [a, i], row(sq(a), i) == sq(row(a, i)),
   [z3.MultiPattern(row(sq(a), i))], ['row', 'sq'], ieee=True, gen=dict(a='mat(n,d)', i='idx(n)'))
ax('at1_sumlast', 'lib', [a, i], at1(sumlast(a), i) == vsum(row(a, i)),
   [z3.MultiPattern(at1(sumlast(a), i))], ['at1', 'sumlast'], gen=dict(a='mat(n,d)', i='idx(n)'))
ax('at1_sqrtT', 'lib', [a, i], at1(sqrtT(a), i) == sqrt(at1(a, i)),
   [z3.MultiPattern(at1(sqrtT(a), i))], ['at1', 'sqrtT'], ieee=True, gen=dict(a='pvec(n)', i='idx(n)'))
ax('at1_neg', 'lib', [a, i], at1(neg(a), i) == -at1(a, i),
   [z3.MultiPattern(at1(neg(a), i))], ['at1', 'neg'], gen=dict(a='vec(n)', i='idx(n)'))
ax('at1_smul', 'lib', [a, s, i], at1(smul(s, a), i) == s * at1(a, i),
   [z3.MultiPattern(at1(smul(s, a), i))], ['at1', 'smul'], gen=dict(a='vec(n)', s='real', i='idx(n)'))
ax('at1_sub', 'lib', [a, b, i], at1(sub(a, b), i) == at1(a, i) - at1(b, i),
   [z3.MultiPattern(at1(sub(a, b), i))], ['at1', 'sub'], gen=dict(a='vec(n)', b='vec(n)', i='idx(n)'))
ax('vsum_sq', 'math', [v], vsum(sq(v)) == dot(v, v),
   [z3.MultiPattern(vsum(sq(v)))], ['vsum', 'sq'], lean='vsum_sq_eq_dot', gen=dict(v='vec(d)'))
ax('copy_id', 'lib', [a], copyT(a) == a, [z3.MultiPattern(copyT(a))], ['copyT'], ieee=True, gen=dict(a='mat(n,d)'))
ax('tr_tr', 'math', [a], tr(tr(a)) == a, [z3.MultiPattern(tr(tr(a)))], ['tr'], lean='tr_tr', ieee=True, gen=dict(a='mat(n,d)'))
# ---- vector algebra needed to identify the two closures (get_metric) with mdist
ax('vm_tr', 'math', [v, L], vm(v, tr(L)) == mv(L, v), [z3.MultiPattern(vm(v, tr(L)))], ['vm', 'tr'],
   lean='vecMul_transpose', gen=dict(v='vec(d)', L='mat(k,d)'))
# ---- def: mdist and gram
ax('mdist_def', 'def', [L, x, y], mdist(L, x, y) == sqrt(dot(mv(L, sub(x, y)), mv(L, sub(x, y)))),
   [z3.MultiPattern(mdist(L, x, y))], ['mdist'], gen=dict(L='mat(k,d)', x='vec(d)', y='vec(d)'))
ax('mdist_fold', 'def', [L, x, y], sqrt(dot(mv(L, sub(x, y)), mv(L, sub(x, y)))) == mdist(L, x, y),
   [z3.MultiPattern(mv(L, sub(x, y)))], ['mv', 'sub', 'dot'], gen=dict(L='mat(k,d)', x='vec(d)', y='vec(d)'))
ax('gram_def', 'def', [L], gram(L) == mm(tr(L), L), [z3.MultiPattern(gram(L))], ['gram'], gen=dict(L='mat(k,d)'))
ax('gram_fold', 'def', [L], mm(tr(L), L) == gram(L), [z3.MultiPattern(mm(tr(L), L))], ['mm', 'tr'], gen=dict(L='mat(k,d)'))
ax('qform_gram', 'math', [L, v], qform(gram(L), v) == dot(mv(L, v), mv(L, v)),
   [z3.MultiPattern(qform(gram(L), v)), z3.MultiPattern(mv(L, v), gram(L))], ['qform', 'gram'], lean='quad_form_gram',
   gen=dict(L='mat(k,d)', v='vec(d)'))
# ---- lib: elementwise comparisons / scalar arithmetic at a generic index (numpy semantics)
_cmpz = {'lt': lambda p_, q_: p_ < q_, 'le': lambda p_, q_: p_ <= q_, 'gt': lambda p_, q_: p_ > q_, 'ge': lambda p_, q_: p_ >= q_,
         'eq': lambda p_, q_: p_ == q_, 'ne': lambda p_, q_: p_ != q_}
for _n, _f in _cmpz.items():
  ax('at1_cmp_%s_s' % _n, 'lib', [a, s, i], at1(cmps(_n)(a, s), i) == z3.If(_f(at1(a, i), s), z3.RealVal(1), z3.RealVal(0)),
     [z3.MultiPattern(at1(cmps(_n)(a, s), i))], ['at1', 'cmp_%s_s' % _n], gen=dict(a='vec(n)', s='real', i='idx(n)'))
ax('at1_ssub', 'lib', [a, s, i], at1(ssub(a, s), i) == at1(a, i) - s, [z3.MultiPattern(at1(ssub(a, s), i))], ['at1', 'ssub'],
   gen=dict(a='vec(n)', s='real', i='idx(n)'))
ax('at1_sadd', 'lib', [a, s, i], at1(sadd(a, s), i) == at1(a, i) + s, [z3.MultiPattern(at1(sadd(a, s), i))], ['at1', 'sadd'],
   gen=dict(a='vec(n)', s='real', i='idx(n)'))
ax('at1_signT', 'lib', [a, i], at1(signT(a), i) == z3.If(at1(a, i) > 0, z3.RealVal(1), z3.If(at1(a, i) < 0, z3.RealVal(-1), z3.RealVal(0))),
   [z3.MultiPattern(at1(signT(a), i))], ['at1', 'signT'], gen=dict(a='vec(n)', i='idx(n)'))
ax('row_cols2_0', 'lib', [a, i, j, n], row(row(cols2(a, j, n), i), 0) == row(row(a, i), j),
   [z3.MultiPattern(row(cols2(a, j, n), i))], ['row', 'cols2'], ieee=True, gen=dict(a='ten(n,4,d)', i='idx(n)', j='idx(4)', n='idx(4)'))
ax('row_cols2_1', 'lib', [a, i, j, n], row(row(cols2(a, j, n), i), 1) == row(row(a, i), n),
   [z3.MultiPattern(row(cols2(a, j, n), i))], ['row', 'cols2'], ieee=True, gen=dict(a='ten(n,4,d)', i='idx(n)', j='idx(4)', n='idx(4)'))
for _n in _cmpz:
  ax('pm1_of_cmp_%s' % _n, 'math', [a, s], all_pm1(ssub(smul(z3.RealVal(2), cmps(_n)(a, s)), z3.RealVal(1))),
     [z3.MultiPattern(ssub(smul(z3.RealVal(2), cmps(_n)(a, s)), z3.RealVal(1)))], ['ssub', 'smul', 'cmp_%s_s' % _n], lean='two_mul_indicator_sub_one',
     gen=dict(a='vec(n)', s='real'))
# score of the triplet / quadruplet classifiers: mean of a +-1 vector
ax('mean_pm1', 'math', [a], z3.Implies(all_pm1(a), vmean(a) / 2 + z3.RealVal(1) / 2 == frac_pos(a)),
   [z3.MultiPattern(vmean(a))], ['vmean'], lean='mean_pm1_eq_frac_pos', gen=dict(a='pm1(n)'))
# ---- IEEE-exact sign symmetries (binary64: a-b = -(b-a), (-a)*(-a) = a*a, x-x = 0 for finite x, dot products of
# negated operands are negated [ASSUMED of the BLAS kernels]); used by the exact-identity obligations of C01
ax('fl_sub_anticomm', 'math', [a, b], sub(b, a) == neg(sub(a, b)), [z3.MultiPattern(sub(a, b))], ['sub'], lean='ml_neg_sub', ieee=True,
   gen=dict(a='mat(n,d)', b='mat(n,d)'))
ax('fl_mm_neg', 'lib', [a, b], mm(neg(a), b) == neg(mm(a, b)), [z3.MultiPattern(mm(neg(a), b))], ['mm', 'neg'], ieee=True,
   gen=dict(a='mat(n,d)', b='mat(d,k)'))
ax('fl_vm_neg', 'lib', [a, b], vm(neg(a), b) == neg(vm(a, b)), [z3.MultiPattern(vm(neg(a), b))], ['vm', 'neg'], ieee=True,
   gen=dict(a='vec(d)', b='mat(d,k)'))
ax('fl_sq_neg', 'math', [a], sq(neg(a)) == sq(a), [z3.MultiPattern(sq(neg(a)))], ['sq', 'neg'], lean='ml_neg_sq', ieee=True, gen=dict(a='mat(n,d)'))
ax('fl_dot_neg', 'lib', [a], dot(neg(a), neg(a)) == dot(a, a), [z3.MultiPattern(dot(neg(a), neg(a)))], ['dot', 'neg'], ieee=True, gen=dict(a='vec(d)'))
ax('fl_take1_cols2_0', 'lib', [a, j, n], take1(cols2(a, j, n), 0) == take1(a, j), [z3.MultiPattern(take1(cols2(a, j, n), 0))],
   ['take1', 'cols2'], ieee=True, gen=dict(a='ten(n,4,d)', j='idx(4)', n='idx(4)'))
ax('fl_take1_cols2_1', 'lib', [a, j, n], take1(cols2(a, j, n), 1) == take1(a, n), [z3.MultiPattern(take1(cols2(a, j, n), 1))],
   ['take1', 'cols2'], ieee=True, gen=dict(a='ten(n,4,d)', j='idx(4)', n='idx(4)'))
ax('fl_sub_self', 'math', [a], z3.Implies(finiteT(a), sub(a, a) == zerosl(a)), [z3.MultiPattern(sub(a, a))], ['sub'], lean='ml_sub_self', ieee=True,
   gen=dict(a='mat(n,d)'))
ax('fl_mm_zero', 'lib', [a, b], z3.Implies(finiteT(b), mm(zerosl(a), b) == zerosmm(a, b)), [z3.MultiPattern(mm(zerosl(a), b))], ['mm', 'zerosl'], ieee=True, gen=dict(a='mat(n,d)', b='mat(d,k)'))
ax('fl_vm_zero', 'lib', [a, b], z3.Implies(finiteT(b), vm(zerosl(a), b) == zerosmm(a, b)), [z3.MultiPattern(vm(zerosl(a), b))], ['vm', 'zerosl'], ieee=True, gen=dict(a='vec(d)', b='mat(d,k)'))
ax('fl_sq_zero', 'lib', [a, b], sq(zerosmm(a, b)) == zerosmm(a, b), [z3.MultiPattern(sq(zerosmm(a, b)))], ['sq', 'zerosmm'], ieee=True, gen=dict(a='mat(n,d)', b='mat(d,k)'))
ax('fl_sumlast_zero', 'lib', [a, b, i], at1(sumlast(zerosmm(a, b)), i) == 0, [z3.MultiPattern(at1(sumlast(zerosmm(a, b)), i))], ['sumlast', 'zerosmm'], ieee=True, gen=dict(a='mat(n,d)', b='mat(d,k)', i='idx(n)'))
ax('fl_dot_zero', 'lib', [a, b], dot(zerosmm(a, b), zerosmm(a, b)) == 0, [z3.MultiPattern(dot(zerosmm(a, b), zerosmm(a, b)))], ['dot', 'zerosmm'], ieee=True, gen=dict(a='vec(d)', b='mat(d,k)'))
ax('sqrt_zero', 'math', [], sqrt(z3.RealVal(0)) == 0, [], ['sqrt'], lean='Real.sqrt_zero', ieee=True)
ax('gram_symm', 'math', [L], tr(gram(L)) == gram(L), [z3.MultiPattern(tr(gram(L)))], ['tr', 'gram'], lean='gram_transpose', gen=dict(L='mat(k,d)'))
ax('mv_sub', 'math', [L, x, y], sub(mv(L, x), mv(L, y)) == mv(L, sub(x, y)), [z3.MultiPattern(sub(mv(L, x), mv(L, y)))], ['sub', 'mv'],
   lean='mulVec_sub', gen=dict(L='mat(k,d)', x='vec(d)', y='vec(d)'))
ax('vmax_abs_nonneg', 'math', [a], vmax(absT(a)) >= 0, [z3.MultiPattern(vmax(absT(a)))], ['vmax', 'absT'], lean='max_abs_nonneg', gen=dict(a='vec(n)'))
ax('eps_pos', 'math', [], EPS > 0, [], [], lean='machine epsilon is positive (definition)')
ax('eps_of_pos', 'math', [a], eps_of(a) > 0, [z3.MultiPattern(eps_of(a))], ['eps_of'], lean='machine epsilon is positive (definition)')
# ---- lib: any() over comparison vectors (numpy/python semantics of any, abs, len at the element level)
ax('any_elim', 'lib', [b], z3.Implies(anyT(b), z3.And(wit(b) >= 0, wit(b) < lenT(b), at1(b, wit(b)) != 0)), [z3.MultiPattern(anyT(b))], ['anyT'])
for _n, _f in _cmpz.items():
  ax('any_intro_%s' % _n, 'lib', [a, s, i], z3.Implies(z3.And(i >= 0, i < lenT(a), _f(at1(a, i), s)), anyT(cmps(_n)(a, s))),
     [z3.MultiPattern(at1(a, i), cmps(_n)(a, s))], ['anyT', 'cmp_%s_s' % _n], gen=dict(a='vec(n)', s='real', i='idx(n)'))
  ax('len_cmp_%s' % _n, 'lib', [a, s], lenT(cmps(_n)(a, s)) == lenT(a), [z3.MultiPattern(lenT(cmps(_n)(a, s)))], ['lenT', 'cmp_%s_s' % _n],
     gen=dict(a='vec(n)', s='real'))
ax('len_abs', 'lib', [a], lenT(absT(a)) == lenT(a), [z3.MultiPattern(absT(a))], ['absT'], gen=dict(a='vec(n)'))
ax('at1_abs', 'lib', [a, i], at1(absT(a), i) == z3.If(at1(a, i) >= 0, at1(a, i), -at1(a, i)), [z3.MultiPattern(at1(a, i), absT(a))], ['at1', 'absT'],
   gen=dict(a='vec(n)', i='idx(n)'))
ax('squeeze1_addaxis1', 'lib', [a], squeeze1(addaxis1(a)) == a, [z3.MultiPattern(squeeze1(addaxis1(a)))], ['squeeze1', 'addaxis1'], ieee=True,
   gen=dict(a='mat(n,d)'))
ax('at1_upd1', 'lib', [a, i, j, s], at1(upd1(a, i, s), j) == z3.If(j == i, s, at1(a, j)), [z3.MultiPattern(at1(upd1(a, i, s), j))], ['at1', 'upd1'],
   gen=dict(a='vec(n)', i='idx(n)', j='idx(n)', s='real'))
ax('len_upd1', 'lib', [a, i, s], lenT(upd1(a, i, s)) == lenT(a), [z3.MultiPattern(lenT(upd1(a, i, s)))], ['lenT', 'upd1'], gen=dict(a='vec(n)', i='idx(n)', s='real'))
ax('at1_zeros_', 'lib', [n, j], at1(zeros(n), j) == 0, [z3.MultiPattern(at1(zeros(n), j))], ['at1', 'zeros'])
_m = z3.Const('m', T)
ax('at1_sdivwhere', 'lib', [s, a, _m, j], at1(sdivwhere(s, a, _m), j) == z3.If(at1(_m, j) != 0, s / at1(a, j), at1(a, j)),
   [z3.MultiPattern(at1(sdivwhere(s, a, _m), j))], ['at1', 'sdivwhere'], gen=dict(s='real', a='pvec(n)', m='bvec(n)', j='idx(n)'))
ax('at1_setmask', 'lib', [a, _m, s, j], at1(setmask(a, _m, s), j) == z3.If(at1(_m, j) != 0, s, at1(a, j)),
   [z3.MultiPattern(at1(setmask(a, _m, s), j))], ['at1', 'setmask'], gen=dict(a='vec(n)', m='bvec(n)', s='real', j='idx(n)'))
ax('at1_notT', 'lib', [a, j], at1(notT(a), j) == 1 - at1(a, j), [z3.MultiPattern(at1(notT(a), j))], ['at1', 'notT'], gen=dict(a='bvec(n)', j='idx(n)'))
ax('at1_setwhere_eq', 'lib', [a, s, t, j], at1(setwhere_eq(a, s, t), j) == z3.If(at1(a, j) == s, t, at1(a, j)),
   [z3.MultiPattern(at1(setwhere_eq(a, s, t), j))], ['at1', 'setwhere_eq'], gen=dict(a='vec(n)', s='real', t='real', j='idx(n)'))
ax('pd_eye', 'math', [n], pd(eye(n)), [z3.MultiPattern(eye(n))], ['eye'], lean='posDef_one')
# ---- lib: elementwise operations at a generic element of a rank-2 array
ii = z3.Int('ii')
_el2 = [('add', lambda x_, y_: add(x_, y_), lambda p_, q_: p_ + q_, 2), ('sub', lambda x_, y_: sub(x_, y_), lambda p_, q_: p_ - q_, 2),
        ('mul', lambda x_, y_: mul(x_, y_), lambda p_, q_: p_ * q_, 2)]
for _n, _mk, _f, _ar in _el2:
  ax('at2_%s' % _n, 'lib', [a, b, ii, j], at2(_mk(a, b), ii, j) == _f(at2(a, ii, j), at2(b, ii, j)), [z3.MultiPattern(at2(_mk(a, b), ii, j))], ['at2', _n],
     gen=dict(a='mat(n,d)', b='mat(n,d)', ii='idx(n)', j='idx(d)'))
ax('at2_sq', 'lib', [a, ii, j], at2(sq(a), ii, j) == at2(a, ii, j) * at2(a, ii, j), [z3.MultiPattern(at2(sq(a), ii, j))], ['at2', 'sq'],
   gen=dict(a='mat(n,d)', ii='idx(n)', j='idx(d)'))
ax('at2_sqrtT', 'lib', [a, ii, j], at2(sqrtT(a), ii, j) == sqrt(at2(a, ii, j)), [z3.MultiPattern(at2(sqrtT(a), ii, j))], ['at2', 'sqrtT'],
   gen=dict(a='pmat(n,d)', ii='idx(n)', j='idx(d)'))
ax('at2_sadd', 'lib', [a, s, ii, j], at2(sadd(a, s), ii, j) == at2(a, ii, j) + s, [z3.MultiPattern(at2(sadd(a, s), ii, j))], ['at2', 'sadd'],
   gen=dict(a='mat(n,d)', s='real', ii='idx(n)', j='idx(d)'))
ax('at2_smul', 'lib', [a, s, ii, j], at2(smul(s, a), ii, j) == s * at2(a, ii, j), [z3.MultiPattern(at2(smul(s, a), ii, j))], ['at2', 'smul'],
   gen=dict(a='mat(n,d)', s='real', ii='idx(n)', j='idx(d)'))
ax('at2_sdivl', 'lib', [a, s, ii, j], z3.Implies(at2(a, ii, j) != 0, at2(sdivl(s, a), ii, j) * at2(a, ii, j) == s), [z3.MultiPattern(at2(sdivl(s, a), ii, j))],
   ['at2', 'sdivl'], gen=dict(a='pmat(n,d)', s='real', ii='idx(n)', j='idx(d)'))
ax('at2_minimum_s', 'lib', [a, s, ii, j], at2(minimum_s(s, a), ii, j) == z3.If(at2(a, ii, j) <= s, at2(a, ii, j), s),
   [z3.MultiPattern(at2(minimum_s(s, a), ii, j))], ['at2', 'minimum_s'], gen=dict(a='mat(n,d)', s='real', ii='idx(n)', j='idx(d)'))
ax('at2_zeros2', 'lib', [n, i, ii, j], at2(zeros2(n, i), ii, j) == 0, [z3.MultiPattern(at2(zeros2(n, i), ii, j))], ['at2', 'zeros2'])
ax('clip_psd', 'math', [a, v, s], z3.Implies(s >= 0, psd(mm(colscale2(a, maximum_s(s, v)), tr(a)))), [z3.MultiPattern(mm(colscale2(a, maximum_s(s, v)), tr(a)))],
   ['mm', 'colscale2', 'maximum_s', 'tr'], lean='clip_psd', gen=dict(a='mat(d,d)', v='row(d)', s='nnreal'))
# ---- conversion of a PSD matrix to a transformation (C20; Lean: lean/diag_eig_clip_basis.lean, lean/psd_spectrum.lean)
ax('diag_sqrt_clip_gram', 'math', [v, s], z3.Implies(s >= 0, mm(tr(diagm(sqrtT(maximum_s(s, v)))), diagm(sqrtT(maximum_s(s, v)))) == diagm(maximum_s(s, v))),
   [z3.MultiPattern(diagm(sqrtT(maximum_s(s, v))))], ['diagm', 'sqrtT', 'maximum_s'], lean='diag_sqrt_clip_gram', gen=dict(v='vec(d)', s='nnreal'))
ax('eig_factor_gram_clip', 'math', [a, v, s],
   z3.Implies(s >= 0, mm(tr(rowscale(tr(a), sqrtT(maximum_s(s, addaxis1(v))))), rowscale(tr(a), sqrtT(maximum_s(s, addaxis1(v)))))
              == mm(colscale(a, maximum_s(s, v)), tr(a))),
   [z3.MultiPattern(rowscale(tr(a), sqrtT(maximum_s(s, addaxis1(v)))))], ['rowscale', 'sqrtT', 'maximum_s', 'addaxis1', 'tr'],
   lean='eig_factor_gram_clip', gen=dict(a='mat(d,d)', v='vec(d)', s='nnreal'))
ax('max_floor_id', 'math', [v, s], z3.Implies(z3.Not(anyT(cmps('lt')(v, s))), maximum_s(s, v) == v), [z3.MultiPattern(maximum_s(s, v))],
   ['maximum_s'], lean='max_floor_id', gen=dict(v='pvec(d)', s='real'))
ax('psd_diag_nonneg', 'math', [a], z3.Implies(psd(a), z3.Not(anyT(cmps('lt')(diagv(a), z3.RealVal(0))))), [z3.MultiPattern(psd(a), diagv(a))],
   ['diagv'], lean='psd_diag_nonneg')
ax('psd_eigvals_nonneg', 'math', [a], z3.Implies(z3.And(psd(a), a == tr(a)), z3.Not(anyT(cmps('lt')(eigvals(a), z3.RealVal(0))))),
   [z3.MultiPattern(psd(a), eigvals(a))], ['eigvals'], lean='psd_eigvals_nonneg')
ax('eigh_reconstruct', 'lib', [a], z3.Implies(a == tr(a), mm(colscale(eigvecs(a), eigvals(a)), tr(eigvecs(a))) == a),
   [z3.MultiPattern(eigvecs(a), eigvals(a))], ['eigvecs', 'eigvals'], gen=dict(a='spd(d)'))
ax('chol_factor', 'lib', [a], z3.Implies(is_pd(a), mm(chol(a), tr(chol(a))) == a), [z3.MultiPattern(chol(a))], ['chol'], gen=dict(a='spd(d)'))
ax('atleast2d_cov', 'def', [a], atleast2d(cov(a)) == cov(a), [z3.MultiPattern(atleast2d(cov(a)))], ['atleast2d', 'cov'], gen=dict(a='mat(n,d)'))
ax('atleast2d_covb', 'def', [a], atleast2d(covb(a)) == covb(a), [z3.MultiPattern(atleast2d(covb(a)))], ['atleast2d', 'covb'], gen=dict(a='mat(n,d)'))
# ---- index arrays (C07): np.where, fancy indexing, transposition at a generic position
_k = z3.Int('k')
ax('where_elems', 'lib', [a, j], z3.Implies(z3.And(j >= 0, j < lenT(whereT(a))),
                                            z3.And(at1(whereT(a), j) >= 0, at1(whereT(a), j) < z3.ToReal(lenT(a)), z3.IsInt(at1(whereT(a), j)),
                                                   at1(a, z3.ToInt(at1(whereT(a), j))) != 0)),
   [z3.MultiPattern(at1(whereT(a), j))], ['whereT', 'at1'], gen=dict(a='bvec(n)', j='idx(n)'))
ax('where_increasing', 'lib', [a, j, _k], z3.Implies(z3.And(j >= 0, j < _k, _k < lenT(whereT(a))), at1(whereT(a), j) < at1(whereT(a), _k)),
   [z3.MultiPattern(at1(whereT(a), j), at1(whereT(a), _k))], ['whereT', 'at1'], gen=dict(a='bvec(n)', j='idx(n)', k='idx(n)'))
ax('where_len', 'lib', [a], z3.And(lenT(whereT(a)) >= 0, lenT(whereT(a)) <= lenT(a)), [z3.MultiPattern(whereT(a))], ['whereT'], gen=dict(a='bvec(n)'))
ax('at1_takev', 'lib', [a, b, j], at1(takev(a, b), j) == at1(a, z3.ToInt(at1(b, j))), [z3.MultiPattern(at1(takev(a, b), j))], ['takev', 'at1'],
   gen=dict(a='vec(n)', b='ivec(n)', j='idx(n)'))
ax('len_takev', 'lib', [a, b], lenT(takev(a, b)) == lenT(b), [z3.MultiPattern(takev(a, b))], ['takev'], gen=dict(a='vec(n)', b='ivec(n)'))
ax('at2_itake', 'lib', [a, b, i, j], at2(itake(a, b), i, j) == at1(a, z3.ToInt(at2(b, i, j))), [z3.MultiPattern(at2(itake(a, b), i, j))], ['itake', 'at2'])
ax('at2_tr', 'lib', [a, i, j], at2(tr(a), i, j) == at2(a, j, i), [z3.MultiPattern(at2(tr(a), i, j))], ['tr', 'at2'], gen=dict(a='mat(n,d)', i='idx(d)', j='idx(n)'))
slice0 = sym('slice0', (T, I), T, lambda a, n_: a[:int(n_)])           # a[:n]
ax('at1_row', 'lib', [a, i, j], at1(row(a, i), j) == at2(a, i, j), [z3.MultiPattern(at1(row(a, i), j))], ['row', 'at1'], gen=dict(a='mat(n,d)', i='idx(n)', j='idx(d)'))
ax('at1_slice0', 'lib', [a, n, j], z3.Implies(z3.And(j >= 0, j < n), at1(slice0(a, n), j) == at1(a, j)), [z3.MultiPattern(at1(slice0(a, n), j))], ['slice0', 'at1'],
   gen=dict(a='vec(n)', n='idx(n)', j='idx(n)'))
ax('array_equal_eq', 'def', [a, b], z3.Implies(array_equal(a, b), a == b), [z3.MultiPattern(array_equal(a, b))], ['array_equal'])
# ---- math: positive definite matrices (Lean: lean/itml_rank_one.lean)
ax('pd_quad_pos', 'math', [a, v], z3.Implies(z3.And(pd(a), nonzero(v)), dot(vm(v, a), v) > 0), [z3.MultiPattern(dot(vm(v, a), v))], ['dot', 'vm'],
   lean='posDef_quad_pos', gen=dict(a='spd(d)', v='vec(d)'))
ax('pd_rank_one', 'math', [a, v, s], z3.Implies(z3.And(pd(a), 1 + s * dot(vm(v, a), v) > 0), pd(add(a, outer(mv(a, v), smul(s, mv(a, v)))))),
   [z3.MultiPattern(add(a, outer(mv(a, v), smul(s, mv(a, v)))))], ['add', 'outer', 'mv', 'smul'], lean='rank_one_posDef', gen=dict(a='spd(d)', v='vec(d)', s='real'))
# ---- math: real sqrt
ax('sqrt_nonneg', 'math', [s], sqrt(s) >= 0, [z3.MultiPattern(sqrt(s))], ['sqrt'], lean='Real.sqrt_nonneg', gen=dict(s='nnreal'))
ax('sqrt_sq', 'math', [s], z3.Implies(s >= 0, sqrt(s) * sqrt(s) == s), [z3.MultiPattern(sqrt(s))], ['sqrt'],
   lean='Real.mul_self_sqrt', gen=dict(s='real'))
ax('dot_self_nonneg', 'math', [v], dot(v, v) >= 0, [z3.MultiPattern(dot(v, v))], ['dot'], lean='dot_self_nonneg', gen=dict(v='vec(d)'))
# ---- math: the metric axioms of d_L (Lean: lean/MetricAxioms.lean)
ax('mdist_nonneg', 'math', [L, x, y], mdist(L, x, y) >= 0, [z3.MultiPattern(mdist(L, x, y))], ['mdist'],
   lean='mdist_nonneg', gen=dict(L='mat(k,d)', x='vec(d)', y='vec(d)'))
ax('mdist_self', 'math', [L, x], mdist(L, x, x) == 0, [z3.MultiPattern(mdist(L, x, x))], ['mdist'],
   lean='mdist_self', gen=dict(L='mat(k,d)', x='vec(d)'))
ax('mdist_symm', 'math', [L, x, y], mdist(L, x, y) == mdist(L, y, x), [z3.MultiPattern(mdist(L, x, y))], ['mdist'],
   lean='mdist_comm', gen=dict(L='mat(k,d)', x='vec(d)', y='vec(d)'))
ax('mdist_triangle', 'math', [L, x, y, z], mdist(L, x, z) <= mdist(L, x, y) + mdist(L, y, z),
   [z3.MultiPattern(mdist(L, x, y), mdist(L, y, z))], ['mdist'], lean='mdist_triangle',
   gen=dict(L='mat(k,d)', x='vec(d)', y='vec(d)', z='vec(d)'))


def select_axioms(terms, extra_heads=(), closure=True, rounds=None):
  """axioms whose head symbols all occur in the given z3 terms (closure: axioms can introduce symbols; rounds=k: at most k rounds of that)"""
  seen = set(extra_heads)

  def walk(t, acc, visited):
    if t.get_id() in visited:
      return
    visited.add(t.get_id())
    if z3.is_app(t):
      acc.add(t.decl().name())
      for ch in t.children():
        walk(ch, acc, visited)
    elif z3.is_quantifier(t):
      walk(t.body(), acc, visited)
  visited = set()
  for t in terms:
    walk(t, seen, visited)
  chosen = []
  changed = True
  n_round = 0
  while changed:
    changed = False
    new = []
    for a_ in AXIOMS:
      if a_.name.startswith('fl_'):
        continue          # sign-symmetry identities: only loaded for the exact-identity obligations (axioms_only='ieee')
      if a_ not in chosen and a_ not in new and a_.heads <= seen:
        new.append(a_)
    chosen += new
    if new and closure and (rounds is None or n_round < rounds):
      for a_ in new:
        walk(a_.formula, seen, visited)
      changed = True
      n_round += 1
  return chosen

