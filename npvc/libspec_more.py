"""libspec entries: scikit-learn validators/metrics, numpy constructors and linear algebra, scipy."""
import ast
import z3

from .values import *
from .exec import Unsupported, feasible
from .libspec import Cx, promote, FRESH, is_arr
from . import theory as TH


def kwbool(v, default):
  """concrete option value, or None when the option is symbolic (handlers then take the conservative reading)"""
  if v is None:
    return default
  if isinstance(v, VBool):
    return v.conc()
  if isinstance(v, (VOpaque, VRef)):
    return None
  if isinstance(v, VNone):
    return default
  if isinstance(v, VStr):
    return v.s
  raise Unsupported('option value %r' % (v,))


def kwint(v, default):
  if v is None:
    return z3.IntVal(default)
  if isinstance(v, VInt):
    return v.t
  if isinstance(v, VBool):
    return z3.If(v.t, 1, 0)
  raise Unsupported('integer option %r' % (v,))


def install(lib, np_):
  ext, method = lib.ext, lib.method
  from .libspec_np import VShapeOf, VVarsOf, bshape, wrap_scalar, scalar_term

  # --------------------------------------------------------------------------- membership `x in vars(self)`
  def contains(cx, container, item):
    if isinstance(container, VVarsOf) and isinstance(item, VStr):
      h = cx.p.heap[container.obj.oid]
      if item.s in h:
        return z3.BoolVal(True)
      if item.s in h.get('__absent__', ()) or h.get('__closed__'):
        return z3.BoolVal(False)
      raise Unsupported('presence of attribute %s not declared by the contract' % item.s)
    if isinstance(container, VArr) and isinstance(item, (VInt, VReal)):
      return fresh('in_array', z3.BoolSort())
    return None
  np_.contains = contains

  # ------------------------------------------------------------------------------------ sklearn validators
  CHECK_ARRAY_DOC = ('ASSUMED (scikit-learn): returns an ndarray holding the same numbers and shape as the input '
                     '(a copy iff copy=True, otherwise it may share memory); raises ValueError iff ndim<2 with ensure_2d, '
                     'ndim>=3 without allow_nd, fewer than ensure_min_samples rows, (2-D) fewer than ensure_min_features '
                     'columns, non-finite entries with ensure_all_finite, or data not convertible to the requested dtype')

  def check_array_core(cx, a, kw, what='check_array'):
    p = cx.p
    opts = {k: v for k, v in kw.items()}
    ensure_2d = kwbool(opts.get('ensure_2d'), True)
    allow_nd = kwbool(opts.get('allow_nd'), False)
    copy = kwbool(opts.get('copy'), False)
    min_s = kwint(opts.get('ensure_min_samples'), 1)
    min_f = kwint(opts.get('ensure_min_features'), 1)
    finite_opt = opts.get('ensure_all_finite', opts.get('force_all_finite'))
    finite = kwbool(finite_opt, True)
    dtype = opts.get('dtype')
    if dtype is None:
      dkind = 'numeric'
    elif isinstance(dtype, VStr):
      dkind = dtype.s
    elif isinstance(dtype, (VNone, VOpaque, VRef)):
      dkind = None
    else:
      dkind = lib.dtype_kind(dtype)
    p.events.append(('check_array', cx.line(), dict(ensure_2d=ensure_2d, allow_nd=allow_nd, copy=copy, finite=finite,
                                                    dtype=dkind, min_samples=str(z3.simplify(min_s)),
                                                    min_features=str(z3.simplify(min_f)))))
    if isinstance(a, (VList, VTuple, VRef, VOpaque)):
      # array-like of unknown structure: result is an ndarray of unknown rank
      nd = fresh('ca.ndim', z3.IntSort())
      dims = z3.Function(fresh_name('ca.dim'), z3.IntSort(), z3.IntSort())
      p.assume(nd >= 0)
      p.assume(nd <= 6)
      k = z3.Int('k!ca')
      p.assume(z3.ForAll([k], dims(k) >= 0))
      src_term = fresh('ca', T)
      a_st = ArrState(src_term, Shape(nd, dims), 'f', FRESH)
      cx.may_raise('ValueError', None, what + ' cannot convert the array-like')
      owner = FRESH
      base = None
    elif isinstance(a, VArr):
      a_st = cx.st(a)
      owner = FRESH if copy is True else a_st.owner
      base = None if copy is True else (a.loc, a_st.version)
    else:
      if isinstance(a, VNone):
        cx.ex.raise_(p, 'ValueError', what + ' of None')
        return []
      raise Unsupported('%s of %r' % (what, a))
    sh = a_st.shape
    nd = sh.ndim()
    conds = []
    if ensure_2d is None or allow_nd is None:
      raise Unsupported('symbolic ensure_2d / allow_nd')
    if ensure_2d:
      conds.append(nd < 2)
    if not allow_nd:
      conds.append(nd >= 3)
    conds.append(z3.And(nd >= 1, sh.dim(0) < min_s))
    conds.append(z3.And(nd == 2, sh.dim(1) < min_f)) if not sh.concrete or sh.rank == 2 else None
    conds = [c for c in conds if c is not None]
    shape_bad = z3.simplify(z3.Or(*conds)) if conds else z3.BoolVal(False)
    cx.may_raise('ValueError', shape_bad, what + ' shape requirements')
    if finite is None or finite == 'allow-nan':
      cx.may_raise('ValueError', None, what + ' non-finite input (option symbolic)')
    elif finite:
      cx.may_raise('ValueError', TH.nonfinite(a_st.term) if a_st.term is not None else None, what + ' non-finite input')
    if dkind == 'numeric' and a_st.kind == 'O':
      cx.may_raise('ValueError', None, what + ' non-numeric data')
    kind = a_st.kind if dkind in ('numeric', None) else dkind
    if not feasible(p.pc):
      return []
    res = p.new_loc(ArrState(a_st.term, sh, kind, owner, base))
    return res

  @ext(['sklearn.utils.check_array', 'sklearn.utils.validation.check_array'], CHECK_ARRAY_DOC)
  def _check_array(cx, array, *args, **kw):
    if args:
      raise Unsupported('positional options to check_array')
    return check_array_core(cx, array, kw)

  @ext('sklearn.utils.validation.check_X_y',
       'ASSUMED (scikit-learn): check_array on X with the given options; y converted to a 1-D (or 2-D with multi_output) '
       'array of the same numbers; raises ValueError iff X is rejected, y is not 1-D, y contains non-finite values or '
       'len(X) != len(y); raises TypeError iff X is a 0-d array (observed on scikit-learn 1.9.1)')
  def _check_X_y(cx, X, y, **kw):
    p = cx.p
    kwx = {k: v for k, v in kw.items() if k not in ('multi_output', 'y_numeric')}
    if isinstance(X, VArr):
      # scikit-learn's consistent-length check has no length for a 0-d array: TypeError, not ValueError
      cx.may_raise('TypeError', cx.st(X).shape.ndim() == 0, 'check_X_y: singleton array cannot be considered a valid collection')
    r = check_array_core(cx, X, kwx, 'check_X_y')
    if r == []:
      return []
    xs = cx.st(r)
    if isinstance(y, VArr):
      ys = cx.st(y)
      yres = p.new_loc(ArrState(ys.term, ys.shape, ys.kind, ys.owner, (y.loc, ys.version)))
      if ys.shape.concrete:
        if ys.shape.rank != 1:
          cx.may_raise('ValueError', None, 'y should be a 1d array')
        cx.may_raise('ValueError', z3.And(xs.shape.ndim() >= 1, xs.shape.dim(0) != ys.shape.dims[0]),
                     'inconsistent numbers of samples')
      else:
        cx.may_raise('ValueError', None, 'y shape')
      cx.may_raise('ValueError', TH.nonfinite(ys.term) if ys.term is not None else None, 'y non-finite')
    else:
      n = fresh('ylen', z3.IntSort())
      p.assume(n >= 0)
      cx.may_raise('ValueError', None, 'y not convertible / wrong shape / length mismatch')
      p.assume(z3.Implies(xs.shape.ndim() >= 1, n == xs.shape.dim(0)))
      yres = cx.new(fresh('y', T), [n], 'f')
    if not feasible(p.pc):
      return []
    return VTuple([r, yres])

  @ext('sklearn.utils.validation.check_is_fitted',
       'ASSUMED (scikit-learn): raises NotFittedError iff none/any of the named attributes is missing (all_or_any=all)')
  def _check_is_fitted(cx, est, attributes=None, **kw):
    p = cx.p
    if not isinstance(est, VObj):
      raise Unsupported('check_is_fitted on %r' % (est,))
    names = [attributes] if isinstance(attributes, VStr) else (attributes.items if attributes is not None else [])
    h = p.heap[est.oid]
    p.events.append(('check_is_fitted', tuple(n.s for n in names)))
    for n in names:
      if n.s in h:
        continue
      if n.s in h.get('__absent__', ()) or h.get('__closed__'):
        cx.ex.raise_(p, 'NotFittedError', 'check_is_fitted(%s)' % n.s)
        return []
      raise Unsupported('fittedness of attribute %s not declared by the contract' % n.s)
    return VNone()

  @ext('sklearn.utils.validation._is_arraylike', 'ASSUMED: True for objects with __len__/shape/__array__, False for None and callables')
  def _is_arraylike(cx, x):
    if isinstance(x, (VArr, VList, VTuple)):
      return VBool(True)
    if isinstance(x, (VNone, VFunc, VInt, VReal, VBool)):
      return VBool(False)
    if isinstance(x, VRef) and x.types is not None:
      return VBool('arraylike' in x.types)
    if isinstance(x, VRef):
      t = z3.Function('is_arraylike', Ref, z3.BoolSort())(x.t)
      cx.p.assume(z3.Implies(x.t == NONE_REF, z3.Not(t)))
      return VBool(t)
    raise Unsupported('_is_arraylike(%r)' % (x,))

  @ext('sklearn.metrics.roc_auc_score', 'ASSUMED: area under the ROC curve of the scores w.r.t. y; ValueError for non-binary y / length mismatch')
  def _roc_auc(cx, y, s, **kw):
    cx.may_raise('ValueError', None, 'roc_auc_score input validation')
    yt = cx.st(y).term if isinstance(y, VArr) else fresh('y', T)
    stt = cx.st(s).term if isinstance(s, VArr) else fresh('s', T)
    return VReal(TH.roc_auc(yt, stt))

  # ------------------------------------------------------------------------- user callables (preprocessor)
  def opaque_call(cx, f, *args, **kw):
    """ASSUMED about a user-supplied callable: it may raise any Exception; otherwise it returns an ndarray of
    rank 0..3 (ranks >= 4 are not explored) that is a function of its argument only (papply)"""
    p = cx.p
    cx.may_raise('Exception', None, 'user callable raised')
    if len(args) != 1 or kw:
      raise Unsupported('opaque callable with %d args' % len(args))
    a = args[0]
    at = cx.st(a).term if isinstance(a, VArr) else fresh('arg', T)
    p.events.append(('opaque-call', str(f.t)))
    out = []
    for r in range(4):
      q = p.fork() if r < 3 else p
      dims = [fresh('pd%d' % k, z3.IntSort()) for k in range(r)]
      for d in dims:
        q.assume(d >= 0)
      q.assume(TH.prank(f.t, at) == r)
      v = q.new_loc(ArrState(TH.papply(f.t, at), Shape(r, dims), 'f', FRESH))
      out.append((q, v))
    return out
  lib.opaque_call = opaque_call
  lib.assumed['user callable (preprocessor)'] = opaque_call.__doc__.strip()

  @ext('numpy.column_stack', 'ASSUMED: arrays of rank >= 2 are concatenated along axis 1 (rank-1 arrays become columns); ValueError when the other dimensions differ')
  def _column_stack(cx, seq):
    p = cx.p
    if isinstance(seq, VSymList):
      e = seq.elem
      if not isinstance(e, VArr):
        raise Unsupported('column_stack of non-arrays')
      st = cx.st(e)
      cx.may_raise('ValueError', None, 'column_stack: dimensions of the stacked arrays differ')
      if st.shape.rank < 2:
        dims = [st.shape.dims[0] if st.shape.rank == 1 else z3.IntVal(1), seq.n]
      else:
        dims = [st.shape.dims[0], seq.n * st.shape.dims[1]] + list(st.shape.dims[2:])
      res = cx.new(fresh('cstack', T), [z3.simplify(d) for d in dims], st.kind)
      # value: column i of the result is element i of the list (stated for the generic index, hence for all)
      if st.term is not None and st.shape.rank >= 2:
        rt = cx.st(res).term
        i = seq.i
        body = z3.Implies(z3.And(i >= 0, i < seq.n), TH.take1(rt, i) == TH.squeeze1(st.term))
        p.assume(z3.ForAll([i], body, patterns=[TH.take1(rt, i)]))
      return res
    if isinstance(seq, (VList, VTuple)):
      arrs = seq.items
      sts = [cx.st(a) for a in arrs]
      if all(s_.shape.rank == 1 for s_ in sts):
        n = sts[0].shape.dims[0]
        for s_ in sts[1:]:
          cx.may_raise('ValueError', s_.shape.dims[0] != n, 'column_stack length mismatch')
        term = TH.cstack2(sts[0].term, sts[1].term) if len(sts) == 2 and all(s_.term is not None for s_ in sts) else None
        res = cx.new(term, [n, len(arrs)], promote(*[s_.kind for s_ in sts]))
        cx.p.store[res.loc] = cx.p.store[res.loc].replace(tag=('cstack', tuple(a_.loc for a_ in arrs)))
        return res
      if all(s_.shape.rank == 2 for s_ in sts):
        n = sts[0].shape.dims[0]
        tot = sts[0].shape.dims[1]
        for s_ in sts[1:]:
          cx.may_raise('ValueError', s_.shape.dims[0] != n, 'column_stack length mismatch')
          tot = tot + s_.shape.dims[1]
        return cx.new(None, [n, z3.simplify(tot)], promote(*[s_.kind for s_ in sts]))
    raise Unsupported('column_stack of %r' % (seq,))

  # ------------------------------------------------------------------------------------- numpy constructors
  @ext('numpy.asarray')
  def _asarray(cx, a, dtype=None, order=None, **kw):
    if isinstance(a, VArr):
      st = cx.st(a)
      k = lib.dtype_kind(dtype) if dtype is not None else None
      return cx.p.new_loc(ArrState(st.term, st.shape, k or st.kind, st.owner, (a.loc, st.version)))
    if isinstance(a, (VInt, VReal, VBool)):
      return cx.new(None, [], 'f')
    if isinstance(a, (VRef, VList, VTuple, VOpaque)):
      nd = fresh('asarray.ndim', z3.IntSort())
      dims = z3.Function(fresh_name('asarray.dim'), z3.IntSort(), z3.IntSort())
      cx.p.assume(nd >= 0)
      cx.p.assume(nd <= 6)
      cx.may_raise('ValueError', None, 'asarray of ragged / unconvertible input')
      return cx.p.new_loc(ArrState(fresh('asarray', T), Shape(nd, dims), 'f', FRESH))
    raise Unsupported('asarray(%r)' % (a,))
  ext('numpy.asanyarray')(_asarray)
  ext('numpy.ascontiguousarray', 'ASSUMED: the same values in row-major memory; MAY BE THE ARGUMENT ITSELF (no copy when it is already C-contiguous)')(_asarray)

  @ext('numpy.atleast_1d')
  def _atleast_1d(cx, a):
    st = cx.st(a)
    if st.shape.concrete:
      if st.shape.rank >= 1:
        return a
      return cx.new(st.term, [1], st.kind, st.owner)
    nd = fresh('al1.ndim', z3.IntSort())
    cx.p.assume(nd == z3.If(st.shape.ndim() < 1, 1, st.shape.ndim()))
    dims = z3.Function(fresh_name('al1.dim'), z3.IntSort(), z3.IntSort())
    return cx.p.new_loc(ArrState(st.term, Shape(nd, dims), st.kind, st.owner, (a.loc, st.version)))

  @ext('numpy.atleast_2d')
  def _atleast_2d(cx, a):
    if isinstance(a, (VReal, VInt)):
      return cx.new(TH.mat11(scalar_term(cx, a)), [1, 1], 'f')
    st = cx.st(a)
    if st.shape.rank >= 2:
      return a
    if st.shape.rank == 0:
      return cx.new(TH.atleast2d(st.term) if st.term is not None else None, [1, 1], st.kind, st.owner)
    return cx.new(None, [1, st.shape.dims[0]], st.kind, st.owner, base=(a.loc, st.version))

  @ext('numpy.eye')
  def _eye(cx, n, m=None, **kw):
    nt = n.t
    mt = m.t if isinstance(m, VInt) else nt
    sq_ = z3.is_true(z3.simplify(nt == mt)) or nt.eq(mt)
    return cx.new(TH.eye(nt) if sq_ else TH.eye2(nt, mt), [nt, mt], 'f')

  def shape_arg(cx, shape):
    if isinstance(shape, VInt):
      return [shape.t]
    if isinstance(shape, (VTuple, VList)):
      return [x.t for x in shape.items]
    raise Unsupported('shape argument %r' % (shape,))

  @ext('numpy.zeros')
  def _zeros(cx, shape, dtype=None, **kw):
    dims = shape_arg(cx, shape)
    k = lib.dtype_kind(dtype) if dtype is not None else 'f'
    t_ = TH.zeros(dims[0]) if len(dims) == 1 else TH.zeros2(dims[0], dims[1]) if len(dims) == 2 else None
    return cx.new(t_, dims, k or 'f')

  @ext('numpy.ones')
  def _ones(cx, shape, dtype=None, **kw):
    dims = shape_arg(cx, shape)
    return cx.new(None, dims, (lib.dtype_kind(dtype) if dtype is not None else 'f') or 'f')

  @ext('numpy.empty')
  def _empty(cx, shape, dtype=None, **kw):
    dims = shape_arg(cx, shape)
    return cx.new(None, dims, (lib.dtype_kind(dtype) if dtype is not None else 'f') or 'f')

  def like(name):
    def h(cx, a, dtype=None, **kw):
      st = cx.st(a)
      k = (lib.dtype_kind(dtype) if dtype is not None else None) or st.kind
      f = getattr(TH, name, None)
      return cx.new(f(st.term) if f is not None and st.term is not None else None, st.shape.dims, k)
    return h
  ext('numpy.ones_like')(like('ones_like'))
  ext('numpy.zeros_like')(like('zeros_like'))

  @ext('numpy.array_equal', 'ASSUMED: True iff same shape and all elements equal')
  def _array_equal(cx, a, b, **kw):
    sa, sb = cx.st(a), cx.st(b)
    if sa.term is not None and sb.term is not None:
      return VBool(TH.array_equal(sa.term, sb.term))
    return VBool(fresh('array_equal', z3.BoolSort()))

  @ext('numpy.allclose', 'ASSUMED: True iff |a-b| <= atol + rtol*|b| elementwise (after broadcasting)')
  def _allclose(cx, a, b, **kw):
    sa, sb = cx.st(a), cx.st(b)
    bshape(cx, list(sa.shape.dims), list(sb.shape.dims))
    if sa.term is not None and sb.term is not None:
      return VBool(TH.allclose(sa.term, sb.term))
    return VBool(fresh('allclose', z3.BoolSort()))

  @ext('numpy.diag', 'ASSUMED: 1-D -> diagonal matrix; 2-D -> vector of the diagonal (a copy semantics is NOT assumed: view)')
  def _diag(cx, a, **kw):
    st = cx.st(a)
    if st.shape.rank == 1:
      n = st.shape.dims[0]
      return cx.new(TH.diagm(st.term) if st.term is not None else None, [n, n], st.kind)
    if st.shape.rank == 2:
      n = z3.If(st.shape.dims[0] <= st.shape.dims[1], st.shape.dims[0], st.shape.dims[1])
      return cx.new(TH.diagv(st.term) if st.term is not None else None, [z3.simplify(n)], st.kind, st.owner, base=(a.loc, st.version))
    raise Unsupported('np.diag on rank %d' % st.shape.rank)

  @ext('numpy.finfo', 'ASSUMED: .eps is the machine epsilon of the given float type (float64 for the python type float)')
  def _finfo(cx, dt):
    f = VOpaque('finfo')
    f.of_term = getattr(dt, 'of_term', None)
    return f
  lib.opaque_attr = {('dtype', 'kind'): lambda base=None: VStr(base.what.split(':')[1]) if ':' in base.what and len(base.what.split(':')[1]) == 1 else VOpaque('dtype.kind'),
                     ('finfo', 'eps'): lambda base=None: VReal(TH.eps_of(base.of_term) if getattr(base, 'of_term', None) is not None else TH.EPS)}

  # ----------------------------------------------------------------------------------- linear algebra
  @ext('numpy.linalg.cholesky', 'ASSUMED: returns lower-triangular C with C C^T = a for symmetric positive definite a; LinAlgError otherwise')
  def _cholesky(cx, a, **kw):
    st = cx.st(a)
    cx.may_raise('LinAlgError', z3.Not(TH.is_pd(st.term)) if st.term is not None else None, 'matrix is not positive definite')
    res = cx.new(TH.chol(st.term) if st.term is not None else None, st.shape.dims, 'f')
    return res

  def eigh_core(cx, a):
    st = cx.st(a)
    if st.shape.rank != 2:
      raise Unsupported('eigh on rank %d' % st.shape.rank)
    n = st.shape.dims[0]
    cx.may_raise('LinAlgError', None, 'eigenvalue computation did not converge')
    w = cx.new(TH.eigvals(st.term) if st.term is not None else None, [n], 'f')
    V = cx.new(TH.eigvecs(st.term) if st.term is not None else None, [n, n], 'f')
    if st.term is not None:
      # ASSUMED (eigh on the symmetric matrix it is given + linear algebra): positive definite iff no eigenvalue is <= 0
      cx.p.assume(TH.pd(st.term) == z3.Not(TH.anyT(TH.cmps('le')(TH.eigvals(st.term), z3.RealVal(0)))))
      cx.p.assume(TH.lenT(TH.eigvals(st.term)) == n)
    return VTuple([w, V])

  @ext(['numpy.linalg.eigh'], 'ASSUMED: (w, V) with a = V diag(w) V^T, V orthogonal, w ascending, for symmetric a')
  def _eigh(cx, a, *args, **kw):
    return eigh_core(cx, a)

  @ext(['scipy.linalg.eigh'], 'ASSUMED: as numpy.linalg.eigh (standard problem) ; generalised problem when b is given')
  def _seigh(cx, a, b=None, **kw):
    for flag, arr in (('overwrite_a', a), ('overwrite_b', b)):
      v = kw.get(flag)
      if v is not None and not isinstance(v, VNone) and isinstance(arr, VArr):
        if not (isinstance(v, VBool) and v.conc() is False):
          # scipy may then use the array as LAPACK work space: its contents are destroyed (an in-place write into that array)
          np_.write(cx, arr, 'scipy.linalg.eigh(%s=True)' % flag)
    if b is not None and not isinstance(b, VNone):
      # generalised problem a v = lambda b v: the eigenpairs are those of the PENCIL, not of a (no spectral facts about a are assumed)
      st = cx.st(a)
      n = st.shape.dims[0]
      cx.may_raise('LinAlgError', None, 'generalised eigenproblem: b is not positive definite / no convergence')
      return VTuple([cx.new(fresh('geigvals', T), [n], 'f'), cx.new(fresh('geigvecs', T), [n, n], 'f')])
    return eigh_core(cx, a)
