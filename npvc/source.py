"""Front end: reads the REAL source of /repo/metric_learn on every run.

Nothing is extracted to disk and nothing is edited: functions are looked up by qualified name in the
`ast` of the current working tree (CRLF tolerated).  Class structure (bases, C3 MRO, owner of each
method) and import resolution are computed from the AST.
"""
import ast
import hashlib
import importlib
import os

REPO = os.environ.get('VERIF_REPO', '/repo')
PKG = 'metric_learn'
MODULES = ['_util', 'base_metric', 'constraints', 'covariance', 'exceptions', 'itml', 'lfda', 'lmnn',
           'lsml', 'mlkr', 'mmc', 'nca', 'rca', 'scml', 'sdml']
PUBLIC_ESTIMATORS = ['Covariance', 'LFDA', 'LMNN', 'NCA', 'MLKR', 'RCA', 'RCA_Supervised', 'ITML',
                     'ITML_Supervised', 'MMC', 'MMC_Supervised', 'SDML', 'SDML_Supervised', 'LSML',
                     'LSML_Supervised', 'SCML', 'SCML_Supervised']
EXTERNAL_BASES = {'BaseEstimator', 'ClassifierMixin', 'TransformerMixin', 'object', 'Exception',
                  'LinAlgError', 'ValueError'}


class SourceError(Exception):
  """contract target / construct not found in the current tree -> the obligation is UNDECIDED"""


class Module:
  def __init__(self, name, repo=None):
    self.name = name
    self.path = os.path.join(repo or REPO, PKG, name + '.py')
    with open(self.path, newline='') as f:
      raw = f.read()
    self.raw = raw
    self.src = raw.replace('\r\n', '\n')
    self.tree = ast.parse(self.src)
    for n in ast.walk(self.tree):
      for ch in ast.iter_child_nodes(n):
        ch._parent = n
    self.funcs = {}
    self.classes = {}
    self._index(self.tree, '')
    self.imports = self._imports()

  def _index(self, node, prefix):
    for ch in ast.iter_child_nodes(node):
      if isinstance(ch, (ast.FunctionDef, ast.AsyncFunctionDef)):
        q = prefix + ch.name
        # several definitions of the same name (try/except/else variants): keep the last, as Python does
        self.funcs[q] = ch
        ch._qual = q
        ch._module = self.name
        self._index(ch, q + '.')
      elif isinstance(ch, ast.ClassDef):
        self.classes[ch.name] = ch
        ch._module = self.name
        self._index(ch, prefix + ch.name + '.')
      elif isinstance(ch, (ast.If, ast.Try, ast.With, ast.For, ast.While)):
        self._index(ch, prefix)

  def _imports(self):
    """local name -> ('ext', dotted) | ('int', module, name)"""
    out = {}
    for n in ast.walk(self.tree):
      if isinstance(n, ast.Import):
        for a in n.names:
          out[(a.asname or a.name).split('.')[0]] = ('ext', a.name if a.asname else a.name.split('.')[0])
      elif isinstance(n, ast.ImportFrom):
        if n.level >= 1:
          for a in n.names:
            out[a.asname or a.name] = ('int', n.module, a.name)
        elif n.module == '__future__':
          continue
        else:
          for a in n.names:
            out[a.asname or a.name] = ('ext', n.module + '.' + a.name)
    return out

  def segment(self, node):
    return ast.get_source_segment(self.src, node)


class ClassInfo:
  def __init__(self, name, node, module):
    self.name, self.node, self.module = name, node, module
    self.bases = []
    for b in node.bases:
      if isinstance(b, ast.Name):
        self.bases.append(b.id)
      elif isinstance(b, ast.Attribute):
        self.bases.append(b.attr)
    self.methods = {m.name: m for m in node.body if isinstance(m, ast.FunctionDef)}
    self.class_attrs = {}
    for st in node.body:
      if isinstance(st, ast.Assign) and len(st.targets) == 1 and isinstance(st.targets[0], ast.Name):
        self.class_attrs[st.targets[0].id] = st.value
    self.mro = None


class Program:
  def __init__(self, repo=None):
    self.repo = repo or REPO
    self.modules = {m: Module(m, self.repo) for m in MODULES}
    self.classes = {}
    for m in self.modules.values():
      for cname, node in m.classes.items():
        self.classes[cname] = ClassInfo(cname, node, m.name)
    for c in self.classes.values():
      c.mro = self._mro(c.name)

  def _mro(self, c):
    if c not in self.classes:
      return [c]
    bases = self.classes[c].bases
    seqs = [self._mro(b) for b in bases] + [list(bases)]
    res = [c]
    while any(seqs):
      head = None
      for s in seqs:
        if s and not any(s[0] in t[1:] for t in seqs):
          head = s[0]
          break
      if head is None:
        raise SourceError('inconsistent MRO for ' + c)
      res.append(head)
      seqs = [[x for x in s if x != head] for s in seqs]
    return res

  def func(self, target):
    """target = 'module:Qual.name'"""
    mod, qual = target.split(':')
    if mod not in self.modules:
      raise SourceError('module not found: ' + mod)
    m = self.modules[mod]
    if qual not in m.funcs:
      raise SourceError('function not found in current tree: ' + target)
    return m.funcs[qual]

  def resolve_method(self, cls, name):
    """first class of the MRO (inside metric_learn) that defines `name` -> (owner, FunctionDef) or (None, None)"""
    for c in self.classes[cls].mro:
      if c in self.classes and name in self.classes[c].methods:
        return c, self.classes[c].methods[name]
    return None, None

  def class_attr(self, cls, name):
    for c in self.classes[cls].mro:
      if c in self.classes and name in self.classes[c].class_attrs:
        return c, self.classes[c].class_attrs[name]
    return None, None

  def is_subclass(self, a, b):
    if a == b:
      return True
    if a in self.classes:
      return b in self.classes[a].mro
    return b in _builtin_exc_mro(a)

  def tree_hash(self):
    h = hashlib.sha256()
    for m in sorted(self.modules):
      h.update(m.encode())
      h.update(self.modules[m].raw.encode())
    return h.hexdigest()[:16]


_EXC_PARENTS = {
    'ValueError': ['Exception'], 'TypeError': ['Exception'], 'IndexError': ['LookupError', 'Exception'],
    'KeyError': ['LookupError', 'Exception'], 'LookupError': ['Exception'], 'AttributeError': ['Exception'],
    'RuntimeError': ['Exception'], 'AssertionError': ['Exception'], 'ImportError': ['Exception'],
    'ZeroDivisionError': ['ArithmeticError', 'Exception'], 'ArithmeticError': ['Exception'],
    'LinAlgError': ['ValueError', 'Exception'], 'NonPSDError': ['LinAlgError', 'ValueError', 'Exception'],
    'PreprocessorError': ['Exception'], 'NotFittedError': ['ValueError', 'AttributeError', 'Exception'],
    'UnboundLocalError': ['NameError', 'Exception'], 'NameError': ['Exception'],
    'ArpackNoConvergence': ['ArpackError', 'RuntimeError', 'Exception'], 'ArpackError': ['RuntimeError', 'Exception'],
    'FloatingPointError': ['ArithmeticError', 'Exception'], 'StopIteration': ['Exception'],
    'Exception': [],
}


def _builtin_exc_mro(a):
  return [a] + _EXC_PARENTS.get(a, ['Exception'])


def exc_is_subclass(a, b):
  return b in _builtin_exc_mro(a)


def import_repo_module(name, repo=None):
  """imports the WORKING TREE's module (repo first on sys.path); used for module constants, call
  well-formedness and replay."""
  import sys
  r = repo or REPO
  if sys.path[0] != r:
    sys.path.insert(0, r)
  return importlib.import_module(PKG + '.' + name)


def resolve_external(dotted):
  """'numpy.linalg.norm' -> the installed object"""
  parts = dotted.split('.')
  for i in range(len(parts), 0, -1):
    try:
      obj = importlib.import_module('.'.join(parts[:i]))
    except ImportError:
      continue
    for p in parts[i:]:
      obj = getattr(obj, p)
    return obj
  raise ImportError(dotted)
