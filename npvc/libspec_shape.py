"""libspec entries, shape/dtype/ownership level (with value terms where the theory has a symbol): the remaining
numpy / scipy / scikit-learn callables used by the fit bodies.  Each is an ASSUMED contract on a dependency."""
import ast
import z3

from .values import *
from .exec import Unsupported, feasible
from .libspec import Cx, promote, FRESH, is_arr
from . import theory as TH


class VExtObj(V):
  """object of a dependency with modelled state (RandomState, PCA, LDA, NearestNeighbors, KMeans, OptimizeResult ...);
  the state lives in path.heap[oid] so that forks do not share it"""
  def __init__(self, oid, kind):
    self.oid, self.kind = oid, kind

  def __repr__(self):
    return 'VExtObj(%s#%s)' % (self.kind, self.oid)


def new_extobj(p, kind, **data):
  oid = fresh_name('x')
  p.heap[oid] = dict(data)
  return VExtObj(oid, kind)


def install(lib, np_):
  ext, method = lib.ext, lib.method
  from .libspec_np import bshape, scalar_term, wrap_scalar, kind_of_scalar
  from .libspec_more import kwint, kwbool
  lib.extobj_methods = {}
  lib.extobj_attrs = {}

  def emethod(kind, name, doc=''):
    def deco(fn):
      lib.extobj_methods[(kind, name)] = fn
      lib.assumed['%s.%s' % (kind, name)] = doc or (fn.__doc__ or '').strip()
      return fn
    return deco

  def eattr(kind, name):
    def deco(fn):
      lib.extobj_attrs[(kind, name)] = fn
      return fn
    return deco

  def st_of(cx, v):
    if not isinstance(v, VArr):
      raise Unsupported('%s expects an array, got %r (line %s)' % (cx.name, v, cx.line()))
    s = cx.st(v)
    if not s.shape.concrete:
      from .contracts import refine_rank
      refine_rank(cx.p, v)
      s = cx.st(v)
    if not s.shape.concrete:
      raise Unsupported('%s on a symbolic-rank array (line %s)' % (cx.name, cx.line()))
    return s

  def as_arr(cx, v):
    """python scalars / lists of scalars promoted to arrays (np.asarray semantics) for shape purposes"""
    if isinstance(v, VArr):
      return st_of(cx, v)
    if isinstance(v, (VInt, VReal, VBool)):
      return ArrState(None, Shape(0, []), kind_of_scalar(v), FRESH)
    if isinstance(v, (VList, VTuple)):
      subs = [as_arr(cx, x) for x in v.items]
      if not subs:
        return ArrState(None, Shape(1, [z3.IntVal(0)]), 'f', FRESH)
      return ArrState(None, Shape(subs[0].shape.rank + 1, [z3.IntVal(len(subs))] + list(subs[0].shape.dims)),
                      promote(*[s.kind for s in subs]), FRESH)
    raise Unsupported('%s: cannot view %r as an array' % (cx.name, v))

  def fresh_count(cx, name, lo, hi):
    n = fresh(name, z3.IntSort())
    cx.p.assume(n >= lo)
    cx.p.assume(n <= hi)
    return n

  def axis_of(axis, rank, default=None):
    if axis is None or isinstance(axis, VNone):
      return default
    a = axis.conc()
    if a is None:
      raise Unsupported('symbolic axis')
    return a + rank if a < 0 else a

  # ------------------------------------------------------------------------------------------- constructors
  @ext('numpy.array', 'ASSUMED: new array holding the given numbers (copy)')
  def _array(cx, obj, dtype=None, **kw):
    k = lib.dtype_kind(dtype) if dtype is not None else None
    if isinstance(obj, VArr):
      s = st_of(cx, obj)
      return cx.new(s.term, s.shape.dims, k or s.kind, vf=s.vf)
    if isinstance(obj, (VList, VTuple, VInt, VReal, VBool)):
      s = as_arr(cx, obj)
      return cx.new(None, s.shape.dims, k or s.kind)
    if isinstance(obj, VListRef):
      L = cx.p.lists[obj.lid]
      e = L['elem']
      if isinstance(e, VTuple):
        res = cx.new(fresh('fromlist', T) if L.get('einv') is not None else None, [L['n'], z3.IntVal(len(e.items))], k or 'i', vf=cx.join_vf(e.items))
        if L.get('einv') is not None and all(isinstance(x, VInt) for x in e.items):
          # ghost: every row of the array is an element of the list, and every element of the list satisfies the list's element invariant
          At = cx.p.store[res.loc].term
          r_ = z3.Int('r!row')
          comps = [z3.ToInt(TH.at2(At, r_, z3.IntVal(c))) for c in range(len(e.items))]
          fact = L['einv'](comps)
          cx.p.assume(z3.ForAll([r_], z3.Implies(z3.And(r_ >= 0, r_ < L['n']),
                                                 z3.And(fact, *[z3.IsInt(TH.at2(At, r_, z3.IntVal(c))) for c in range(len(e.items))])),
                                patterns=[TH.at2(At, r_, z3.IntVal(0))]))
        return res
      if e is None:
        # a list that never received an element on this path (symbolic length may still be positive after a havoc)
        return cx.new(None, [L['n']], k or 'f')
      if isinstance(e, (VInt, VReal)):
        return cx.new(None, [L['n']], k or ('i' if isinstance(e, VInt) else 'f'))
      if isinstance(e, VArr):
        es = st_of(cx, e)
        return cx.new(None, [L['n']] + list(es.shape.dims), k or es.kind)
      raise Unsupported('np.array of a list of %r' % (e,))
    if isinstance(obj, VOpaque):
      # list(set) / list(dict.keys()) ...: a sequence of unknown length
      n = fresh_count(cx, 'len', 0, 10 ** 9)
      w = cx.p.heap.get('__opaque_width__', {}).get(obj.what)
      return cx.new(None, [n] + ([z3.IntVal(w)] if w else []), k or 'i')
    if isinstance(obj, VRef) and obj.types and 'list' in obj.types:
      n = fresh_count(cx, 'len', 0, 10 ** 9)      # a python list of numbers
      return cx.new(TH.of_list(obj.t), [n], k or 'f')
    if isinstance(obj, VRef):
      nd = fresh('arr.ndim', z3.IntSort())
      dims = z3.Function(fresh_name('arr.dim'), z3.IntSort(), z3.IntSort())
      cx.p.assume(nd >= 0)
      cx.p.assume(nd <= 6)
      return cx.p.new_loc(ArrState(fresh('arr', T), Shape(nd, dims), k or 'f', FRESH))
    raise Unsupported('np.array(%r)' % (obj,))

  @ext('numpy.arange')
  def _arange(cx, n, *rest, **kw):
    if rest:
      raise Unsupported('arange(start, stop)')
    if isinstance(n, VReal):
      return cx.new(None, [z3.ToInt(n.t)], 'f')
    return cx.new(TH.arange(n.t), [n.t], 'i')

  @ext('numpy.full')
  def _full(cx, shape, val, dtype=None, **kw):
    dims = [shape.t] if isinstance(shape, VInt) else [x.t for x in shape.items]
    return cx.new(None, dims, (lib.dtype_kind(dtype) if dtype is not None else None) or kind_of_scalar(val))

  @ext('numpy.full_like')
  def _full_like(cx, a, val, **kw):
    s = st_of(cx, a)
    return cx.new(None, s.shape.dims, s.kind)

  @ext('numpy.logspace')
  def _logspace(cx, a, b, num=None, **kw):
    n = num.t if isinstance(num, VInt) else z3.IntVal(50)
    return cx.new(None, [n], 'f')

  # --------------------------------------------------------------------------------------- stacking & tiling
  def seq_items(cx, seq):
    if isinstance(seq, (VList, VTuple)):
      return [as_arr(cx, x) for x in seq.items]
    return None

  def symlist(cx, seq):
    """(n, element ArrState) of a symbolic-length python list, or None"""
    if not isinstance(seq, VListRef):
      return None
    L = cx.p.lists[seq.lid]
    if L['elem'] is None:
      raise Unsupported('list of unknown element type (line %s)' % cx.line())
    return L['n'], as_arr(cx, L['elem'])

  @ext('numpy.vstack', 'ASSUMED: arrays stacked along axis 0 (1-D arrays are rows); a single N-D array is stacked over its first axis')
  def _vstack(cx, seq, **kw):
    sl = symlist(cx, seq)
    if sl is not None:
      n, e = sl
      if e.shape.rank == 2:
        tot = fresh_count(cx, 'rows', 0, 10 ** 12)
        return cx.new(None, [tot, e.shape.dims[1]], e.kind)
      raise Unsupported('vstack of a symbolic list of rank-%d arrays' % e.shape.rank)
    items = seq_items(cx, seq)
    if items is None:
      s = st_of(cx, seq)          # np.vstack(array): iterate the first axis
      if s.shape.rank == 3:
        return cx.new(TH.vstack3(s.term) if s.term is not None else None, [s.shape.dims[0] * s.shape.dims[1], s.shape.dims[2]], s.kind)
      if s.shape.rank == 2:
        return cx.new(s.term, s.shape.dims, s.kind)
      raise Unsupported('vstack of a rank-%d array' % s.shape.rank)
    rows = []
    width = None
    for s in items:
      if s.shape.rank <= 1:
        rows.append(z3.IntVal(1))
        w = s.shape.dims[0] if s.shape.rank == 1 else z3.IntVal(1)
      else:
        rows.append(s.shape.dims[0])
        w = s.shape.dims[1]
      if width is None:
        width = w
      else:
        cx.may_raise('ValueError', w != width, 'vstack: widths differ')
    tot = rows[0]
    for r in rows[1:]:
      tot = tot + r
    extra = list(items[0].shape.dims[2:]) if items[0].shape.rank > 2 else []
    return cx.new(None, [z3.simplify(tot), width] + extra, promote(*[s.kind for s in items]))

  @ext('numpy.hstack', 'ASSUMED: 1-D arrays concatenated; N-D arrays concatenated along axis 1')
  def _hstack(cx, seq, **kw):
    sl = symlist(cx, seq)
    if sl is not None:
      n, e = sl
      cx.may_raise('ValueError', n == 0, 'need at least one array to concatenate')
      tot = fresh_count(cx, 'cols', 0, 10 ** 12)
      if e.shape.rank == 2:
        return cx.new(None, [e.shape.dims[0], tot], e.kind)
      if e.shape.rank <= 1:
        return cx.new(None, [tot], e.kind)
      raise Unsupported('hstack of a symbolic list of rank-%d arrays' % e.shape.rank)
    items = seq_items(cx, seq)
    if items is None:
      s = st_of(cx, seq)
      if s.shape.rank == 2:        # hstack(2-D array): concatenation of its rows
        return cx.new(None, [s.shape.dims[0] * s.shape.dims[1]], s.kind)
      if s.shape.rank == 3:
        return cx.new(None, [s.shape.dims[1], s.shape.dims[0] * s.shape.dims[2]], s.kind)
      raise Unsupported('hstack of a rank-%d array' % s.shape.rank)
    if not items:
      raise Unsupported('hstack of an empty python list')
    if all(s.shape.rank <= 1 for s in items):
      tot = z3.IntVal(0)
      for s in items:
        tot = tot + (s.shape.dims[0] if s.shape.rank == 1 else 1)
      return cx.new(None, [z3.simplify(tot)], promote(*[s.kind for s in items]))
    if all(s.shape.rank == 2 for s in items):
      n = items[0].shape.dims[0]
      tot = z3.IntVal(0)
      for s in items:
        cx.may_raise('ValueError', s.shape.dims[0] != n, 'hstack: heights differ')
        tot = tot + s.shape.dims[1]
      return cx.new(None, [n, z3.simplify(tot)], promote(*[s.kind for s in items]))
    raise Unsupported('hstack of mixed ranks')

  @ext('numpy.concatenate')
  def _concatenate(cx, seq, axis=None, **kw):
    items = seq_items(cx, seq)
    if items is None or not all(s.shape.rank == 1 for s in items):
      raise Unsupported('concatenate of non 1-D operands (line %s)' % cx.line())
    tot = z3.IntVal(0)
    for s in items:
      tot = tot + s.shape.dims[0]
    return cx.new(None, [z3.simplify(tot)], promote(*[s.kind for s in items]))

  def _with_joined_vf(fn):
    def h(cx, seq, *a, **kw):
      r = fn(cx, seq, *a, **kw)
      items = seq.items if isinstance(seq, (VList, VTuple)) else None
      if isinstance(seq, VListRef):
        e = cx.p.lists[seq.lid]['elem']
        items = [e] if e is not None else None
      if isinstance(seq, VArr):
        items = [seq]
      if items and isinstance(r, VArr) and cx.st(r).kind in ('i', 'b'):
        f = cx.join_vf([x for x in items if isinstance(x, (VArr, VInt, VTuple))] ) if all(cx.vf_of(x) is not None for x in items if not (isinstance(x, VInt) and x.conc() == 0)) else None
        nz = [x for x in items if not (isinstance(x, VInt) and getattr(x, 'vf', None) is None)]
        if nz and all(cx.vf_of(x) is not None for x in nz):
          f = cx.join_vf(nz)
          cx.p.store[r.loc] = cx.st(r).replace(vf=f)
      return r
    return h
  for _d in ('numpy.vstack', 'numpy.hstack', 'numpy.concatenate', 'numpy.column_stack'):
    from .source import resolve_external as _re
    _o = _re(_d)
    _nm, _fn, _ob = lib.by_obj[id(_o)]
    lib.by_obj[id(_o)] = (_nm, _with_joined_vf(_fn), _ob)

  @ext('numpy.tile')
  def _tile(cx, a, reps):
    s = as_arr(cx, a)
    r = [reps.t] if isinstance(reps, VInt) else [x.t for x in reps.items]
    dims = list(s.shape.dims)
    while len(dims) < len(r):
      dims = [z3.IntVal(1)] + dims
    r = [z3.IntVal(1)] * (len(dims) - len(r)) + r
    return cx.new(None, [z3.simplify(d * k) for d, k in zip(dims, r)], s.kind, vf=cx.vf_of(a))

  @ext('numpy.repeat')
  def _repeat(cx, a, n, **kw):
    s = st_of(cx, a)
    return cx.new(None, [s.shape.size() * n.t], s.kind, vf=cx.vf_of(a))

  # ------------------------------------------------------------------------------------------------ sorting
  @ext('numpy.unique', 'ASSUMED: sorted distinct elements (rows with axis=0): between 1 and n of them for n >= 1; inverse indices in [0, #unique); counts >= 1 summing to n')
  def _unique(cx, a, return_inverse=None, return_counts=None, axis=None, **kw):
    s = st_of(cx, a)
    ax = axis_of(axis, s.shape.rank)
    n = s.shape.dims[0] if ax == 0 else s.shape.size()
    m = fresh('nuniq', z3.IntSort())
    cx.p.assume(m >= z3.If(n >= 1, 1, 0))
    cx.p.assume(m <= n)
    if s.term is not None and s.shape.rank == 1:
      cx.p.assume(m == TH.ndistinct(s.term))
    dims = [m] + (list(s.shape.dims[1:]) if ax == 0 else [])
    usym = TH.unique_rows if (ax == 0 and s.shape.rank >= 2) else TH.uniqueT
    u = cx.new(usym(s.term) if s.term is not None else None, dims, s.kind, vf=s.vf)
    outs = [u]
    if return_inverse is not None and kwbool(return_inverse, False):
      inv_dims = [n] if ax == 0 else list(s.shape.dims) if s.shape.rank == 1 else [s.shape.size()]
      inv = cx.new(TH.unique_inv(s.term) if s.term is not None else None, inv_dims, 'i')
      # every one of the m distinct values occurs at least once: masks `inverse == c` with 0 <= c < m are non-empty
      cx.p.store[inv.loc] = cx.p.store[inv.loc].replace(tag=('uniq-inv', m), vf=m)
      outs.append(inv)
    if return_counts is not None and kwbool(return_counts, False):
      outs.append(cx.new(TH.unique_counts(s.term) if s.term is not None else None, [m], 'i'))
    return outs[0] if len(outs) == 1 else VTuple(outs)

  def same_shape(name, kind=None, fresh_copy=True, sym=None):
    def h(cx, a, *args, **kw):
      s = as_arr(cx, a)
      f = getattr(TH, sym, None) if sym else None
      return cx.new(f(s.term) if f is not None and s.term is not None else None, s.shape.dims, kind or s.kind)
    return h
  ext('numpy.argsort', 'ASSUMED: a permutation of indices along the last axis')(same_shape('argsort', 'i', sym='argsortT'))
  ext('numpy.sort')(same_shape('sort'))
  ext('numpy.partition')(lambda cx, a, kth, axis=None, **kw: same_shape('partition')(cx, a))
  ext('sklearn.utils.extmath.stable_cumsum')(same_shape('cumsum', 'f'))
  method('cumsum')(lambda cx, a, axis=None, **kw: same_shape('cumsum')(cx, a))
  ext('numpy.squeeze')(lambda cx, a, axis=None: squeeze_axis(cx, a, axis))

  def squeeze_axis(cx, a, axis):
    s = st_of(cx, a)
    ax = axis_of(axis, s.shape.rank)
    if ax is None:
      raise Unsupported('np.squeeze without axis')
    cx.may_raise('ValueError', s.shape.dims[ax] != 1, 'cannot select an axis to squeeze out which has size not equal to one')
    return cx.new(None, [d for k, d in enumerate(s.shape.dims) if k != ax], s.kind, s.owner, base=(a.loc, s.version))

  @ext('numpy.where', 'ASSUMED: np.where(cond) = tuple of index arrays of the true positions (one per axis)')
  def _where(cx, cond, *xy):
    if xy:
      raise Unsupported('np.where(c, x, y)')
    s = st_of(cx, cond)
    n = fresh_count(cx, 'ntrue', 0, s.shape.size())
    t = TH.whereT(s.term) if (s.term is not None and s.shape.rank == 1) else None
    if t is not None:
      cx.p.assume(TH.lenT(t) == n)
      cx.p.assume(TH.lenT(s.term) == s.shape.dims[0])
    first = cx.new(t, [n], 'i', vf=s.shape.dims[0])
    return VTuple([first] + [cx.new(None, [n], 'i', vf=s.shape.dims[k]) for k in range(1, s.shape.rank)])
  ext('numpy.nonzero')(_where)

  @ext('numpy.take', 'ASSUMED: np.take(a, idx) (flattened a): result has the shape of idx')
  def _take(cx, a, idx, **kw):
    s = as_arr(cx, idx)
    k = as_arr(cx, a).kind if not isinstance(a, VTuple) else 'i'
    src = a.items[0] if isinstance(a, VTuple) and len(a.items) == 1 else a
    if isinstance(src, VArr):
      cx.frame_obligation(idx, st_of(cx, src).shape.size(), 'np.take')
    return cx.new(None, s.shape.dims, k, vf=cx.vf_of(a))

  @ext('numpy.take_along_axis')
  def _take_along(cx, a, idx, axis):
    s = st_of(cx, idx)
    return cx.new(None, s.shape.dims, st_of(cx, a).kind, vf=cx.vf_of(a))

  @ext('numpy.bincount')
  def _bincount(cx, a, **kw):
    n = fresh_count(cx, 'nbins', 0, 10 ** 12)
    return cx.new(None, [n], 'i')

  @ext('numpy.ravel_multi_index')
  def _rmi(cx, multi, shape, **kw):
    s = as_arr(cx, multi.items[0])
    return cx.new(None, s.shape.dims, 'i')

  @ext('numpy.unravel_index')
  def _uri(cx, idx, shape, **kw):
    s = st_of(cx, idx)
    k = len(shape.items)
    return VTuple([cx.new(None, s.shape.dims, 'i') for _ in range(k)])

  @ext('numpy.percentile')
  def _percentile(cx, a, q, **kw):
    nonneg = isinstance(a, VArr) and cx.st(a).tag == ('nonneg',)
    if isinstance(q, (VTuple, VList)):
      r = cx.new(None, [len(q.items)], 'f')
      if nonneg:
        j = z3.Int('j!pct')
        rt = cx.st(r).term
        cx.p.assume(z3.ForAll([j], TH.at1(rt, j) >= 0, patterns=[TH.at1(rt, j)]))     # ASSUMED: percentiles of non-negative numbers are >= 0
      return r
    t = fresh('pct', z3.RealSort())
    if nonneg:
      cx.p.assume(t >= 0)
    return VReal(t)

  @ext('numpy.fill_diagonal', 'ASSUMED: writes val on the diagonal IN PLACE')
  def _fill_diagonal(cx, a, val, **kw):
    np_.write(cx, a, 'np.fill_diagonal')
    return VNone()

  @ext('numpy.divide')
  def _divide(cx, x, y, where=None, out=None, **kw):
    ys = as_arr(cx, y)
    xs = as_arr(cx, x)
    dims = bshape(cx, list(xs.shape.dims), list(ys.shape.dims))
    if out is not None and isinstance(out, VArr):
      value = None
      if isinstance(where, VArr) and isinstance(y, VArr) and y.loc == out.loc and isinstance(x, (VInt, VReal)) \
         and ys.term is not None and cx.st(where).term is not None and ys.shape.concrete and ys.shape.rank == 1:
        xt = x.t if isinstance(x, VReal) else z3.ToReal(x.t)
        value = TH.sdivwhere(xt, ys.term, cx.st(where).term)        # np.divide(c, w, where=m, out=w): untouched where m is False
      np_.write(cx, out, 'np.divide(out=)', value=value)
      return out
    return cx.new(None, dims, 'f')

  @ext('numpy.multiply', 'elementwise product with broadcasting; out= writes in place and returns that array')
  def _multiply(cx, x, y, out=None, **kw):
    import ast as _ast
    if kw.get('where') is not None:
      raise Unsupported('np.multiply(where=) (line %s)' % cx.line())
    (q, res), = np_.binop(cx, _ast.Mult(), x, y)
    if out is not None and isinstance(out, VArr):
      np_.write(cx, out, 'np.multiply(out=)', value=cx.st(res).term if isinstance(res, VArr) else None)
      return out
    return res

  @ext('numpy.count_nonzero', 'ASSUMED: number of non-zero entries: between 0 and the size')
  def _count_nonzero(cx, a, axis=None, **kw):
    if axis is not None and not isinstance(axis, VNone):
      raise Unsupported('np.count_nonzero(axis=) (line %s)' % cx.line())
    s = as_arr(cx, a)
    t = fresh('nnz', z3.IntSort())
    cx.p.assume(t >= 0)
    cx.p.assume(t <= s.shape.size())
    return VInt(t)

  @ext('numpy.outer')
  def _outer(cx, a, b, **kw):
    sa, sb = st_of(cx, a), st_of(cx, b)
    t = TH.outer(sa.term, sb.term) if (sa.term is not None and sb.term is not None and sa.shape.rank == 1 and sb.shape.rank == 1) else None
    return cx.new(t, [sa.shape.size(), sb.shape.size()], promote(sa.kind, sb.kind))

  @ext('numpy.einsum', 'ASSUMED: Einstein summation; ValueError when a repeated subscript has different lengths')
  def _einsum(cx, subs, *ops, **kw):
    if not isinstance(subs, VStr):
      raise Unsupported('einsum with computed subscripts')
    spec = subs.s.replace(' ', '')
    lhs, _, rhs = spec.partition('->')
    ins = lhs.split(',')
    if len(ins) != len(ops):
      raise Unsupported('einsum arity')
    env = {}
    for sub, op in zip(ins, ops):
      s = st_of(cx, op)
      ell = sub.startswith('...')
      letters = sub[3:] if ell else sub
      dims = s.shape.dims[len(s.shape.dims) - len(letters):] if ell else s.shape.dims
      if not ell and len(letters) != s.shape.rank:
        cx.ex.raise_(cx.p, 'ValueError', 'einsum: operand rank does not match subscripts (line %s)' % cx.line())
        return []
      if ell:
        env['...'] = list(s.shape.dims[:len(s.shape.dims) - len(letters)])
      for ch, d in zip(letters, dims):
        if ch in env:
          if not z3.simplify(env[ch]).eq(z3.simplify(d)):
            cx.may_raise('ValueError', env[ch] != d, 'einsum: dimension mismatch for subscript ' + ch)
        else:
          env[ch] = d
    if not rhs and '->' not in spec:
      # implicit output: letters appearing once, alphabetical
      allc = ''.join(i.replace('...', '') for i in ins)
      rhs = ''.join(sorted(c for c in set(allc) if allc.count(c) == 1))
    out = []
    r = rhs
    if r.startswith('...'):
      out += env.get('...', [])
      r = r[3:]
    out += [env[ch] for ch in r]
    return cx.new(None, out, 'f')

  @ext('numpy.apply_along_axis')
  def _aaa(cx, *a, **k):
    raise Unsupported('apply_along_axis')

  # ----------------------------------------------------------------------------------------- linear algebra
  @ext(['numpy.linalg.norm', 'scipy.linalg.norm'], 'ASSUMED: Frobenius / 2-norm, >= 0; with axis: reduced along it')
  def _norm(cx, a, ord=None, axis=None, **kw):
    s = as_arr(cx, a)
    ax = axis_of(axis, s.shape.rank)
    if ax is None:
      t = fresh('norm', z3.RealSort()) if s.term is None else TH.fnorm(s.term)
      cx.p.assume(t >= 0)
      return VReal(t)
    return cx.new(None, [d for k, d in enumerate(s.shape.dims) if k != ax], 'f')

  @ext('numpy.cov', 'ASSUMED: sample covariance of the columns (rowvar=False): (d, d) float, or 0-d when d == 1; uses ddof = 1 - bias')
  def _cov(cx, X, rowvar=None, bias=None, **kw):
    s = st_of(cx, X)
    if s.shape.rank != 2:
      raise Unsupported('np.cov on rank %d' % s.shape.rank)
    d = s.shape.dims[1]
    dc = cx.conc(d)
    def flag(v, default):
      if v is None or isinstance(v, VNone):
        return default
      if isinstance(v, (VInt, VBool)):
        c = v.conc()
        if c is not None:
          return bool(c)
      raise Unsupported('np.cov with a symbolic rowvar / bias / ddof (line %s)' % cx.line())
    if any(k in kw for k in ('ddof', 'fweights', 'aweights', 'y')):
      raise Unsupported('np.cov with ddof / weights / y (line %s)' % cx.line())
    if flag(rowvar, True):
      raise Unsupported('np.cov with rowvar=True (variables in rows) is not modelled (line %s)' % cx.line())
    b = 1 if flag(bias, False) else 0
    term = (TH.covb(s.term) if b else TH.cov(s.term)) if s.term is not None else None
    if dc == 1:
      return cx.new(term, [], 'f')
    if dc is None:
      # d == 1 yields a 0-d array: fork
      q = cx.p.fork()
      q.assume(d == 1)
      out = []
      if feasible(q.pc):
        out.append((q, q.new_loc(ArrState(term, Shape(0, []), 'f', FRESH))))
      cx.p.assume(d != 1)
      if feasible(cx.p.pc):
        out.append((cx.p, cx.new(term, [d, d], 'f')))
      return out
    return cx.new(term, [d, d], 'f')

  @ext(['scipy.linalg.pinvh'], 'ASSUMED: Moore-Penrose pseudo-inverse of a symmetric matrix; LinAlgError when the eigen-solver fails')
  def _pinvh(cx, a, **kw):
    s = st_of(cx, a)
    cx.may_raise('LinAlgError', None, 'pinvh: eigenvalue computation did not converge')
    # the Moore-Penrose pseudo-inverse is what pinvh computes with its DEFAULT cut-off (relative to the largest eigenvalue); a caller-chosen
    # atol / rtol / cond gives a different function of the matrix, which is not the spec function `pinv`
    custom = any(k in kw and not isinstance(kw[k], VNone) for k in ('atol', 'rtol', 'cond', 'rcond'))
    return cx.new(TH.pinv(s.term) if (s.term is not None and not custom) else None, s.shape.dims, 'f')

  @ext('numpy.linalg.inv', 'ASSUMED: inverse; LinAlgError for a singular matrix')
  def _inv(cx, a, **kw):
    s = st_of(cx, a)
    cx.may_raise('LinAlgError', None, 'singular matrix')
    return cx.new(TH.inv(s.term) if s.term is not None else None, s.shape.dims, 'f')

  @ext('numpy.linalg.det', 'ASSUMED: the determinant as a real number (overflow / underflow of the binary64 product is not modelled)')
  def _det(cx, a, **kw):
    st_of(cx, a)
    return VReal(fresh('det', z3.RealSort()))

  @ext('numpy.linalg.slogdet')
  def _slogdet(cx, a, **kw):
    s = st_of(cx, a)
    sign = fresh('sign', z3.RealSort())
    return VTuple([VReal(sign), VReal(TH.logabsdet(s.term) if s.term is not None else fresh('logdet', z3.RealSort()))])

  @ext('numpy.linalg.eig', 'ASSUMED: eigenvalues / right eigenvectors of a general matrix; result dtype is COMPLEX (numpy >= 2 always returns complex for eig)')
  def _eig(cx, a, **kw):
    s = st_of(cx, a)
    n = s.shape.dims[0]
    cx.may_raise('LinAlgError', None, 'eig did not converge')
    return VTuple([cx.new(None, [n], 'c'), cx.new(None, [n, n], 'c')])

  @ext('scipy.linalg.eig', 'ASSUMED: eigenvalues are returned with complex dtype; the eigenvector matrix has real dtype when all eigenvalues '
       'are real (assumed for the symmetric-definite pencils LFDA passes), complex otherwise')
  def _seig(cx, a, b=None, **kw):
    s = st_of(cx, a)
    n = s.shape.dims[0]
    cx.may_raise('LinAlgError', None, 'eig did not converge')
    return VTuple([cx.new(None, [n], 'c'), cx.new(None, [n, n], 'f')])

  @ext('scipy.sparse.linalg.eigsh', 'ASSUMED: k extreme eigenpairs (real) of a symmetric (generalised) problem; raises ValueError (k >= n), '
       'ArpackNoConvergence, LinAlgError; UNSEEDED start vector unless v0 is given')
  def _eigsh(cx, a, k=None, M=None, which=None, v0=None, **kw):
    s = st_of(cx, a)
    n = s.shape.dims[0]
    kk = k.t if isinstance(k, VInt) else z3.IntVal(6)
    cx.p.events.append(('random-source', 'eigsh', 'seeded' if v0 is not None else 'UNSEEDED', cx.line()))
    cx.may_raise('ValueError', None, 'eigsh: k must be less than ndim(A)')
    cx.may_raise('ArpackNoConvergence', None, 'eigsh: no convergence')
    cx.may_raise('LinAlgError', None, 'eigsh')
    return VTuple([cx.new(None, [kk], 'f'), cx.new(None, [n, kk], 'f')])

  @ext('numpy.linalg.lstsq')
  def _lstsq(cx, a, b, rcond=None, **kw):
    sa, sb = st_of(cx, a), st_of(cx, b)
    cx.may_raise('LinAlgError', None, 'lstsq did not converge')
    x = cx.new(None, [sa.shape.dims[1]] + list(sb.shape.dims[1:]), 'f')
    return VTuple([x, cx.new(None, [z3.IntVal(0)], 'f'), VInt(fresh('rank', z3.IntSort())), cx.new(None, [sa.shape.dims[1]], 'f')])

  @ext('numpy.linalg.matrix_rank')
  def _rank(cx, a, **kw):
    s = st_of(cx, a)
    r = fresh('rank', z3.IntSort())
    cx.p.assume(r >= 0)
    cx.p.assume(r <= s.shape.dims[0])
    return VInt(r)

  @ext('numpy.linalg.qr')
  def _qr(cx, a, **kw):
    s = st_of(cx, a)
    m, n = s.shape.dims
    k = z3.If(m <= n, m, n)
    return VTuple([cx.new(None, [m, z3.simplify(k)], 'f'), cx.new(None, [z3.simplify(k), n], 'f')])

  # ----------------------------------------------------------------------------------------- methods
  @method('reshape')
  def _reshape(cx, a, *shape, **kw):
    s = st_of(cx, a)
    if len(shape) == 1 and isinstance(shape[0], (VTuple, VList)):
      shape = shape[0].items
    dims = [x.t for x in shape]
    total = s.shape.size()
    neg = [k for k, d in enumerate(dims) if z3.is_int_value(z3.simplify(d)) and z3.simplify(d).as_long() == -1]
    if len(neg) == 1:
      other = z3.IntVal(1)
      for k, d in enumerate(dims):
        if k != neg[0]:
          other = other * d
      inferred = fresh('rdim', z3.IntSort())
      cx.may_raise('ValueError', z3.Or(other == 0, total % z3.If(other == 0, 1, other) != 0), 'cannot reshape')
      cx.p.assume(inferred * other == total)
      cx.p.assume(inferred >= 0)
      dims[neg[0]] = inferred
    else:
      prod = z3.IntVal(1)
      for d in dims:
        prod = prod * d
      cx.may_raise('ValueError', prod != total, 'cannot reshape')
    return cx.new(TH.reshapeT(s.term) if s.term is not None else None, dims, s.kind, s.owner, base=(a.loc, s.version), vf=s.vf)

  @method('any')
  def _many(cx, a, **kw):
    s = st_of(cx, a)
    return VBool(TH.anyT(s.term) if s.term is not None else fresh('any', z3.BoolSort()))

  @method('all')
  def _mall(cx, a, **kw):
    s = st_of(cx, a)
    return VBool(TH.allT(s.term) if s.term is not None else fresh('all', z3.BoolSort()))

  @method('tolist')
  def _tolist(cx, a):
    return VOpaque('list')

  # ------------------------------------------------------------------------------------------ randomness
  @ext(['sklearn.utils.check_random_state', 'sklearn.utils.validation.check_random_state'],
       'ASSUMED: None -> the global numpy RandomState (UNSEEDED); int -> a new RandomState(seed) (deterministic); RandomState -> itself')
  def _crs(cx, seed):
    if isinstance(seed, VNone):
      src = 'global-unseeded'
    elif isinstance(seed, VInt):
      src = 'int-seed'
    elif isinstance(seed, VExtObj) and seed.kind == 'rng':
      return seed
    elif isinstance(seed, VRef):
      src = 'given:' + str(seed.t)
    else:
      raise Unsupported('check_random_state(%r)' % (seed,))
    cx.p.events.append(('rng-created', src, cx.line()))
    return new_extobj(cx.p, 'rng', source=src, seed=seed)

  def rng_use(cx, r, what):
    src = cx.p.heap[r.oid]['source'] if isinstance(r, VExtObj) else 'module-level numpy.random (UNSEEDED)'
    cx.p.events.append(('random-draw', what, src, cx.line()))

  @emethod('rng', 'randint', 'ASSUMED: integers in [low, high) (randint(n) = [0, n)) of the requested size')
  def _randint(cx, r, low, high=None, size=None, **kw):
    rng_use(cx, r, 'randint')
    lo, hi = (z3.IntVal(0), low.t) if high is None or isinstance(high, VNone) else (low.t, high.t)
    cx.may_raise('ValueError', hi <= lo, 'randint: low >= high')
    if size is None or isinstance(size, VNone):
      v = fresh('rand', z3.IntSort())
      cx.p.assume(v >= lo)
      cx.p.assume(v < hi)
      out = VInt(v)
      if z3.is_true(z3.simplify(lo == 0)):
        out.vf = hi
      return out
    dims = [size.t] if isinstance(size, VInt) else [x.t for x in size.items]
    res = cx.new(fresh('randint', T), dims, 'i', vf=hi if z3.is_true(z3.simplify(lo == 0)) else None)
    cx.p.store[res.loc] = cx.p.store[res.loc].replace(tag=('range', lo, hi))      # every element lies in [lo, hi)
    return res

  @emethod('rng', 'choice', 'ASSUMED: elements drawn from the given array (or from range(n)); replace=False -> distinct, ValueError when more are requested than available')
  def _choice(cx, r, a, size=None, replace=None, **kw):
    rng_use(cx, r, 'choice')
    if size is None or isinstance(size, VNone):
      if isinstance(a, VArr):
        s = st_of(cx, a)
        cx.may_raise('ValueError', s.shape.dims[0] == 0, 'choice from an empty sequence')
        out = wrap_scalar(fresh('choice', z3.IntSort() if s.kind in 'ib' else z3.RealSort()), s.kind)
        if s.vf is not None:
          out.vf = s.vf
        if s.term is not None and s.shape.rank == 1:
          # the drawn value IS one of the entries of the array
          k0 = fresh('drawn', z3.IntSort())
          cx.p.assume(z3.And(k0 >= 0, k0 < s.shape.dims[0]))
          cx.p.assume((z3.ToReal(out.t) if out.t.sort() == z3.IntSort() else out.t) == TH.at1(s.term, k0))
        return out
      return VInt(fresh('choice', z3.IntSort()))
    n = size.t
    if isinstance(a, VInt):
      avail = a.t
    elif isinstance(a, VArr):
      avail = st_of(cx, a).shape.dims[0]
    elif isinstance(a, VListRef):
      avail = cx.p.lists[a.lid]['n']
    else:
      avail = None
    if replace is not None and kwbool(replace, True) is False and avail is not None:
      cx.may_raise('ValueError', n > avail, 'cannot take a larger sample than population when replace=False')
    vf = a.t if isinstance(a, VInt) else (st_of(cx, a).vf if isinstance(a, VArr) else None)
    if isinstance(a, VListRef) and cx.p.lists[a.lid].get('elem') is not None:
      vf = getattr(cx.p.lists[a.lid]['elem'], 'vf', None)
    if isinstance(a, VOpaque) and getattr(a, 'vf', None) is not None:
      vf = a.vf
    return cx.new(None, [n], 'i', vf=vf)

  @emethod('rng', 'randn')
  def _randn(cx, r, *dims):
    rng_use(cx, r, 'randn')
    return cx.new(None, [d.t for d in dims], 'f')

  @ext('numpy.random.randint')
  def _np_randint(cx, *a, **k):
    return _randint(cx, None, *a, **k)

  @ext('numpy.random.choice')
  def _np_choice(cx, *a, **k):
    return _choice(cx, None, *a, **k)

  @ext('sklearn.datasets.make_spd_matrix', 'ASSUMED: a random symmetric positive definite (n, n) matrix, a deterministic function of the RandomState')
  def _mspd(cx, n, random_state=None, **kw):
    rng_use(cx, random_state, 'make_spd_matrix')
    r = cx.new(None, [n.t, n.t], 'f')
    cx.p.assume(TH.pd(cx.st(r).term))          # ASSUMED (its documentation): symmetric positive definite
    return r

  # --------------------------------------------------------------------------------------- sklearn objects
  def ctor(kind, dotted, **defaults):
    @ext(dotted)
    def h(cx, **kw):
      d = dict(defaults)
      d.update(kw)
      if 'random_state' in d:
        rs = d['random_state']
        if isinstance(rs, VNone):
          src = 'global-unseeded'
        elif isinstance(rs, VExtObj) and rs.kind == 'rng':
          src = cx.p.heap[rs.oid].get('source', 'seeded')
          src = 'global-unseeded' if src == 'global-unseeded' else 'seeded'
        else:
          src = 'seeded'
        cx.p.events.append(('random-source', kind, src, cx.line()))
      return new_extobj(cx.p, kind, **d)
    return h
  # PCA (randomized solver on large inputs) and KMeans draw random numbers: random_state=None means the GLOBAL unseeded generator
  ctor('pca', 'sklearn.decomposition.PCA', random_state=VNone())
  ctor('lda', 'sklearn.discriminant_analysis.LinearDiscriminantAnalysis')
  ctor('nn', 'sklearn.neighbors.NearestNeighbors')
  ctor('kmeans', 'sklearn.cluster.KMeans', random_state=VNone())

  @emethod('pca', 'fit', 'ASSUMED: components_ has shape (n_components, d); ValueError when n_components > min(n, d)')
  def _pca_fit(cx, o, X, y=None):
    s = st_of(cx, X)
    h = cx.p.heap[o.oid]
    k = h.get('n_components')
    kt = k.t if isinstance(k, VInt) else z3.If(s.shape.dims[0] < s.shape.dims[1], s.shape.dims[0], s.shape.dims[1])
    cx.may_raise('ValueError', z3.Or(kt > s.shape.dims[0], kt > s.shape.dims[1], kt < 1), 'PCA: n_components out of range')
    h['fitted'] = (kt, s.shape.dims[1])
    return o

  @eattr('pca', 'components_')
  def _pca_comp(cx, o):
    k, d = cx.p.heap[o.oid]['fitted']
    return cx.new(None, [k, d], 'f')

  @emethod('lda', 'fit', 'ASSUMED: scalings_ has shape (d, m) with m = min(d, n_classes - 1) for the svd solver; ValueError for < 2 classes or n_components > m')
  def _lda_fit(cx, o, X, y):
    s = st_of(cx, X)
    h = cx.p.heap[o.oid]
    ys = st_of(cx, y)
    ncl = TH.ndistinct(ys.term) if ys.term is not None else fresh('nclasses', z3.IntSort())
    cx.may_raise('ValueError', ncl < 2, 'LDA: the number of classes has to be greater than one')
    cx.may_raise('ValueError', None, 'LDA input validation')
    m = fresh('ldam', z3.IntSort())
    d = s.shape.dims[1]
    cx.p.assume(m == z3.If(d < ncl - 1, d, ncl - 1))
    k = h.get('n_components')
    if isinstance(k, VInt):
      cx.may_raise('ValueError', k.t > m, 'LDA: n_components cannot be larger than min(n_features, n_classes - 1)')
    h['fitted'] = (d, m)
    return o

  @eattr('lda', 'scalings_')
  def _lda_sc(cx, o):
    d, m = cx.p.heap[o.oid]['fitted']
    return cx.new(None, [d, m], 'f')

  @emethod('nn', 'fit')
  def _nn_fit(cx, o, X=None, y=None):
    s = st_of(cx, X)
    cx.p.heap[o.oid]['fitted'] = s.shape.dims[0]
    return o

  @emethod('nn', 'kneighbors', 'ASSUMED: indices (into the fitted data) of the n_neighbors nearest points, nearest first, self excluded when X is omitted; ValueError when n_neighbors exceeds the available points')
  def _kneighbors(cx, o, X=None, n_neighbors=None, return_distance=None):
    nfit = cx.p.heap[o.oid]['fitted']
    k = n_neighbors.t if isinstance(n_neighbors, (VInt,)) else z3.IntVal(5)
    if X is None or isinstance(X, VNone):
      nq = nfit
      cx.may_raise('ValueError', k > nfit - 1, 'kneighbors: n_neighbors > n_samples_fit - 1')
    else:
      nq = st_of(cx, X).shape.dims[0]
      cx.may_raise('ValueError', k > nfit, 'kneighbors: n_neighbors > n_samples_fit')
    cx.may_raise('ValueError', k < 1, 'kneighbors: n_neighbors < 1')
    return cx.new(None, [nq, k], 'i', vf=nfit)

  @emethod('kmeans', 'fit')
  def _km_fit(cx, o, X, y=None):
    s = st_of(cx, X)
    h = cx.p.heap[o.oid]
    k = h['n_clusters'].t
    cx.may_raise('ValueError', k > s.shape.dims[0], 'KMeans: n_samples < n_clusters')
    h['fitted'] = (k, s.shape.dims[1])
    h['data_tt'] = s.tt
    return o

  @eattr('kmeans', 'cluster_centers_')
  def _km_cc(cx, o):
    k, d = cx.p.heap[o.oid]['fitted']
    return cx.new(None, [k, d], 'f', tt=cx.p.heap[o.oid].get('data_tt'))      # cluster centres move with the data

  @ext('sklearn.preprocessing.normalize', 'ASSUMED: rows scaled to unit l2 norm')
  def _normalize(cx, X, **kw):
    s = st_of(cx, X)
    return cx.new(TH.normalize_rows(s.term) if s.term is not None else None, s.shape.dims, 'f')

  @ext(['sklearn.metrics.pairwise_distances', 'sklearn.metrics.euclidean_distances'],
       'ASSUMED: (n, m) matrix of (squared) euclidean distances between rows; ValueError for mismatching feature counts')
  def _pdist(cx, X, Y=None, **kw):
    s = st_of(cx, X)
    n = s.shape.dims[0]
    if Y is None or isinstance(Y, VNone):
      r = cx.new(TH.pdist2(s.term) if s.term is not None else None, [n, n], 'f')
      cx.p.store[r.loc] = cx.p.store[r.loc].replace(tag=('nonneg',))       # distances are >= 0
      return r
    sy = st_of(cx, Y)
    cx.may_raise('ValueError', s.shape.dims[1] != sy.shape.dims[1], 'incompatible dimension for X and Y')
    return cx.new(None, [n, sy.shape.dims[0]], 'f')

  @ext('scipy.special.logsumexp')
  def _lse(cx, a, axis=None, **kw):
    s = st_of(cx, a)
    ax = axis_of(axis, s.shape.rank)
    if ax is None:
      return VReal(fresh('lse', z3.RealSort()))
    return cx.new(None, [d for k, d in enumerate(s.shape.dims) if k != ax], 'f')

  @ext('scipy.optimize.minimize', 'ASSUMED (L-BFGS-B): result.x has the shape of x0 (flattened), f(result.x) <= f(x0); with maxiter=0 result.x == x0; '
       'the objective is called with (x, *args) and must return (value, gradient) when jac=True')
  def _minimize(cx, fun=None, x0=None, args=None, method=None, jac=None, tol=None, options=None, **kw):
    s = st_of(cx, x0)
    # the objective is exercised once on the generic point (its own obligations are generated there)
    cx.p.events.append(('minimize', dict(fun=fun, x0=x0, args=args, jac=jac, method=method, options=options, line=cx.line())))
    res = new_extobj(cx.p, 'optres', x_dims=[s.shape.size()], x0=x0)
    if isinstance(fun, VFunc):
      argv = list(args.items) if isinstance(args, (VTuple, VList)) else []
      xarg = cx.new(fresh('xk', T), [s.shape.size()], 'f')
      outs = cx.ex.call(fun, [xarg] + argv, {}, cx.p, cx.node, cx.module)
      return [(q, res) for q, _ in outs]
    return res

  @eattr('optres', 'x')
  def _optx(cx, o):
    return cx.new(fresh('xopt', T), cx.p.heap[o.oid]['x_dims'], 'f')

  @eattr('optres', 'nit')
  def _optnit(cx, o):
    return VInt(fresh('nit', z3.IntSort()))

  @eattr('optres', 'success')
  def _optsucc(cx, o):
    return VBool(fresh('success', z3.BoolSort()))

  @eattr('optres', 'message')
  def _optmsg(cx, o):
    return VOpaque('msg')

  def _glasso(cx, emp_cov, alpha=None, **kw):
    s = st_of(cx, emp_cov)
    cx.may_raise('FloatingPointError', None, 'graphical_lasso: non SPD result / ill-conditioned system')
    cx.may_raise('ValueError', None, 'graphical_lasso input validation')
    cov = cx.new(None, s.shape.dims, 'f')
    prec = cx.new(TH.glasso(s.term, scalar_term(cx, alpha)) if (s.term is not None and scalar_term(cx, alpha) is not None) else None, s.shape.dims, 'f')
    cx.p.events.append(('graphical_lasso', dict(emp_cov=emp_cov, alpha=alpha, precision=prec)))
    return VTuple([cov, prec, cx.new(None, [z3.IntVal(1)], 'f'), VInt(fresh('nit', z3.IntSort()))])
  for dotted in ('sklearn.covariance._graph_lasso._graphical_lasso', 'sklearn.covariance.graphical_lasso'):
    ext(dotted, 'ASSUMED: returns (covariance, precision, ...) with precision the minimiser of tr(S Theta) - logdet Theta + alpha*||Theta||_1,off; may raise FloatingPointError / ValueError')(_glasso)

  @ext('sklearn.utils.validation.assert_all_finite', 'ASSUMED: raises ValueError iff the argument contains NaN or infinity')
  def _aaf(cx, x, **kw):
    if isinstance(x, VReal):
      cx.may_raise('ValueError', None, 'assert_all_finite: non-finite value')
      return VNone()
    s = as_arr(cx, x)
    cx.may_raise('ValueError', TH.nonfinite(s.term) if s.term is not None else None, 'assert_all_finite')
    return VNone()

  @ext('sklearn.metrics.roc_curve', 'ASSUMED: (fpr, tpr, thresholds) of equal length m >= 2, thresholds decreasing, first threshold = inf / max+1')
  def _roc_curve(cx, y, s, **kw):
    cx.may_raise('ValueError', None, 'roc_curve input validation')
    m = fresh_count(cx, 'nthr', 2, 10 ** 9)
    return VTuple([cx.new(None, [m], 'f'), cx.new(None, [m], 'f'), cx.new(None, [m], 'f')])

  @ext('sklearn.metrics.precision_recall_curve', 'ASSUMED: (precision, recall, thresholds) with len(precision) = len(recall) = len(thresholds) + 1')
  def _prc(cx, y, s, **kw):
    cx.may_raise('ValueError', None, 'precision_recall_curve input validation')
    m = fresh_count(cx, 'nthr', 1, 10 ** 9)
    return VTuple([cx.new(None, [m + 1], 'f'), cx.new(None, [m + 1], 'f'), cx.new(None, [m], 'f')])

  @ext('collections.Counter')
  def _counter(cx, *a):
    m = fresh_count(cx, 'nkeys', 0, 10 ** 12)
    return new_extobj(cx.p, 'counter', m=m)

  def counter_list(cx, o, elem):
    lid = fresh_name('l')
    cx.p.lists[lid] = dict(n=cx.p.heap[o.oid]['m'], elem=elem)
    return VListRef(lid)

  @emethod('counter', 'update')
  def _cupd(cx, o, *a):
    cx.p.heap[o.oid]['m'] = fresh_count(cx, 'nkeys', 0, 10 ** 12)
    return VNone()

  @emethod('counter', 'keys', 'ASSUMED: Counter over zip(a, b): keys are pairs')
  def _ckeys(cx, o):
    return counter_list(cx, o, VTuple([VInt(fresh('k0', z3.IntSort())), VInt(fresh('k1', z3.IntSort()))]))

  @emethod('counter', 'values')
  def _cvals(cx, o):
    return counter_list(cx, o, VInt(fresh('cnt', z3.IntSort())))
