"""Runs verification units (contracts and lemmas) in a process pool, aggregates obligations per clause,
applies the verdict rule and writes evidence."""
import json
import multiprocessing as mp
import os
import time
import traceback

import z3

from . import smt, theory
from .source import Program, SourceError
from .contracts import REGISTRY, body_obligations, Obligation, Undecided
from .exec import Unsupported

_state = {}


def _init():
  from .libspec import Lib
  _state['prog'] = Program()
  _state['lib'] = Lib()
  import contracts as C          # noqa: registers sidecar contracts and lemmas
  _state['C'] = C


def clause_id(oid):
  """'_util:f[case]#p3/ensures.x' -> '_util:f[case]/ensures.x'  (paths aggregated per clause)"""
  head, _, tail = oid.partition('/')
  head = head.split('#')[0]
  return head + '/' + tail


def discharge(o, tier):
  if z3.is_false(o.goal):
    # the clause evaluated to a literal False on this path: only infeasibility of the path could still discharge it, and the executor
    # has already found the path feasible when it forked -- one short attempt, no retry
    r = smt.prove(o.assumptions, o.goal, axioms_only=getattr(o, 'axioms_only', None), timeout_ms=8000)
  else:
    r = smt.prove(o.assumptions, o.goal, axioms_only=getattr(o, 'axioms_only', None))
  if r.status == 'unknown' and not z3.is_false(o.goal):
    # one retry with a three times larger budget before the obligation counts as not discharged (robustness under load)
    r2 = smt.prove(o.assumptions, o.goal, axioms_only=getattr(o, 'axioms_only', None), timeout_ms=3 * smt.Z3_TIMEOUT_MS)
    r2.seconds += r.seconds
    r = r2
  o.result = r
  o.status = r.status
  cross = None
  if tier == 'thorough' and r.status == 'discharged' and r._solver is not None and os.environ.get('NPVC_CVC5', '1') == '1':
    cross = smt.cvc5_check(r._solver, 20)
  d = o.summary()
  d['reason'] = r.reason
  d['axioms'] = getattr(r, 'axioms', [])
  d['cvc5'] = cross
  if r.status == 'refuted' and r.model is not None:
    try:
      d['model'] = {str(k): str(r.model[k]) for k in r.model.decls() if k.arity() == 0 and '!' not in k.name()}
    except Exception:
      d['model'] = {}
  return d


def run_unit(args):
  """unit = ('contract', target) | ('lemma', name) ; returns a json-able dict"""
  kind, name, tier = args
  case = None
  if kind == 'contract' and '@@' in name:
    name, case = name.split('@@')
  if not _state:
    _init()
  t0 = time.time()
  out = dict(unit=name + ('@@' + case if case else ''), kind=kind, obligations=[], undecided=None, error=None, report={})
  try:
    C = _state['C']
    if kind == 'contract':
      con = REGISTRY[name]
      obls, rep = body_obligations(_state['prog'], con, _state['lib'], loop_hook=C.LOOP_HOOK, only_case=case)
      rep = {k: (sorted(v, key=str) if isinstance(v, set) else v) for k, v in rep.items()}
      out['report'] = rep
    else:
      lem = C.LEMMAS[name]
      obls = lem.fn(_state['prog'])
      out['report'] = dict(uses=lem.uses, statement=lem.doc)
    for o in obls:
      out['obligations'].append(discharge(o, tier))
  except (Undecided, Unsupported, SourceError) as e:
    out['undecided'] = '%s: %s' % (type(e).__name__, e)
  except Exception as e:
    # an exception inside the symbolic executor / libspec while it walks the body: in practice a construct (or an argument form) outside the
    # modelled subset that no explicit `Unsupported` guards yet.  The unit is UNDECIDED -- never a violation, and no longer a tool error that
    # would hide the other units' results; the traceback is kept for the report.
    tb = traceback.extract_tb(e.__traceback__)
    where = next(('%s:%d' % (os.path.basename(f.filename), f.lineno) for f in reversed(tb) if '/npvc/' in f.filename or '/contracts/' in f.filename), '?')
    out['undecided'] = 'Undecided: %s: construct outside the modelled subset (internal %s at %s: %s)' % (name, type(e).__name__, where, str(e)[:160])
    out['internal_traceback'] = traceback.format_exc()[-1500:]
  out['seconds'] = round(time.time() - t0, 3)
  return out


def expand(units):
  """contracts with many entry cases are split into one unit per case (parallelism)"""
  out = []
  for kind, name in units:
    if kind == 'contract' and len(REGISTRY[name].cases) > 3:
      out += [(kind, '%s@@%s' % (name, c.name)) for c in REGISTRY[name].cases]
    else:
      out.append((kind, name))
  return out


def run_units(units, tier='quick', jobs=None):
  import contracts  # noqa: make sure the registry is populated in the parent too
  units = expand(units)
  jobs = jobs or min(16, max(1, len(units)))
  if jobs == 1 or len(units) <= 1:
    return [run_unit(u + (tier,)) for u in units]
  ctx = mp.get_context('fork')
  with ctx.Pool(jobs, initializer=_init) as pool:
    return pool.map(run_unit, [u + (tier,) for u in units], chunksize=1)


def aggregate(unit_results):
  """clause-level view: {clause_id: dict(status, paths, worst)}"""
  clauses = {}
  for u in unit_results:
    for o in u['obligations']:
      cid = clause_id(o['id'])
      c = clauses.setdefault(cid, dict(id=cid, kind=o['kind'], status='discharged', paths=0, seconds=0.0, unit=u['unit'], fails=[]))
      c['paths'] += 1
      c['seconds'] += o['seconds']
      if o['status'] != 'discharged':
        c['fails'].append(o)
        if o['status'] == 'refuted' or c['status'] == 'discharged':
          c['status'] = o['status']
  return clauses
