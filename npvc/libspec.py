"""libspec: assumed contracts of numpy / scipy / scikit-learn / stdlib callables used by metric_learn.

Every entry is an ASSUMED CONTRACT ON A DEPENDENCY (reported in the evidence).  An entry gives the shape /
dtype-kind / ownership of the result, the exceptions the call may raise and, where the theory has a symbol
for it, the value term.  Handlers are looked up by the identity of the installed object, so import aliases
do not matter.  Two obligations keep entries honest: call well-formedness against inspect.signature of the
installed callable (checked here at every call site) and conformance sampling of the axioms (thorough tier).
"""
import ast
import inspect
import z3

from .values import *
from .exec import Unsupported, feasible
from . import theory as TH

KIND_ORDER = {'b': 0, 'u': 1, 'i': 1, 'f': 2, 'c': 3, 'O': 4}
FRESH = frozenset()


def promote(*kinds):
  return max(kinds, key=lambda k: KIND_ORDER[k])


class Cx:
  def __init__(self, lib, ex, p, node, module=None, name=''):
    self.lib, self.ex, self.p, self.node, self.module, self.name = lib, ex, p, node, module, name

  def st(self, v):
    return self.p.store[v.loc]

  def line(self):
    return getattr(self.node, 'lineno', '?')

  def new(self, term, dims, kind='f', owner=FRESH, base=None, vf=None, tt=None):
    if term is None:
      term = fresh('t', T)
    dims = [z3.IntVal(d) if isinstance(d, int) else d for d in dims]
    return self.p.new_loc(ArrState(term, Shape(len(dims), dims), kind, owner, base, vf=vf, tt=tt))

  def vf_of(self, v):
    """value frame of an index array / index scalar (None when unknown)"""
    if isinstance(v, VArr):
      return self.p.store[v.loc].vf
    if isinstance(v, VTuple) and len(v.items) == 1:
      return self.vf_of(v.items[0])
    return getattr(v, 'vf', None)

  def join_vf(self, vs):
    fs = [self.vf_of(v) for v in vs]
    if not fs or any(f is None for f in fs):
      return None
    for f in fs[1:]:
      if not z3.simplify(f).eq(z3.simplify(fs[0])):
        sv = z3.Solver()
        sv.set(timeout=800)
        sv.add(*self.p.pc)
        sv.add(f != fs[0])
        if sv.check() != z3.unsat:
          return z3.IntVal(-1)       # indices of different frames mixed in one array: a frame that matches no axis
    return fs[0]

  def frame_obligation(self, idx, axis_len, what):
    f = self.vf_of(idx)
    if f is None:
      return
    self.p.side.append(('frame', 'index-frame:L%s' % self.line(), list(self.p.pc), f == axis_len,
                        '%s: the index values refer to an axis of length %s, the indexed axis has length %s' % (what, f, axis_len)))

  def note(self, s):
    s = '%s (line %s)' % (s, self.line())
    if s not in self.p.notes:
      self.p.notes.append(s)

  def may_raise(self, exc, cond=None, what=''):
    """external raises `exc` when cond (z3) holds (cond None: may raise under unspecified circumstances)"""
    q = self.p.fork()
    if cond is not None:
      q.assume(cond)
      if not feasible(q.pc):
        self.p.assume(z3.Not(cond))
        return
    self.ex.raise_(q, exc, '%s at line %s %s' % (self.name, self.line(), what))
    if cond is not None:
      self.p.assume(z3.Not(cond))

  def conc(self, t):
    """python int if the z3 Int term has one possible value on this path, else None"""
    t = z3.simplify(t) if not isinstance(t, int) else t
    if isinstance(t, int):
      return t
    if z3.is_int_value(t):
      return t.as_long()
    s = z3.Solver()
    s.set(timeout=1500)
    s.add(*self.p.pc)
    if s.check() != z3.sat:
      return None
    val = s.model().eval(t, model_completion=True)
    if not z3.is_int_value(val):
      return None
    s.add(t != val)
    if s.check() == z3.unsat:
      return val.as_long()
    return None


def is_arr(v):
  return isinstance(v, VArr)


class Lib:
  def __init__(self):
    self.by_obj = {}        # id(obj) -> (name, handler)
    self.methods = {}       # ndarray method name -> handler(cx, recv, *args, **kwargs)
    self.assumed = {}       # name -> text of the assumed contract
    self.wf_failures = []
    from . import libspec_np
    libspec_np.install(self)

  # registration
  def ext(self, dotted, doc=''):
    def deco(fn):
      from .source import resolve_external
      for d in ([dotted] if isinstance(dotted, str) else dotted):
        try:
          obj = resolve_external(d)
        except Exception:
          continue
        self.by_obj[id(obj)] = (d, fn, obj)
        self.assumed[d] = doc or (fn.__doc__ or '').strip()
      return fn
    return deco

  def method(self, name, doc=''):
    def deco(fn):
      self.methods[name] = fn
      self.assumed['ndarray.' + name] = doc or (fn.__doc__ or '').strip()
      return fn
    return deco

  # ---------------------------------------------------------------------------------------- dispatch
  def call(self, ex, f, args, kwargs, p, node, module):
    if isinstance(f, VBoundExt):
      return self.call_method(ex, f, args, kwargs, p, node, module)
    ent = self.by_obj.get(id(f.obj))
    if ent is None:
      # exception classes of dependencies
      if isinstance(f.obj, type) and issubclass(f.obj, BaseException):
        return [(p, VExc(f.obj.__name__, tuple(args)))]
      raise Unsupported('external without contract: %s (line %s)' % (f.dotted, getattr(node, 'lineno', '?')))
    name, handler, obj = ent
    ex.externals_used.add(name)
    cx = Cx(self, ex, p, node, module, name)
    self.wellformed(cx, obj, name, args, kwargs)
    r = handler(cx, *args, **kwargs)
    out = self._norm(r, cx)
    self._type_results(name, out, list(args) + list(kwargs.values()))
    return out

  def _norm(self, r, cx):
    if isinstance(r, list):
      return r
    if not feasible(cx.p.pc):
      return []
    return [(cx.p, r)]

  # ---- translation typing (C19) of results: specific rules, else the conservative default
  SAME_TT = {'ndarray.copy', 'ndarray.ravel', 'ndarray.flatten', 'ndarray.reshape', 'ndarray.astype', 'ndarray.squeeze', 'numpy.array',
             'numpy.asarray', 'numpy.asanyarray', 'numpy.atleast_2d', 'numpy.atleast_1d', 'numpy.tile', 'numpy.repeat', 'numpy.squeeze',
             'sklearn.utils.check_array', 'sklearn.utils.validation.check_array'}
  STACK_TT = {'numpy.vstack', 'numpy.hstack', 'numpy.column_stack', 'numpy.concatenate'}
  # results that depend on the SHAPE of the argument only (a translation does not change shapes)
  SHAPE_ONLY = {'builtins.len', 'numpy.shape', 'numpy.ndim', 'numpy.size', 'numpy.zeros_like', 'numpy.ones_like', 'numpy.empty_like',
                'numpy.full_like', 'builtins.isinstance', 'builtins.type', 'builtins.hasattr', 'builtins.callable'}
  INV_OF_POS = {'numpy.cov', 'sklearn.metrics.pairwise_distances', 'sklearn.metrics.euclidean_distances', 'nn.kneighbors'}

  def _type_results(self, name, out, args):
    from . import ttype as TT
    for q, res in out:
      ts = [TT.tt_of(q, a) for a in args]
      first = ts[0] if ts else TT.INV
      if name in self.SAME_TT:
        TT.set_tt(q, res, first) if self._unset(q, res) else None
      elif name in self.STACK_TT:
        a0 = args[0]
        items = a0.items if isinstance(a0, (VTuple, VList)) else [a0]
        TT.set_tt(q, res, TT.same([TT.tt_of(q, x) for x in items])) if self._unset(q, res) else None
      elif name in self.SHAPE_ONLY:
        TT.set_tt(q, res, TT.INV)
      elif name in self.INV_OF_POS:
        TT.set_tt(q, res, TT.BAD if TT.BAD in ts else TT.INV) if self._unset(q, res) else None
      elif name == 'numpy.unique':
        # distinct rows of translated points are the translated distinct rows, in the same (lexicographic) order
        if isinstance(res, VTuple):
          TT.set_tt(q, res.items[0], first)
          for x in res.items[1:]:
            TT.set_tt(q, x, TT.BAD if first == TT.BAD else TT.INV)
        else:
          TT.set_tt(q, res, first)
      elif name in ('numpy.dot', 'numpy.matmul', 'ndarray.dot'):
        TT.set_tt(q, res, TT.arith('dot', ts[0], ts[1]) if len(ts) >= 2 else TT.BAD)
      elif name in ('numpy.mean', 'ndarray.mean'):
        ax = [a for a in args[1:] if isinstance(a, VInt)]
        t = first
        if first == TT.POS:
          t = TT.POS if (ax and ax[0].conc() == 0) else TT.BAD      # mean over the SAMPLE axis of points is a point
        TT.set_tt(q, res, t)
      else:
        TT.default_result(q, res, args)

  def _unset(self, q, res):
    return not (isinstance(res, VArr) and q.store[res.loc].tt is not None)

  def wellformed(self, cx, obj, name, args, kwargs):
    """call well-formedness: arity and keywords must bind against the INSTALLED signature"""
    try:
      sig = inspect.signature(obj)
    except (TypeError, ValueError):
      return
    try:
      sig.bind(*args, **kwargs)
      ok, why = True, ''
    except TypeError as e:
      ok, why = False, str(e)
    cx.p.side.append(('wf', 'call-wellformed:%s@L%s' % (name, cx.line()), list(cx.p.pc), z3.BoolVal(ok),
                      'keywords %s vs installed signature %s: %s' % (sorted(kwargs), name, why or 'binds')))
    if not ok:
      # at run time this call raises TypeError
      cx.ex.raise_(cx.p.fork(), 'TypeError', 'ill-formed call of %s at line %s: %s' % (name, cx.line(), why))
      cx.p.assume(z3.BoolVal(False))

  def call_method(self, ex, f, args, kwargs, p, node, module):
    recv, name = f.recv, f.name
    cx = Cx(self, ex, p, node, module, 'method ' + name)
    if isinstance(recv, VArr):
      h = self.methods.get(name)
      if h is None:
        raise Unsupported('ndarray method without contract: %s (line %s)' % (name, cx.line()))
      ex.externals_used.add('ndarray.' + name)
      out = self._norm(h(cx, recv, *args, **kwargs), cx)
      self._type_results('ndarray.' + name, out, [recv] + list(args) + list(kwargs.values()))
      return out
    from .libspec_shape import VExtObj
    if isinstance(recv, VExtObj):
      h = self.extobj_methods.get((recv.kind, name))
      if h is None:
        raise Unsupported('method %s of %s without contract (line %s)' % (name, recv.kind, cx.line()))
      ex.externals_used.add('%s.%s' % (recv.kind, name))
      out = self._norm(h(cx, recv, *args, **kwargs), cx)
      self._type_results('%s.%s' % (recv.kind, name), out, [recv] + list(args) + list(kwargs.values()))
      return out
    if isinstance(recv, VStr):
      if name in ('format', 'join'):
        return [(p, VOpaque('msg'))]
    if isinstance(recv, VOpaque):
      if name in ('format', 'flush', 'write'):
        return [(p, VOpaque('msg'))]
      h = self.opaque_methods.get((recv.what, name)) if hasattr(self, 'opaque_methods') else None
      if h is not None:
        return self._norm(h(cx, recv, *args, **kwargs), cx)
      raise Unsupported('method %s of opaque %s (line %s)' % (name, recv.what, cx.line()))
    if isinstance(recv, VDict):
      if name == 'items':
        return [(p, VList([VTuple([VStr(k), v]) for k, v in recv.d.items()]))]
      if name == 'get':
        k = args[0]
        if isinstance(k, VStr):
          return [(p, recv.d.get(k.s, args[1] if len(args) > 1 else VNone()))]
      if name == 'keys':
        return [(p, VList([VStr(k) for k in recv.d]))]
      if name == 'values':
        return [(p, VList(list(recv.d.values())))]
    if isinstance(recv, VListRef):
      if name in ('append', 'add'):
        L = dict(p.lists[recv.lid])
        if L.get('einv') is not None and isinstance(args[0], VTuple) and all(isinstance(x, VInt) for x in args[0].items):
          # the sidecar declared an element invariant for this list: the new element must satisfy it; the generic sample stays generic
          p.side.append(('list-elem-inv', 'element-added-at-L%s' % cx.line(), list(p.pc), L['einv']([x.t for x in args[0].items]),
                         'every element added to the list satisfies its declared element invariant'))
        else:
          L['elem'] = args[0]
        p.lists[recv.lid] = L
        return [(p, VNone())]
      if name in ('difference_update', 'update', 'discard', 'remove'):
        L = dict(p.lists[recv.lid])
        n = fresh('card', z3.IntSort())
        p.assume(n >= 0)
        if name == 'difference_update':
          p.assume(n <= L['n'])
        L['n'] = n
        p.lists[recv.lid] = L
        return [(p, VNone())]
    if isinstance(recv, VList):
      if name == 'append':
        recv.items.append(args[0])     # python lists are path-local values here (no aliasing across forks: see Path.fork)
        p.notes.append('list.append modelled by value')
        return [(p, VNone())]
    if isinstance(recv, VRef) and recv.types and 'list' in recv.types and not hasattr(list, name):
      ex.raise_(p, 'AttributeError', "'list' object has no attribute '%s' (line %s)" % (name, cx.line()))
      return []
    h = getattr(self, 'generic_methods', {}).get(name)
    if h is not None:
      return self._norm(h(cx, recv, *args, **kwargs), cx)
    raise Unsupported('method %s of %r (line %s)' % (name, recv, cx.line()))

  def call_opaque(self, ex, f, args, kwargs, p, node):
    h = getattr(self, 'opaque_call', None)
    if h is None:
      raise Unsupported('call of opaque callable')
    cx = Cx(self, ex, p, node, None, 'opaque callable')
    return self._norm(h(cx, f, *args, **kwargs), cx)

  # hooks used by the executor; implemented in libspec_np
  def getattr_(self, ex, base, attr, p):
    return self.np.getattr_(Cx(self, ex, p, None), base, attr)

  def getitem(self, ex, base, idx, p, node):
    return self.np.getitem(Cx(self, ex, p, node), base, idx)

  def setitem(self, ex, base, idx, v, p, node, augmented=False):
    return self.np.setitem(Cx(self, ex, p, node), base, idx, v, augmented)

  def inplace(self, ex, op, cur, r, p, node):
    return self.np.inplace(Cx(self, ex, p, node), op, cur, r)

  def binop(self, ex, op, l, r, p):
    return self.np.binop(Cx(self, ex, p, None), op, l, r)

  def unop(self, ex, op, v, p):
    return self.np.unop(Cx(self, ex, p, None), op, v)

  def compare(self, ex, op, l, r, p):
    return self.np.compare(Cx(self, ex, p, None), op, l, r)

  def contains(self, ex, container, item, p):
    return self.np.contains(Cx(self, ex, p, None), container, item)

  def arr_truth(self, ex, v, p):
    return self.np.arr_truth(Cx(self, ex, p, None), v)

  def unpack(self, ex, v, p, n):
    return self.np.unpack(Cx(self, ex, p, None), v, n)

  def delete(self, ex, st, p, module):
    raise Unsupported('del statement (line %d)' % st.lineno)
